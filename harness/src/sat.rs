//! `sat` engine: generated miniscripts wrapped in descriptors of every script-bearing
//! output type, a real spending transaction, real signatures, the library's satisfier and
//! planner under many asset subsets, in both modes. One text block per (descriptor, tx).
use crate::ast::*;
use bitcoin::hashes::{hash160, ripemd160, sha256, Hash};
use bitcoin::secp256k1::{self, Message};
use bitcoin::sighash::{EcdsaSighashType, Prevouts, SighashCache, TapSighashType};
use bitcoin::taproot::{ControlBlock, LeafVersion, TapLeafHash};
use bitcoin::{
    absolute, relative, transaction, Amount, OutPoint, ScriptBuf, Sequence, Transaction, TxIn,
    TxOut, Witness, XOnlyPublicKey,
};
use miniscript::descriptor::{DescriptorType, TapTree};
use miniscript::miniscript::ScriptContext;
use miniscript::{
    hash256, BareCtx, Descriptor, Legacy, Miniscript, Satisfier, Segwitv0, Tap, Terminal,
    ToPublicKey,
};
use std::collections::BTreeMap;
use std::fmt::Write as _;
use std::panic::{catch_unwind, AssertUnwindSafe};

/// Assets held by the caller for one run
pub struct Assets<'a> {
    pub w: &'a World,
    pub keymask: u32,
    pub premask: u32,
    pub lock_time: Option<absolute::LockTime>,
    pub sequence: Option<Sequence>,
    pub ecdsa: &'a BTreeMap<usize, bitcoin::ecdsa::Signature>,
    pub tapleaf: &'a BTreeMap<(usize, TapLeafHash), bitcoin::taproot::Signature>,
    pub tapkey: Option<bitcoin::taproot::Signature>,
    pub internal_idx: Option<usize>,
    pub cbmap: Option<&'a BTreeMap<ControlBlock, (ScriptBuf, LeafVersion)>>,
}

impl<'a> Assets<'a> {
    fn has_key(&self, i: usize) -> bool { self.keymask & (1 << i) != 0 }
    fn pre(&self, j: usize) -> Option<[u8; 32]> {
        if self.premask & (1 << j) != 0 {
            Some(self.w.preimages[j])
        } else {
            None
        }
    }
}

impl<'a> Satisfier<Key> for Assets<'a> {
    fn lookup_ecdsa_sig(&self, k: &Key) -> Option<bitcoin::ecdsa::Signature> {
        let i = self.w.key_index(k);
        if self.has_key(i) {
            self.ecdsa.get(&i).cloned()
        } else {
            None
        }
    }
    fn lookup_tap_key_spend_sig(&self, k: &Key) -> Option<bitcoin::taproot::Signature> {
        let i = self.w.key_index(k);
        if Some(i) == self.internal_idx && self.has_key(i) {
            self.tapkey
        } else {
            None
        }
    }
    fn lookup_tap_leaf_script_sig(
        &self,
        k: &Key,
        lh: &TapLeafHash,
    ) -> Option<bitcoin::taproot::Signature> {
        let i = self.w.key_index(k);
        if self.has_key(i) {
            self.tapleaf.get(&(i, *lh)).cloned()
        } else {
            None
        }
    }
    fn lookup_tap_control_block_map(
        &self,
    ) -> Option<&BTreeMap<ControlBlock, (ScriptBuf, LeafVersion)>> {
        self.cbmap
    }
    fn lookup_sha256(&self, h: &sha256::Hash) -> Option<[u8; 32]> {
        (0..N_PRE).find(|j| self.w.sha256_img(*j) == *h).and_then(|j| self.pre(j))
    }
    fn lookup_hash256(&self, h: &hash256::Hash) -> Option<[u8; 32]> {
        (0..N_PRE).find(|j| self.w.hash256_img(*j) == *h).and_then(|j| self.pre(j))
    }
    fn lookup_ripemd160(&self, h: &ripemd160::Hash) -> Option<[u8; 32]> {
        (0..N_PRE).find(|j| self.w.ripemd160_img(*j) == *h).and_then(|j| self.pre(j))
    }
    fn lookup_hash160(&self, h: &hash160::Hash) -> Option<[u8; 32]> {
        (0..N_PRE).find(|j| self.w.hash160_img(*j) == *h).and_then(|j| self.pre(j))
    }
    fn check_older(&self, n: relative::LockTime) -> bool {
        match self.sequence {
            Some(s) => <Sequence as Satisfier<Key>>::check_older(&s, n),
            None => false,
        }
    }
    fn check_after(&self, n: absolute::LockTime) -> bool {
        match self.lock_time {
            Some(l) => <absolute::LockTime as Satisfier<Key>>::check_after(&l, n),
            None => false,
        }
    }
}

/// Plans from `plan::Assets` built the way wallets build them — from extended keys with multipath
/// and wildcard steps (`Assets::add(DescriptorPublicKey)`) — over descriptors whose keys are children
/// of those extended keys.  A plan must exist exactly when the keys given cover the policy
/// (judged here by hand per descriptor).  Differences are reported as HBAD C17 lines.
fn emit_xpub_plans(out: &mut String) {
    use bitcoin::bip32::{Xpriv, Xpub};
    use miniscript::plan::Assets as LibAssets;
    use miniscript::{DefiniteDescriptorKey, DescriptorPublicKey};
    use std::str::FromStr;
    let secp = bitcoin::secp256k1::Secp256k1::new();
    let xp: Vec<String> = (1u8..=3)
        .map(|i| Xpub::from_priv(&secp, &Xpriv::new_master(bitcoin::Network::Bitcoin, &[i; 32]).unwrap()).to_string())
        .collect();
    // (descriptor text over X1..X3 children, which key subsets satisfy it)
    let descs: Vec<(String, Box<dyn Fn(u8) -> bool>)> = vec![
        (format!("wsh(and_v(v:pk({}/0/7),pk({}/1/3)))", xp[0], xp[1]), Box::new(|s| s & 3 == 3)),
        (format!("wsh(or_d(pk({}/0/1),pk({}/0/2)))", xp[0], xp[1]), Box::new(|s| s & 3 != 0)),
        (format!("tr({}/0/5,{{pk({}/1/2),pk({}/0/9)}})", xp[2], xp[0], xp[1]), Box::new(|s| s & 7 != 0)),
        (format!("sh(multi(2,{}/0/4,{}/0/4,{}/1/4))", xp[0], xp[1], xp[2]), Box::new(|s| (s & 7).count_ones() >= 2)),
        (format!("wsh(thresh(2,pk({}/1/0),s:pk({}/1/0),s:pk({}/0/0)))", xp[0], xp[1], xp[2]), Box::new(|s| (s & 7).count_ones() >= 2)),
        // a key TWO steps below what the asset keys can derive is not signable
        (format!("wsh(pk({}/0/7/3))", xp[0]), Box::new(|_s| false)),
        (format!("wsh(or_d(pk({}/0/7/3),pk({}/0/2)))", xp[0], xp[1]), Box::new(|s| s & 2 != 0)),
        (format!("tr({}/1/1/1,pk({}/0/1))", xp[2], xp[0]), Box::new(|s| s & 1 != 0)),
    ];
    let forms: [(&str, Vec<&str>); 3] =
        [("multipath", vec!["/<0;1>/*"]), ("ranged", vec!["/0/*", "/1/*"]), ("three-path", vec!["/<0;1;2>/*"])];
    for (di, (dtext, need)) in descs.iter().enumerate() {
        let d = match Descriptor::<DefiniteDescriptorKey>::from_str(dtext) {
            Ok(d) => d,
            Err(_) => continue,
        };
        for (fname, sufs) in forms.iter() {
            for subset in 0u8..8 {
                let mut lib = LibAssets::new();
                for j in 0..3 {
                    if subset & (1 << j) != 0 {
                        for suf in sufs.iter() {
                            if let Ok(k) = DescriptorPublicKey::from_str(&format!("{}{}", xp[j], suf)) {
                                lib = lib.add(k);
                            }
                        }
                    }
                }
                for mall in [false, true] {
                    let got = catch_unwind(AssertUnwindSafe(|| {
                        let dd = d.clone();
                        if mall { dd.into_plan_mall(&lib).is_ok() } else { dd.into_plan(&lib).is_ok() }
                    }));
                    let want = need(subset);
                    match got {
                        Ok(g) if g == want => writeln!(out, "APLAN ok").unwrap(),
                        other => writeln!(
                            out,
                            "HBAD C17 case=xpub{} kind=xpub mode={} what=assets-plan-differs-from-capabilities lock=0 seq=0 desc={} assets={}:{:03b} lib={} expected={} libkeys=-",
                            di,
                            if mall { "mall" } else { "nonmall" },
                            dtext,
                            fname,
                            subset,
                            match other { Ok(true) => "plan", Ok(false) => "none", Err(_) => "PANIC" },
                            if want { "plan" } else { "none" }
                        )
                        .unwrap(),
                    }
                }
            }
        }
    }
}

/// A provider that holds every key and preimage and claims EVERY time lock: the way a wallet asks
/// a plan which locks the spend needs before it builds the transaction.
pub struct AnyLock<'a>(pub Assets<'a>);
impl<'a> Satisfier<Key> for AnyLock<'a> {
    fn lookup_ecdsa_sig(&self, k: &Key) -> Option<bitcoin::ecdsa::Signature> { self.0.lookup_ecdsa_sig(k) }
    fn lookup_tap_key_spend_sig(&self, k: &Key) -> Option<bitcoin::taproot::Signature> { self.0.lookup_tap_key_spend_sig(k) }
    fn lookup_tap_leaf_script_sig(&self, k: &Key, lh: &TapLeafHash) -> Option<bitcoin::taproot::Signature> {
        self.0.lookup_tap_leaf_script_sig(k, lh)
    }
    fn lookup_tap_control_block_map(&self) -> Option<&BTreeMap<ControlBlock, (ScriptBuf, LeafVersion)>> {
        self.0.lookup_tap_control_block_map()
    }
    fn lookup_sha256(&self, h: &sha256::Hash) -> Option<[u8; 32]> { self.0.lookup_sha256(h) }
    fn lookup_hash256(&self, h: &hash256::Hash) -> Option<[u8; 32]> { self.0.lookup_hash256(h) }
    fn lookup_ripemd160(&self, h: &ripemd160::Hash) -> Option<[u8; 32]> { self.0.lookup_ripemd160(h) }
    fn lookup_hash160(&self, h: &hash160::Hash) -> Option<[u8; 32]> { self.0.lookup_hash160(h) }
    fn check_older(&self, _n: relative::LockTime) -> bool { true }
    fn check_after(&self, _n: absolute::LockTime) -> bool { true }
}

/// Plan first, transaction afterwards (C17 / C01): ask for a plan with every asset and every lock
/// claimed, build the spending transaction from the locks the plan REPORTS, sign for it, complete the
/// plan: the result must spend (judged by the driver's oracle on a RUNX line of a case of its own).
fn emit_planx(w: &World, c: &Case, id: u64, sane: bool, out: &mut String) {
    let spk = c.desc.script_pubkey();
    let value = Amount::from_sat(100_000);
    let allk: u32 = c.keys.iter().fold(0u32, |m, i| m | (1 << i));
    let (tx0, _, _) = spend_tx(&TxEnv { lock_time: None, sequence: None });
    let mut scratch = String::new();
    let s0 = sign_case(w, c, &tx0, value, &spk, &ecdsa_sig, &mut scratch);
    for mall in [false, true] {
        let mode = if mall { "mall" } else { "nonmall" };
        let prov = AnyLock(Assets {
            w,
            keymask: allk,
            premask: (1 << N_PRE) - 1,
            lock_time: None,
            sequence: None,
            ecdsa: &s0.ecdsa,
            tapleaf: &s0.tapleaf,
            tapkey: s0.tapkey,
            internal_idx: c.internal,
            cbmap: s0.cbmap.as_ref(),
        });
        let plan = match catch_unwind(AssertUnwindSafe(|| {
            let d = c.desc.clone();
            if mall { d.into_plan_mall(&prov) } else { d.into_plan(&prov) }
        })) {
            Ok(Ok(p)) => p,
            _ => continue,
        };
        let a = plan.absolute_timelock.map(|l| l.to_consensus_u32());
        let r = plan.relative_timelock.map(|l| l.to_sequence().to_consensus_u32());
        let env2 = TxEnv { lock_time: a, sequence: r };
        let (tx2, lock, seq) = spend_tx(&env2);
        writeln!(out, "CASE {}{} {} sane={}", id, if mall { "xm" } else { "xn" }, c.kind, sane as u8).unwrap();
        writeln!(out, "DESC {}", c.desc).unwrap();
        for (d, sbytes) in c.ms_dump.iter() {
            writeln!(out, "MS {}", d).unwrap();
            writeln!(out, "SCRIPT {}", hex(sbytes)).unwrap();
            if c.kind == "tr" {
                let lh = TapLeafHash::from_script(bitcoin::Script::from_bytes(sbytes), LeafVersion::TapScript);
                writeln!(out, "LEAFH {}", hex(lh.as_byte_array())).unwrap();
            }
        }
        writeln!(out, "SPK {}", hex(spk.as_bytes())).unwrap();
        writeln!(out, "TX 2 {} {}", lock, seq).unwrap();
        writeln!(
            out,
            "LOCKS {} {}",
            a.map(|x| x.to_string()).unwrap_or("-".into()),
            r.map(|x| x.to_string()).unwrap_or("-".into())
        )
        .unwrap();
        let s2 = sign_case(w, c, &tx2, value, &spk, &ecdsa_sig, out);
        for (i, sig) in s2.ecdsa.iter() {
            writeln!(out, "SIG {} {}", i, hex(&sig.to_vec())).unwrap();
        }
        for ((i, lh), sig) in s2.tapleaf.iter() {
            writeln!(out, "SIGL {} {} {}", i, hex(lh.as_byte_array()), hex(&sig.to_vec())).unwrap();
        }
        let assets2 = Assets {
            w,
            keymask: allk,
            premask: (1 << N_PRE) - 1,
            lock_time: a.map(absolute::LockTime::from_consensus),
            sequence: r.map(Sequence),
            ecdsa: &s2.ecdsa,
            tapleaf: &s2.tapleaf,
            tapkey: s2.tapkey,
            internal_idx: c.internal,
            cbmap: s2.cbmap.as_ref(),
        };
        match catch_unwind(AssertUnwindSafe(|| plan.satisfy(&assets2))) {
            Ok(Ok((wit, ssig))) => {
                let mut l = format!("RUNX {} {} {} OK {}", mode, allk, (1 << N_PRE) - 1, wit.len());
                for it in wit.iter() {
                    l.push(' ');
                    l.push_str(&hex(it));
                }
                l.push_str(" S ");
                l.push_str(&hex(ssig.as_bytes()));
                if c.kind == "tr" && wit.len() >= 2 {
                    let ok = match ControlBlock::decode(&wit[wit.len() - 1]) {
                        Ok(cb) => {
                            let ok_key = XOnlyPublicKey::from_slice(&spk.as_bytes()[2..34]).unwrap();
                            let sc = ScriptBuf::from_bytes(wit[wit.len() - 2].clone());
                            cb.verify_taproot_commitment(&w.secp, ok_key, &sc) && cb.leaf_version == LeafVersion::TapScript
                        }
                        Err(_) => false,
                    };
                    l.push_str(if ok { " TAPOK 1" } else { " TAPOK 0" });
                }
                writeln!(out, "{}", l).unwrap();
            }
            Ok(Err(_)) => writeln!(out, "RUNX {} {} {} ERR", mode, allk, (1 << N_PRE) - 1).unwrap(),
            Err(_) => writeln!(out, "RUNX {} {} {} PANIC", mode, allk, (1 << N_PRE) - 1).unwrap(),
        }
        writeln!(out, "END").unwrap();
    }
}

fn collect_locks<Ctx: ScriptContext>(ms: &Miniscript<Key, Ctx>, abs: &mut Vec<u32>, rel: &mut Vec<u32>) {
    for m in ms.iter() {
        match m.node {
            Terminal::After(t) => abs.push(t.to_consensus_u32()),
            Terminal::Older(t) => rel.push(t.to_consensus_u32()),
            _ => {}
        }
    }
}
fn collect_keys<Ctx: ScriptContext>(w: &World, ms: &Miniscript<Key, Ctx>, keys: &mut Vec<usize>) {
    for k in ms.iter_pk() {
        let i = w.key_index(&k);
        if !keys.contains(&i) {
            keys.push(i);
        }
    }
}

pub struct Case {
    pub desc: Descriptor<Key>,
    pub kind: &'static str,
    pub ms_dump: Vec<(String, Vec<u8>)>, // per leaf: prefix dump, script bytes
    pub exts: Vec<String>,                // per leaf: the library's ExtData (ext::ext_str), read by the C09 driver
    pub keys: Vec<usize>,
    pub abs: Vec<u32>,
    pub rel: Vec<u32>,
    pub internal: Option<usize>,
}

fn mk<Ctx: ScriptContext>(w: &World, seed: u64, ci: CtxInfo, depth: u32, sane: bool) -> Option<Miniscript<Key, Ctx>> {
    if let Some(t) = TMPL.with(|t| t.get()) {
        // taproot trees take consecutive templates for their leaves
        return mk_tmpl::<Ctx>(w, t + (seed % 3) as usize * usize::from(ci.tap), ci.tap, sane);
    }
    let mut g = Gen::new(w, seed, ci);
    g.dup_keys = !sane && seed % 5 == 0;
    for _ in 0..20 {
        let m = g.gen::<Ctx>(B::B, depth)?;
        if sane && m.validate(&Ctx::SANE).is_err() {
            continue;
        }
        return Some(m);
    }
    None
}

/// Directed shapes (C03 / C02): sane scripts whose spending paths differ in what a third party
/// could supply — a signed branch next to a signature-free one (hashes, locks), thresholds mixing
/// keys with hashes and locks.  `@i` is key i, `#s/#h/#r/#k j` the sha256 / hash256 / ripemd160 /
/// hash160 image of preimage j.
pub const TEMPLATES: &[&str] = &[
    "and_v(v:pk(@1),or_i(sha256(#s0),pk(@0)))",
    "and_v(v:pk(@2),or_i(pk(@0),and_v(v:older(10),and_v(v:sha256(#s0),and_v(v:sha256(#s1),sha256(#s2))))))",
    "or_d(pk(@0),and_v(v:pk(@1),older(10)))",
    "andor(pk(@0),sha256(#s0),pk(@1))",
    "and_v(v:pk(@0),or_d(sha256(#s0),pk(@1)))",
    "thresh(2,pk(@0),s:pk(@1),sln:older(10))",
    "and_v(v:pk(@0),or_b(sha256(#s0),a:pk(@1)))",
    "or_i(and_v(v:pk(@0),sha256(#s0)),and_v(v:pk(@1),after(9)))",
    "and_v(v:pk(@0),andor(sha256(#s0),hash160(#k1),pk(@1)))",
    "thresh(2,pk(@0),s:pk(@1),a:sha256(#s0))",
    "and_v(or_c(pk(@0),v:sha256(#s0)),pk(@1))",
    "or_d(multi(2,@0,@1),and_v(v:pk(@2),after(9)))",
    "and_v(v:pk(@0),or_i(and_v(v:after(9),sha256(#s0)),pk(@1)))",
    "c:or_i(and_v(v:sha256(#s0),pk_k(@0)),pk_k(@1))",
    "t:or_c(pk(@0),and_v(v:pk(@1),or_c(pk(@2),v:hash160(#k0))))",
    "and_v(v:pk(@0),or_i(hash256(#h1),or_i(ripemd160(#r2),pk(@1))))",
    "andor(pk(@0),or_i(and_v(v:pkh(@1),hash160(#k0)),older(10)),pk(@2))",
    "and_v(v:pk(@3),thresh(1,sha256(#s0),a:sha256(#s1),a:pk(@1)))",
    "or_d(pk(@0),and_v(v:pkh(@1),or_i(sha256(#s0),older(4194314))))",
    "and_b(pk(@0),a:or_i(sha256(#s1),pk(@2)))",
    "and_v(v:pk(@0),or_d(pk(@1),and_v(v:sha256(#s0),after(500000001))))",
    "thresh(2,pk(@0),a:or_i(sha256(#s0),pk(@1)),a:pk(@2))",
    "or_d(multi(1,@0,@1),multi(1,@2,@3))",
    "thresh(1,multi(1,@0,@1),a:multi(1,@2,@3))",
    "and_v(v:pk(@0),or_d(pk(@1),older(10)))",
    "or_i(and_v(v:pk(@0),after(9)),and_v(v:pk(@1),after(500000001)))",
    // seeded change C17-9: a dissatisfaction that carries a signature AND a time lock is the cheapest
    // one in malleable mode (the signature-free dissatisfaction costs three key pushes), under or_d / or_c
    "or_d(or_i(and_v(v:after(9),and_v(v:pk(@0),pk(@4))),and_b(pkh(@1),a:and_b(pkh(@2),a:pkh(@3)))),pk(@5))",
    "t:or_c(or_i(and_v(v:older(10),and_v(v:pk(@0),pk(@4))),and_b(pkh(@1),a:and_b(pkh(@2),a:pkh(@3)))),v:pk(@5))",
    // seeded change C03-9: a threshold whose signature-free child costs more than a signature while
    // k+1 signatures are available (the non-malleable choice must not depend on weight alone)
    "thresh(2,pk(@0),s:pk(@1),s:pk(@2),al:and_v(v:sha256(#s0),and_v(v:sha256(#s1),tv:sha256(#s2))))",
    // extension round 2 (C07Desc, `C07_sh_scriptsig_rule_not_implied`): a P2SH redeem script under 520 bytes
    // whose satisfaction items stay under 1650 bytes while the scriptSig INCLUDING the push of the redeem
    // script exceeds Core's 1650-byte standardness rule (keys 6, 7 are uncompressed: Legacy / Bare only)
    "and_v(v:pkh(@0),and_v(v:pkh(@1),and_v(v:pkh(@2),and_v(v:pkh(@3),and_v(v:pkh(@4),and_v(v:pkh(@5),and_v(v:pkh(@6),and_v(v:pkh(@7),and_v(v:ripemd160(#r0),and_v(v:ripemd160(#r1),and_v(v:ripemd160(#r2),and_v(v:ripemd160(#r3),and_v(v:hash160(#k0),and_v(v:hash160(#k1),and_v(v:hash160(#k2),and_v(v:hash160(#k3),and_v(v:sha256(#s0),sha256(#s1))))))))))))))))))",
];

fn mk_tmpl<Ctx: ScriptContext>(w: &World, t: usize, tap: bool, sane: bool) -> Option<Miniscript<Key, Ctx>> {
    use std::str::FromStr;
    let mut s = TEMPLATES[t % TEMPLATES.len()].to_string();
    if tap {
        s = s.replace("multi(", "multi_a(");
    }
    if tap && (s.contains("@6") || s.contains("@7")) {
        return None;
    }
    for i in 0..N_KEYS {
        s = s.replace(&format!("@{}", i), &w.key(i, tap).to_string());
    }
    for j in 0..N_PRE {
        s = s.replace(&format!("#s{}", j), &w.sha256_img(j).to_string());
        s = s.replace(&format!("#h{}", j), &w.hash256_img(j).to_string());
        s = s.replace(&format!("#r{}", j), &w.ripemd160_img(j).to_string());
        s = s.replace(&format!("#k{}", j), &w.hash160_img(j).to_string());
    }
    let m = Miniscript::<Key, Ctx>::from_str_insane(&s).ok()?;
    if sane && m.validate(&Ctx::SANE).is_err() {
        return None;
    }
    Some(m)
}

thread_local! {
    /// template selected for the case being built (None: random generation)
    static TMPL: std::cell::Cell<Option<usize>> = std::cell::Cell::new(None);
}

pub fn make_case_t(w: &World, seed: u64, kind_sel: u64, depth: u32, sane: bool, tmpl: Option<usize>) -> Option<Case> {
    TMPL.with(|t| t.set(tmpl));
    let r = make_case(w, seed, kind_sel, depth, sane);
    TMPL.with(|t| t.set(None));
    r
}

pub fn make_case(w: &World, seed: u64, kind_sel: u64, depth: u32, sane: bool) -> Option<Case> {
    let mut keys = Vec::new();
    let mut abs = Vec::new();
    let mut rel = Vec::new();
    let mut dumps = Vec::new();
    let mut exts = Vec::new();
    let mut internal = None;
    if kind_sel % 13 >= 10 {
        let i = (seed % 6) as usize;
        keys.push(i);
        let k = w.key(i, false);
        let (desc, kind): (Descriptor<Key>, &'static str) = match kind_sel % 13 {
            10 => (Descriptor::new_pkh(k).ok()?, "pkh"),
            11 => (Descriptor::new_wpkh(k).ok()?, "wpkh"),
            _ => (Descriptor::new_sh_wpkh(k).ok()?, "shwpkh"),
        };
        return Some(Case { desc, kind, ms_dump: vec![], exts: vec![], keys, abs, rel, internal: None });
    }
    let (desc, kind): (Descriptor<Key>, &'static str) = match kind_sel % 5 {
        0 | 1 => {
            let ci = CtxInfo { tap: false, legacy_like: false, n_keys: 6 };
            let m = mk::<Segwitv0>(w, seed, ci, depth, sane)?;
            collect_keys(w, &m, &mut keys);
            collect_locks(&m, &mut abs, &mut rel);
            dumps.push((dump_str(w, &m.node), m.encode().into_bytes()));
            exts.push(crate::ext::ext_str(&m.ext));
            if kind_sel % 5 == 0 {
                (Descriptor::new_wsh(m).ok()?, "wsh")
            } else {
                (Descriptor::new_sh_wsh(m).ok()?, "shwsh")
            }
        }
        2 => {
            let ci = CtxInfo { tap: false, legacy_like: true, n_keys: 8 };
            let m = mk::<Legacy>(w, seed, ci, depth, sane)?;
            collect_keys(w, &m, &mut keys);
            collect_locks(&m, &mut abs, &mut rel);
            dumps.push((dump_str(w, &m.node), m.encode().into_bytes()));
            exts.push(crate::ext::ext_str(&m.ext));
            (Descriptor::new_sh(m).ok()?, "sh")
        }
        3 => {
            let ci = CtxInfo { tap: false, legacy_like: true, n_keys: 8 };
            let m = mk::<BareCtx>(w, seed, ci, depth.min(1), sane)?;
            collect_keys(w, &m, &mut keys);
            collect_locks(&m, &mut abs, &mut rel);
            dumps.push((dump_str(w, &m.node), m.encode().into_bytes()));
            exts.push(crate::ext::ext_str(&m.ext));
            (Descriptor::new_bare(m).ok()?, "bare")
        }
        _ => {
            let ci = CtxInfo { tap: true, legacy_like: false, n_keys: 5 };
            // now and then a ladder of 9 leaves: the deepest leaves sit at depth 8, so their
            // control block (33 + 32*8 = 289 bytes) needs a 3-byte length prefix in the witness
            let deep = (seed / 3) % 9 == 0;
            let nleaves = if deep { 9 } else { 1 + (seed / 7) % 3 };
            let mut leaves = Vec::new();
            for l in 0..nleaves {
                let m = mk::<Tap>(w, seed.wrapping_mul(31).wrapping_add(l), ci, if deep { 0 } else { depth }, sane)?;
                collect_keys(w, &m, &mut keys);
                collect_locks(&m, &mut abs, &mut rel);
                dumps.push((dump_str(w, &m.node), m.encode().into_bytes()));
                exts.push(crate::ext::ext_str(&m.ext));
                leaves.push(m);
            }
            let tree = match leaves.len() {
                9 => {
                    let mut t = TapTree::leaf(leaves.pop().unwrap());
                    while let Some(l) = leaves.pop() {
                        t = TapTree::combine(TapTree::leaf(l), t).ok()?;
                    }
                    t
                }
                1 => TapTree::leaf(leaves.pop().unwrap()),
                2 => {
                    let b = TapTree::leaf(leaves.pop().unwrap());
                    let a = TapTree::leaf(leaves.pop().unwrap());
                    TapTree::combine(a, b).ok()?
                }
                _ => {
                    let c = TapTree::leaf(leaves.pop().unwrap());
                    let b = TapTree::leaf(leaves.pop().unwrap());
                    let a = TapTree::leaf(leaves.pop().unwrap());
                    TapTree::combine(a, TapTree::combine(b, c).ok()?).ok()?
                }
            };
            internal = Some(5usize);
            if !keys.contains(&5) {
                keys.push(5);
            }
            (Descriptor::new_tr(w.key(5, true), Some(tree)).ok()?, "tr")
        }
    };
    Some(Case { desc, kind, ms_dump: dumps, exts, keys, abs, rel, internal })
}

pub fn ecdsa_sig(w: &World, i: usize, msg: Message) -> bitcoin::ecdsa::Signature {
    let sig = w.secp.sign_ecdsa(&msg, &w.sks[i]);
    bitcoin::ecdsa::Signature { signature: sig, sighash_type: EcdsaSighashType::All }
}

pub struct TxEnv {
    pub lock_time: Option<u32>,
    pub sequence: Option<u32>,
}

pub fn lock_envs(c: &Case, rng: &mut Rng) -> Vec<TxEnv> {
    let mut v = vec![TxEnv { lock_time: None, sequence: None }];
    if c.abs.is_empty() && c.rel.is_empty() {
        return v;
    }
    let maxabs_h = c.abs.iter().filter(|t| **t < 500_000_000).max().cloned();
    let maxabs_t = c.abs.iter().filter(|t| **t >= 500_000_000).max().cloned();
    let maxrel_h = c.rel.iter().filter(|t| **t & 0x400000 == 0).max().cloned();
    let maxrel_t = c.rel.iter().filter(|t| **t & 0x400000 != 0).max().cloned();
    // everything of the dominant unit satisfied
    v.push(TxEnv { lock_time: maxabs_h.or(maxabs_t), sequence: maxrel_h.or(maxrel_t) });
    if maxabs_h.is_some() && maxabs_t.is_some() || maxrel_h.is_some() && maxrel_t.is_some() {
        v.push(TxEnv { lock_time: maxabs_t.or(maxabs_h), sequence: maxrel_t.or(maxrel_h) });
    }
    // a boundary pick: one lock value +-1
    let pick = |xs: &Vec<u32>, rng: &mut Rng| -> Option<u32> {
        if xs.is_empty() {
            None
        } else {
            let t = xs[rng.below(xs.len() as u64) as usize];
            Some(match rng.below(3) {
                0 => t.saturating_sub(1),
                1 => t,
                _ => t + 1,
            })
        }
    };
    let l = pick(&c.abs, rng);
    let s = pick(&c.rel, rng);
    v.push(TxEnv { lock_time: l.filter(|x| *x > 0), sequence: s.filter(|x| *x > 0) });
    // seeded change C01-9: an nSequence with the BIP68 disable flag meets no relative lock, whatever
    // its low bits say (the caller hands such a Sequence to the library's own Satisfier impl)
    if let Some(r) = maxrel_h.or(maxrel_t) {
        v.push(TxEnv { lock_time: None, sequence: Some(0x8000_0000 | r) });
        v.push(TxEnv { lock_time: None, sequence: Some(if r & 1 == 0 { 0xffff_fffe } else { 0xffff_ffff }) });
    }
    v
}

fn class_of(e: &miniscript::Error) -> &'static str {
    match e {
        miniscript::Error::CouldNotSatisfy => "could_not_satisfy",
        _ => "other",
    }
}

/// KEY / PRE lines of the engine's protocol (also used by `ext limits`)
pub fn world_header(w: &World) -> String {
    let mut out = String::new();
    // world header
    for i in 0..N_KEYS {
        let kb = w.key_bytes(i, false);
        let xb = w.key_bytes(i, true);
        writeln!(
            out,
            "KEY {} {} {} {} {} {}",
            i,
            hex(&kb),
            hex(hash160::Hash::hash(&kb).as_byte_array()),
            hex(&xb),
            hex(hash160::Hash::hash(&xb).as_byte_array()),
            hex(&w.pks[i].inner.serialize())
        )
        .unwrap();
    }
    let zero32 = [0u8; 32];
    for (j, p) in w.preimages.iter().chain(std::iter::once(&zero32)).enumerate() {
        writeln!(
            out,
            "PRE {} {} {} {} {} {}",
            j,
            hex(p),
            hex(sha256::Hash::hash(p).as_byte_array()),
            hex(hash256::Hash::hash(p).as_byte_array()),
            hex(ripemd160::Hash::hash(p).as_byte_array()),
            hex(hash160::Hash::hash(p).as_byte_array())
        )
        .unwrap();
    }
    out
}

pub fn run(args: &[String]) {
    let seed: u64 = args.first().and_then(|s| s.parse().ok()).unwrap_or(1);
    let n: u64 = args.get(1).and_then(|s| s.parse().ok()).unwrap_or(200);
    let w = World::new();
    let out = world_header(&w);
    print!("{}", out);
    {
        let mut s = String::new();
        if catch_unwind(AssertUnwindSafe(|| emit_xpub_plans(&mut s))).is_err() {
            s.push_str("PANIC emit_xpub_plans\n");
        }
        print!("{}", s);
    }
    let mut rng = Rng(seed ^ 0x5151);
    let mut id = 0u64;
    for c in 0..n {
        let cseed = seed.wrapping_mul(1_000_003).wrapping_add(c);
        let depth = 1 + (c % 4) as u32;
        let sane = c % 3 != 2;
        // every fourth case is a directed template (sane), cycling through templates and output types
        let tmpl = if c % 4 == 3 { Some((c / 4) as usize % TEMPLATES.len()) } else { None };
        let (c_kind, sane) = match tmpl {
            Some(_) => ([0u64, 1, 2, 4, 0][((c / 4) as usize / TEMPLATES.len()) % 5], true),
            None => (c, sane),
        };
        let case = match catch_unwind(AssertUnwindSafe(|| make_case_t(&w, cseed, c_kind, depth, sane, tmpl))) {
            Ok(Some(x)) => x,
            Ok(None) => continue,
            Err(_) => {
                println!("PANIC make_case seed={} c={}", cseed, c);
                continue;
            }
        };
        {
            let mut s = String::new();
            id += 1;
            if catch_unwind(AssertUnwindSafe(|| emit_planx(&w, &case, id, sane, &mut s))).is_ok() {
                print!("{}", s);
            } else {
                println!("END");
                println!("PANIC emit_planx case={} seed={} c={} desc={}", id, cseed, c, case.desc);
            }
        }
        for env in lock_envs(&case, &mut rng) {
            id += 1;
            let mut s = String::new();
            if catch_unwind(AssertUnwindSafe(|| emit_case(&w, &case, &env, id, sane, &mut rng, &mut s))).is_err() {
                // an uncaught library panic while building the case: reported, never silently dropped
                println!("END");
                println!("PANIC emit_case case={} seed={} c={} desc={}", id, cseed, c, case.desc);
                continue;
            }
            print!("{}", s);
        }
    }
    println!("DONE sat");
}

/// The spending transaction of a case under a lock environment (one input, one output).
pub fn spend_tx(env: &TxEnv) -> (Transaction, u32, u32) {
    let lock = env.lock_time.unwrap_or(0);
    let seq = env.sequence.unwrap_or(if env.lock_time.is_some() { 0xffff_fffe } else { 0xffff_ffff });
    let tx = Transaction {
        version: transaction::Version::TWO,
        lock_time: absolute::LockTime::from_consensus(lock),
        input: vec![TxIn {
            previous_output: OutPoint { txid: bitcoin::Txid::all_zeros(), vout: 0 },
            script_sig: ScriptBuf::new(),
            sequence: Sequence(seq),
            witness: Witness::new(),
        }],
        output: vec![TxOut { value: Amount::from_sat(90_000), script_pubkey: ScriptBuf::new() }],
    };
    (tx, lock, seq)
}

/// All signatures a case can use, over the real sighash of `tx`.
pub struct Sigs {
    pub ecdsa: BTreeMap<usize, bitcoin::ecdsa::Signature>,
    pub tapleaf: BTreeMap<(usize, TapLeafHash), bitcoin::taproot::Signature>,
    pub tapkey: Option<bitcoin::taproot::Signature>,
    pub cbmap: Option<BTreeMap<ControlBlock, (ScriptBuf, LeafVersion)>>,
}

/// Sign with every key of the case. `signer` produces the ECDSA signature (the `sat` engine
/// uses plain RFC6979 signing; the `ext` engine grinds to the maximal encoded length).
/// HASH / SIGK lines for the driver are appended to `out`.
pub fn sign_case(
    w: &World,
    c: &Case,
    tx: &Transaction,
    value: Amount,
    spk: &ScriptBuf,
    signer: &dyn Fn(&World, usize, Message) -> bitcoin::ecdsa::Signature,
    out: &mut String,
) -> Sigs {
    let prevout = TxOut { value, script_pubkey: spk.clone() };
    let mut ecdsa = BTreeMap::new();
    let mut tapleaf = BTreeMap::new();
    let mut tapkey = None;
    let mut cache = SighashCache::new(tx);
    let mut cbmap_store = None;
    match c.kind {
        "wsh" | "shwsh" => {
            let ws = ScriptBuf::from_bytes(c.ms_dump[0].1.clone());
            let h = cache.p2wsh_signature_hash(0, &ws, value, EcdsaSighashType::All).unwrap();
            let msg = Message::from_digest(h.to_byte_array());
            for &i in c.keys.iter() {
                ecdsa.insert(i, signer(w, i, msg));
            }
            writeln!(out, "HASH sha256 {} {}", hex(ws.as_bytes()), hex(sha256::Hash::hash(ws.as_bytes()).as_byte_array())).unwrap();
            if c.kind == "shwsh" {
                let prog = ScriptBuf::new_p2wsh(&ws.wscript_hash());
                writeln!(out, "HASH hash160 {} {}", hex(prog.as_bytes()), hex(hash160::Hash::hash(prog.as_bytes()).as_byte_array())).unwrap();
            }
        }
        "pkh" => {
            let h = cache.legacy_signature_hash(0, &spk, EcdsaSighashType::All.to_u32()).unwrap();
            let msg = Message::from_digest(h.to_byte_array());
            for &i in c.keys.iter() {
                ecdsa.insert(i, ecdsa_sig(w, i, msg));
            }
        }
        "wpkh" | "shwpkh" => {
            let prog = ScriptBuf::new_p2wpkh(&w.pks[c.keys[0]].wpubkey_hash().unwrap());
            let h = cache.p2wpkh_signature_hash(0, &prog, value, EcdsaSighashType::All).unwrap();
            let msg = Message::from_digest(h.to_byte_array());
            for &i in c.keys.iter() {
                ecdsa.insert(i, ecdsa_sig(w, i, msg));
            }
            if c.kind == "shwpkh" {
                writeln!(out, "HASH hash160 {} {}", hex(prog.as_bytes()), hex(hash160::Hash::hash(prog.as_bytes()).as_byte_array())).unwrap();
            }
        }
        "sh" | "bare" => {
            let sc = ScriptBuf::from_bytes(c.ms_dump[0].1.clone());
            let h = cache.legacy_signature_hash(0, &sc, EcdsaSighashType::All.to_u32()).unwrap();
            let msg = Message::from_digest(h.to_byte_array());
            for &i in c.keys.iter() {
                ecdsa.insert(i, signer(w, i, msg));
            }
            if c.kind == "sh" {
                writeln!(out, "HASH hash160 {} {}", hex(sc.as_bytes()), hex(hash160::Hash::hash(sc.as_bytes()).as_byte_array())).unwrap();
            }
        }
        _ => {
            let prevouts = [prevout.clone()];
            let prevouts = Prevouts::All(&prevouts);
            for (_, sbytes) in c.ms_dump.iter() {
                let ls = ScriptBuf::from_bytes(sbytes.clone());
                let lh = TapLeafHash::from_script(&ls, LeafVersion::TapScript);
                let h = cache.taproot_script_spend_signature_hash(0, &prevouts, lh, TapSighashType::Default).unwrap();
                let msg = Message::from_digest(h.to_byte_array());
                for &i in c.keys.iter() {
                    let kp = secp256k1::Keypair::from_secret_key(&w.secp, &w.sks[i]);
                    let sig = w.secp.sign_schnorr_no_aux_rand(&msg, &kp);
                    tapleaf.insert((i, lh), bitcoin::taproot::Signature { signature: sig, sighash_type: TapSighashType::Default });
                }
            }
            // key spend: tweak the internal key with the merkle root taken from the spk itself
            if let Descriptor::Tr(ref tr) = c.desc {
                let si = tr.spend_info();
                use bitcoin::key::TapTweak;
                let kp = secp256k1::Keypair::from_secret_key(&w.secp, &w.sks[c.internal.unwrap()]);
                let tweaked = kp.tap_tweak(&w.secp, si.merkle_root());
                let h = cache.taproot_key_spend_signature_hash(0, &prevouts, TapSighashType::Default).unwrap();
                let msg = Message::from_digest(h.to_byte_array());
                let sig = w.secp.sign_schnorr_no_aux_rand(&msg, &tweaked.to_keypair());
                tapkey = Some(bitcoin::taproot::Signature { signature: sig, sighash_type: TapSighashType::Default });
                // valid pair for the oracle: (output key from the spk, sig)
                writeln!(out, "SIGK {} {}", hex(&spk.as_bytes()[2..34]), hex(&tapkey.unwrap().to_vec())).unwrap();
                let mut m = BTreeMap::new();
                for leaf in si.leaves() {
                    m.insert(leaf.control_block().clone(), (ScriptBuf::from(leaf.script()), LeafVersion::TapScript));
                }
                cbmap_store = Some(m);
            }
        }
    }
    Sigs { ecdsa, tapleaf, tapkey, cbmap: cbmap_store }
}

/// Key subsets tried for a case: all subsets up to 4 keys, otherwise all / none / 14 random.
pub fn key_masks(c: &Case, rng: &mut Rng) -> Vec<u32> {
    let nk = c.keys.len();
    let mut masks: Vec<u32> = Vec::new();
    if nk <= 4 {
        for sub in 0..(1u32 << nk) {
            let mut m = 0u32;
            for (b, &k) in c.keys.iter().enumerate() {
                if sub & (1 << b) != 0 {
                    m |= 1 << k;
                }
            }
            masks.push(m);
        }
    } else {
        let all: u32 = c.keys.iter().fold(0, |a, k| a | (1 << k));
        masks.push(all);
        masks.push(0);
        for _ in 0..14 {
            let mut m = 0u32;
            for &k in c.keys.iter() {
                if rng.chance(1, 2) {
                    m |= 1 << k;
                }
            }
            masks.push(m);
        }
        // every pair that contains the last key (directed: one signer of an inner branch plus the
        // key of the fallback branch); appended after the random masks so that those are unchanged
        if let Some((&last, rest)) = c.keys.split_last() {
            for &k in rest {
                masks.push((1 << k) | (1 << last));
            }
        }
    }
    masks
}

pub fn emit_case(w: &World, c: &Case, env: &TxEnv, id: u64, sane: bool, rng: &mut Rng, out: &mut String) {
    let spk = c.desc.script_pubkey();
    let value = Amount::from_sat(100_000);
    let (tx, lock, seq) = spend_tx(env);
    writeln!(out, "CASE {} {} sane={}", id, c.kind, sane as u8).unwrap();
    writeln!(out, "DESC {}", c.desc).unwrap();
    for (d, sbytes) in c.ms_dump.iter() {
        writeln!(out, "MS {}", d).unwrap();
        writeln!(out, "SCRIPT {}", hex(sbytes)).unwrap();
        if c.kind == "tr" {
            let lh = bitcoin::taproot::TapLeafHash::from_script(
                bitcoin::Script::from_bytes(sbytes),
                bitcoin::taproot::LeafVersion::TapScript,
            );
            writeln!(out, "LEAFH {}", hex(lh.as_byte_array())).unwrap();
        }
    }
    for e in c.exts.iter() {
        writeln!(out, "EXT {}", e).unwrap();
    }
    writeln!(out, "SPK {}", hex(spk.as_bytes())).unwrap();
    writeln!(out, "TX 2 {} {}", lock, seq).unwrap();
    writeln!(
        out,
        "LOCKS {} {}",
        env.lock_time.map(|x| x.to_string()).unwrap_or("-".into()),
        env.sequence.map(|x| x.to_string()).unwrap_or("-".into())
    )
    .unwrap();
    // signatures
    let Sigs { ecdsa, tapleaf, tapkey, cbmap: cbmap_store } = sign_case(w, c, &tx, value, &spk, &ecdsa_sig, out);
    for (i, sig) in ecdsa.iter() {
        writeln!(out, "SIG {} {}", i, hex(&sig.to_vec())).unwrap();
    }
    for ((i, lh), sig) in tapleaf.iter() {
        writeln!(out, "SIGL {} {} {}", i, hex(lh.as_byte_array()), hex(&sig.to_vec())).unwrap();
    }
    // asset subsets
    let masks = key_masks(c, rng);
    let premasks: Vec<u32> = vec![(1 << N_PRE) - 1, 0, rng.below(1 << N_PRE) as u32];
    let secp = &w.secp;
    for &km in masks.iter() {
        for (pi, &pm) in premasks.iter().enumerate() {
            if pi == 2 && (pm == 0 || pm == (1 << N_PRE) - 1) {
                continue;
            }
            let assets = Assets {
                w,
                keymask: km,
                premask: pm,
                lock_time: env.lock_time.map(absolute::LockTime::from_consensus),
                sequence: env.sequence.map(Sequence),
                ecdsa: &ecdsa,
                tapleaf: &tapleaf,
                tapkey,
                internal_idx: c.internal,
                cbmap: cbmap_store.as_ref(),
            };
            for mall in [false, true] {
                let r = catch_unwind(AssertUnwindSafe(|| {
                    if mall {
                        c.desc.get_satisfaction_mall(&assets)
                    } else {
                        c.desc.get_satisfaction(&assets)
                    }
                }));
                let mode = if mall { "mall" } else { "nonmall" };
                match r {
                    Err(_) => writeln!(out, "RUN {} {} {} PANIC", mode, km, pm).unwrap(),
                    Ok(Err(e)) => writeln!(out, "RUN {} {} {} ERR {}", mode, km, pm, class_of(&e)).unwrap(),
                    Ok(Ok((wit, ssig))) => {
                        let mut l = format!("RUN {} {} {} OK {}", mode, km, pm, wit.len());
                        for it in wit.iter() {
                            l.push(' ');
                            l.push_str(&hex(it));
                        }
                        l.push_str(" S ");
                        l.push_str(&hex(ssig.as_bytes()));
                        // taproot commitment verdict for script-path spends, by rust-bitcoin only
                        if c.kind == "tr" && wit.len() >= 2 {
                            let cb = ControlBlock::decode(&wit[wit.len() - 1]);
                            let ok = match cb {
                                Ok(cb) => {
                                    let ok_key = XOnlyPublicKey::from_slice(&spk.as_bytes()[2..34]).unwrap();
                                    let sc = ScriptBuf::from_bytes(wit[wit.len() - 2].clone());
                                    cb.verify_taproot_commitment(secp, ok_key, &sc) && cb.leaf_version == LeafVersion::TapScript
                                }
                                Err(_) => false,
                            };
                            l.push_str(if ok { " TAPOK 1" } else { " TAPOK 0" });
                        }
                        writeln!(out, "{}", l).unwrap();
                    }
                }
            }
        }
    }
    // ---- plans (C17): existence, completion, reported locks and sizes, for a few asset sets
    let mut plan_masks: Vec<u32> = masks.iter().cloned().take(6).collect();
    if let Some(last) = masks.last() {
        plan_masks.push(*last);
    }
    for &km in plan_masks.iter() {
        for &pm in premasks.iter().take(2) {
            let assets = Assets {
                w,
                keymask: km,
                premask: pm,
                lock_time: env.lock_time.map(absolute::LockTime::from_consensus),
                sequence: env.sequence.map(Sequence),
                ecdsa: &ecdsa,
                tapleaf: &tapleaf,
                tapkey,
                internal_idx: c.internal,
                cbmap: cbmap_store.as_ref(),
            };
            for mall in [false, true] {
                let mode = if mall { "mall" } else { "nonmall" };
                let r = catch_unwind(AssertUnwindSafe(|| {
                    let d = c.desc.clone();
                    let p = if mall { d.into_plan_mall(&assets) } else { d.into_plan(&assets) };
                    match p {
                        Err(_) => None,
                        Ok(plan) => {
                            let sat = plan.satisfy(&assets);
                            Some((
                                plan.absolute_timelock.map(|l| l.to_consensus_u32()),
                                plan.relative_timelock.map(|l| l.to_sequence().to_consensus_u32()),
                                plan.witness_size(),
                                plan.scriptsig_size(),
                                plan.satisfaction_weight(),
                                sat,
                            ))
                        }
                    }
                }));
                match r {
                    Err(_) => writeln!(out, "PLAN {} {} {} PANIC", mode, km, pm).unwrap(),
                    Ok(None) => writeln!(out, "PLAN {} {} {} NONE", mode, km, pm).unwrap(),
                    Ok(Some((a, rl, ws, ss, wt, sat))) => {
                        let mut l = format!(
                            "PLAN {} {} {} OK {} {} {} {} {}",
                            mode,
                            km,
                            pm,
                            a.map(|x| x.to_string()).unwrap_or("-".into()),
                            rl.map(|x| x.to_string()).unwrap_or("-".into()),
                            ws,
                            ss,
                            wt
                        );
                        match sat {
                            Err(_) => l.push_str(" SATERR"),
                            Ok((wit, ssig)) => {
                                // real serialized sizes
                                let mut wser = 0usize;
                                if !wit.is_empty() {
                                    wser += bitcoin::VarInt(wit.len() as u64).size();
                                    for it in wit.iter() {
                                        wser += bitcoin::VarInt(it.len() as u64).size() + it.len();
                                    }
                                }
                                let sser = bitcoin::VarInt(ssig.len() as u64).size() + ssig.len();
                                l.push_str(&format!(" REAL {} {} SAT {}", wser, sser, wit.len()));
                                for it in wit.iter() {
                                    l.push(' ');
                                    l.push_str(&hex(it));
                                }
                                l.push_str(" S ");
                                l.push_str(&hex(ssig.as_bytes()));
                            }
                        }
                        writeln!(out, "{}", l).unwrap();
                    }
                }
            }
        }
    }
    // ---- plans from the library's own `plan::Assets` (several capability entries per key)
    //      vs the same capabilities given through a plain AssetProvider (C17 "all Assets")
    {
        use miniscript::plan::{AssetProvider, Assets as LibAssets, CanSign, TaprootAvailableLeaves, TaprootCanSign};
        struct Eff<'b> {
            w: &'b World,
            ecdsa: u32,
            keyspend: u32,
            leaf: BTreeMap<TapLeafHash, u32>,
            any_leaf: u32,
            premask: u32,
            lock_time: Option<absolute::LockTime>,
            sequence: Option<relative::LockTime>,
        }
        impl<'b> AssetProvider<Key> for Eff<'b> {
            fn provider_lookup_ecdsa_sig(&self, k: &Key) -> bool { self.ecdsa & (1 << self.w.key_index(k)) != 0 }
            fn provider_lookup_tap_key_spend_sig(&self, k: &Key) -> Option<usize> {
                if self.keyspend & (1 << self.w.key_index(k)) != 0 { Some(64) } else { None }
            }
            fn provider_lookup_tap_leaf_script_sig(&self, k: &Key, lh: &TapLeafHash) -> Option<usize> {
                let bit = 1 << self.w.key_index(k);
                if self.any_leaf & bit != 0 || self.leaf.get(lh).map_or(false, |m| m & bit != 0) { Some(64) } else { None }
            }
            fn provider_lookup_sha256(&self, h: &sha256::Hash) -> bool {
                (0..N_PRE).any(|j| self.premask & (1 << j) != 0 && self.w.sha256_img(j) == *h)
            }
            fn provider_lookup_hash256(&self, h: &hash256::Hash) -> bool {
                (0..N_PRE).any(|j| self.premask & (1 << j) != 0 && self.w.hash256_img(j) == *h)
            }
            fn provider_lookup_ripemd160(&self, h: &ripemd160::Hash) -> bool {
                (0..N_PRE).any(|j| self.premask & (1 << j) != 0 && self.w.ripemd160_img(j) == *h)
            }
            fn provider_lookup_hash160(&self, h: &hash160::Hash) -> bool {
                (0..N_PRE).any(|j| self.premask & (1 << j) != 0 && self.w.hash160_img(j) == *h)
            }
            fn check_older(&self, n: relative::LockTime) -> bool { self.sequence.map_or(false, |s| n.is_implied_by(s)) }
            fn check_after(&self, n: absolute::LockTime) -> bool { self.lock_time.map_or(false, |l| n.is_implied_by(l)) }
        }
        let leaf_hashes: Vec<TapLeafHash> = if c.kind == "tr" {
            c.ms_dump.iter().map(|(_, sb)| TapLeafHash::from_script(&ScriptBuf::from_bytes(sb.clone()), LeafVersion::TapScript)).collect()
        } else {
            vec![]
        };
        let tapctx = c.kind == "tr";
        for cfg in 0..4u32 {
            let mut lib = LibAssets::default();
            let mut eff = Eff {
                w, ecdsa: 0, keyspend: 0, leaf: BTreeMap::new(), any_leaf: 0,
                premask: premasks[(cfg as usize) % premasks.len()],
                lock_time: env.lock_time.map(absolute::LockTime::from_consensus),
                sequence: env.sequence.and_then(|s| Sequence(s).to_relative_lock_time()),
            };
            lib.absolute_timelock = eff.lock_time;
            lib.relative_timelock = eff.sequence;
            for j in 0..N_PRE {
                if eff.premask & (1 << j) != 0 {
                    lib.sha256_preimages.insert(w.sha256_img(j));
                    lib.hash256_preimages.insert(w.hash256_img(j));
                    lib.ripemd160_preimages.insert(w.ripemd160_img(j));
                    lib.hash160_preimages.insert(w.hash160_img(j));
                }
            }
            let mut cfgdesc = String::new();
            for &i in c.keys.iter() {
                let k = w.key(i, tapctx);
                let n_entries = 1 + rng.below(2);
                for _ in 0..n_entries {
                    let ecdsa = rng.chance(2, 3);
                    let key_spend = rng.chance(1, 2);
                    let script_spend = match rng.below(4) {
                        0 => TaprootAvailableLeaves::None,
                        1 => TaprootAvailableLeaves::Any,
                        2 if !leaf_hashes.is_empty() => TaprootAvailableLeaves::Single(leaf_hashes[rng.below(leaf_hashes.len() as u64) as usize]),
                        _ if !leaf_hashes.is_empty() => TaprootAvailableLeaves::Many(leaf_hashes.iter().cloned().filter(|_| rng.chance(1, 2)).collect()),
                        _ => TaprootAvailableLeaves::Any,
                    };
                    if ecdsa { eff.ecdsa |= 1 << i; }
                    if key_spend { eff.keyspend |= 1 << i; }
                    match &script_spend {
                        TaprootAvailableLeaves::Any => eff.any_leaf |= 1 << i,
                        TaprootAvailableLeaves::Single(lh) => *eff.leaf.entry(*lh).or_insert(0) |= 1 << i,
                        TaprootAvailableLeaves::Many(v) => for lh in v { *eff.leaf.entry(*lh).or_insert(0) |= 1 << i },
                        TaprootAvailableLeaves::None => {}
                    }
                    write!(cfgdesc, "k{}:e{}k{}s{:?};", i, ecdsa as u8, key_spend as u8, script_spend).unwrap();
                    let cs = CanSign { ecdsa, taproot: TaprootCanSign { key_spend, script_spend, sighash_default: true } };
                    for path in k.full_derivation_paths() {
                        lib.keys.insert(((k.master_fingerprint(), path), cs.clone()));
                    }
                }
            }
            for mall in [false, true] {
                let run = |use_lib: bool| {
                    catch_unwind(AssertUnwindSafe(|| {
                        let d = c.desc.clone();
                        let p = match (use_lib, mall) {
                            (true, false) => d.into_plan(&lib),
                            (true, true) => d.into_plan_mall(&lib),
                            (false, false) => d.into_plan(&eff),
                            (false, true) => d.into_plan_mall(&eff),
                        };
                        p.ok().map(|p| {
                            (
                                p.witness_template().iter().map(|x| x.to_string()).collect::<Vec<_>>().join(","),
                                p.absolute_timelock.map(|l| l.to_consensus_u32()),
                                p.relative_timelock.map(|l| l.to_sequence().to_consensus_u32()),
                            )
                        })
                    }))
                };
                let a = run(true);
                let b = run(false);
                let same = match (&a, &b) {
                    (Ok(x), Ok(y)) => x == y,
                    _ => false,
                };
                if same {
                    writeln!(out, "APLAN ok").unwrap();
                } else {
                    let show = |r: &std::thread::Result<Option<(String, Option<u32>, Option<u32>)>>| match r {
                        Err(_) => "PANIC".to_string(),
                        Ok(None) => "none".to_string(),
                        Ok(Some((t, a, r))) => format!("plan[{}|{:?}|{:?}]", t.replace(' ', ""), a, r),
                    };
                    writeln!(out, "HBAD C17 case={} kind={} mode={} what=assets-plan-differs-from-capabilities lock={} seq={} desc={} assets={} lib={} expected={} libkeys={}",
                        id, c.kind, if mall { "mall" } else { "nonmall" }, lock, seq, c.desc, cfgdesc.replace(' ', ""), show(&a), show(&b), format!("{:?}", lib.keys).replace(' ', "")).unwrap();
                }
            }
        }
    }
    let _ = DescriptorType::Bare;
    let _ = <Key as ToPublicKey>::to_public_key;
    writeln!(out, "END").unwrap();
}
