//! `desc` engine (property C16): descriptors -> standard output scripts, addresses, derived keys.
//!
//! For seeded descriptors of every output type x key form the implementation's answers
//! (script_pubkey, address per network, explicit_script, unsigned_script_sig, script_code,
//! at_derivation_index / derived_descriptor, into_single_descriptors,
//! find_derivation_index_for_spk) are judged by an ORACLE computed here with `bitcoin`
//! primitives only (own BIP32 derivation, own script assembly, ScriptBuf::new_p2*,
//! Address::from_script), and the byte-level facts are exported to a Coq file on which the
//! Gallina model is run (coq/Tables/DescCasesCheck.v).
//!
//! usage: verif-harness desc <seed> <outdir> [--only <case id>]
//! stdout: tab separated records  V(iolation) / N(counter) / H(istogram) / S(ample)
use std::fmt::Write as _;

use bitcoin::bip32::{ChildNumber, Fingerprint, Xpriv, Xpub};
use bitcoin::secp256k1::{All, Secp256k1, SecretKey};
use bitcoin::{NetworkKind, PublicKey};

mod driver;
mod gen;
pub use driver::run;
mod battery;
mod shape;

// ------------------------------------------------------------------------------ PRNG
pub struct Rng(u64);
impl Rng {
    pub fn new(seed: u64) -> Self { Rng(seed) }
    pub fn next(&mut self) -> u64 {
        self.0 = self.0.wrapping_add(0x9E3779B97F4A7C15);
        let mut z = self.0;
        z = (z ^ (z >> 30)).wrapping_mul(0xBF58476D1CE4E5B9);
        z = (z ^ (z >> 27)).wrapping_mul(0x94D049BB133111EB);
        z ^ (z >> 31)
    }
    pub fn below(&mut self, n: u64) -> u64 { self.next() % n }
    pub fn chance(&mut self, num: u64, den: u64) -> bool { self.below(den) < num }
    fn bytes32(&mut self) -> [u8; 32] {
        let mut b = [0u8; 32];
        for c in b.chunks_mut(8) {
            c.copy_from_slice(&self.next().to_le_bytes());
        }
        b
    }
}

// ------------------------------------------------------------------------------ key world
struct XK {
    xpriv: Xpriv,
    xpub: Xpub,
    master_fp: Fingerprint,
    opath: Vec<ChildNumber>,
}
struct World {
    secp: Secp256k1<All>,
    sks: Vec<SecretKey>,
    xks: Vec<XK>,
}
const NSK: usize = 40;
const NXK: usize = 10;

fn cn(h: bool, i: u32) -> ChildNumber {
    if h {
        ChildNumber::from_hardened_idx(i).unwrap()
    } else {
        ChildNumber::from_normal_idx(i).unwrap()
    }
}

fn make_world(seed: u64) -> World {
    let secp = Secp256k1::new();
    let mut r = Rng::new(seed ^ 0xC16C16C16);
    let mut sks = Vec::new();
    while sks.len() < NSK {
        if let Ok(sk) = SecretKey::from_slice(&r.bytes32()) {
            sks.push(sk);
        }
    }
    let mut xks = Vec::new();
    for j in 0..NXK {
        let kind = if j % 3 == 2 { NetworkKind::Test } else { NetworkKind::Main };
        let master = Xpriv::new_master(kind, &r.bytes32()).unwrap();
        let opath: Vec<ChildNumber> = match j % 4 {
            0 => vec![],
            1 => vec![cn(true, 44), cn(true, 0), cn(true, j as u32)],
            2 => vec![cn(true, 86), cn(false, 7)],
            _ => vec![cn(false, 1 + j as u32)],
        };
        let xpriv = master.derive_priv(&secp, &opath).unwrap();
        let xpub = Xpub::from_priv(&secp, &xpriv);
        xks.push(XK { xpriv, xpub, master_fp: master.fingerprint(&secp), opath });
    }
    // one more extended key, only used by a corpus case: already at the deepest BIP32 level
    {
        let master = Xpriv::new_master(NetworkKind::Main, &r.bytes32()).unwrap();
        let mut xpriv = master;
        xpriv.depth = 255;
        let mut xpub = Xpub::from_priv(&secp, &xpriv);
        xpub.depth = 255;
        xks.push(XK { xpriv, xpub, master_fp: master.fingerprint(&secp), opath: vec![] });
    }
    World { secp, sks, xks }
}

// ------------------------------------------------------------------------------ generated keys
#[derive(Clone, Debug)]
enum GKey {
    /// form: 0 compressed, 1 uncompressed, 2 x-only
    Single { sk: usize, form: u8, origin: Option<(usize, Vec<ChildNumber>)> },
    /// path = pre ++ [alt] ++ post (alts empty: pre ++ post); wild: 0 none, 1 `*`, 2 `*h`
    X {
        xk: usize,
        /// the (unauthenticated) key origin as written: fingerprint and path
        origin: Option<(Fingerprint, Vec<ChildNumber>)>,
        pre: Vec<ChildNumber>,
        alts: Vec<ChildNumber>,
        post: Vec<ChildNumber>,
        wild: u8,
        xprv: bool,
    },
    /// a malformed path after the xpub (corpus only): the text and the same as model tokens
    Raw { xk: usize, text: &'static str, toks: &'static str },
}

#[derive(Clone, Copy, PartialEq)]
enum Mode {
    Input,
    Select(usize),
    AtIndex(u32),
}

fn fmt_steps(out: &mut String, p: &[ChildNumber]) {
    for c in p {
        write!(out, "/{}", c).unwrap();
    }
}

impl GKey {
    fn form_name(&self) -> &'static str {
        match self {
            GKey::Single { form: 0, origin: None, .. } => "single-compressed",
            GKey::Single { form: 0, .. } => "single-compressed+origin",
            GKey::Single { form: 1, .. } => "single-uncompressed",
            GKey::Single { .. } => "single-xonly",
            GKey::Raw { .. } => "malformed-path",
            GKey::X { alts, wild, pre, post, xprv, .. } => {
                if *xprv {
                    "xprv"
                } else if !alts.is_empty() {
                    match wild {
                        0 => "multipath",
                        1 => "multipath+wildcard",
                        _ => "multipath+hardened-wildcard",
                    }
                } else {
                    let hard = pre.iter().chain(post.iter()).any(|c| c.is_hardened());
                    match (wild, hard) {
                        (0, false) => "xpub-path",
                        (0, true) => "xpub-hardened-step",
                        (1, false) => "xpub-wildcard",
                        (1, true) => "xpub-hardened-step+wildcard",
                        _ => "xpub-hardened-wildcard",
                    }
                }
            }
        }
    }
    fn n_alts(&self) -> usize {
        match self {
            GKey::X { alts, .. } => alts.len(),
            _ => 0,
        }
    }
    /// BIP32 depth reached by the deepest derivation this key expression asks for
    fn total_depth(&self, w: &World) -> usize {
        match self {
            GKey::X { xk, wild, .. } => {
                w.xks[*xk].xpub.depth as usize
                    + self.paths().iter().map(|p| p.len()).max().unwrap_or(0)
                    + usize::from(*wild != 0)
            }
            _ => 0,
        }
    }
    fn has_wildcard(&self) -> bool { matches!(self, GKey::X { wild, .. } if *wild != 0) }
    /// the derivation path(s) after the xpub, one per alternative
    fn paths(&self) -> Vec<Vec<ChildNumber>> {
        match self {
            GKey::Single { .. } | GKey::Raw { .. } => vec![],
            GKey::X { pre, alts, post, .. } => {
                if alts.is_empty() {
                    vec![pre.iter().chain(post.iter()).cloned().collect()]
                } else {
                    alts.iter()
                        .map(|a| pre.iter().chain(std::iter::once(a)).chain(post.iter()).cloned().collect())
                        .collect()
                }
            }
        }
    }
    fn render(&self, w: &World, mode: Mode) -> String {
        let mut s = String::new();
        match self {
            GKey::Single { sk, form, origin } => {
                if let Some((xk, p)) = origin {
                    write!(s, "[{}", w.xks[*xk].master_fp).unwrap();
                    fmt_steps(&mut s, p);
                    s.push(']');
                }
                let pk = w.sks[*sk].public_key(&w.secp);
                match form {
                    0 => write!(s, "{}", PublicKey::new(pk)).unwrap(),
                    1 => write!(s, "{}", PublicKey::new_uncompressed(pk)).unwrap(),
                    _ => write!(s, "{}", pk.x_only_public_key().0).unwrap(),
                }
            }
            GKey::Raw { xk, text, .. } => {
                write!(s, "{}{}", w.xks[*xk].xpub, text).unwrap();
            }
            GKey::X { xk, origin, pre, alts, post, wild, xprv } => {
                let x = &w.xks[*xk];
                if let Some((fp, p)) = origin {
                    write!(s, "[{}", fp).unwrap();
                    fmt_steps(&mut s, p);
                    s.push(']');
                }
                if *xprv {
                    write!(s, "{}", x.xpriv).unwrap();
                } else {
                    write!(s, "{}", x.xpub).unwrap();
                }
                fmt_steps(&mut s, pre);
                if !alts.is_empty() {
                    match mode {
                        Mode::Select(j) => write!(s, "/{}", alts[j.min(alts.len() - 1)]).unwrap(),
                        _ => {
                            s.push_str("/<");
                            for (j, a) in alts.iter().enumerate() {
                                if j > 0 {
                                    s.push(';');
                                }
                                write!(s, "{}", a).unwrap();
                            }
                            s.push('>');
                        }
                    }
                }
                fmt_steps(&mut s, post);
                match (wild, mode) {
                    (0, _) => {}
                    (1, Mode::AtIndex(i)) => write!(s, "/{}", i).unwrap(),
                    (2, Mode::AtIndex(i)) => write!(s, "/{}'", i).unwrap(),
                    (1, _) => s.push_str("/*"),
                    _ => s.push_str("/*h"),
                }
            }
        }
        s
    }
    /// select alternative j (oracle side)
    fn select(&self, j: usize) -> GKey {
        match self {
            GKey::X { xk, origin, pre, alts, post, wild, xprv } if !alts.is_empty() => {
                let mut p = pre.clone();
                p.push(alts[j.min(alts.len() - 1)]);
                GKey::X {
                    xk: *xk,
                    origin: origin.clone(),
                    pre: p,
                    alts: vec![],
                    post: post.clone(),
                    wild: *wild,
                    xprv: *xprv,
                }
            }
            k => k.clone(),
        }
    }
    /// ORACLE: the public key this expression denotes at index i, by independent BIP32
    /// derivation; None if it cannot be derived from public data (multipath, hardened
    /// step or wildcard after the xpub, index >= 2^31).
    fn oracle_pk(&self, w: &World, i: u32) -> Option<PublicKey> {
        match self {
            GKey::Single { sk, form, .. } => {
                let pk = w.sks[*sk].public_key(&w.secp);
                Some(match form {
                    0 => PublicKey::new(pk),
                    1 => PublicKey::new_uncompressed(pk),
                    // x-only keys denote the even-y point
                    _ => PublicKey::new(pk.x_only_public_key().0.public_key(bitcoin::secp256k1::Parity::Even)),
                })
            }
            GKey::Raw { .. } => None,
            GKey::X { xk, alts, wild, xprv, .. } => {
                if !alts.is_empty() {
                    return None;
                }
                let mut path = self.paths().remove(0);
                match wild {
                    0 => {}
                    1 => path.push(ChildNumber::from_normal_idx(i).ok()?),
                    _ => path.push(ChildNumber::from_hardened_idx(i).ok()?),
                }
                if *xprv {
                    // a secret key applies every step up to the last hardened one before going
                    // public; only a hardened wildcard cannot be resolved at parse time
                    if *wild == 2 {
                        return None;
                    }
                    let sk = w.xks[*xk].xpriv.derive_priv(&w.secp, &path).ok()?;
                    return Some(PublicKey::new(sk.private_key.public_key(&w.secp)));
                }
                if path.iter().any(|c| c.is_hardened()) {
                    return None;
                }
                let x = w.xks[*xk].xpub.derive_pub(&w.secp, &path).ok()?;
                Some(PublicKey::new(x.public_key))
            }
        }
    }
}
