//! `frags` engine (C06): generated fragments of every base type in every context, with the
//! type the library assigns and the script it encodes; the driver executes the script on
//! enumerated input stacks and tests each type label's prediction.
use crate::ast::*;
use bitcoin::hashes::{hash160, ripemd160, sha256, Hash};
use miniscript::miniscript::ScriptContext;
use miniscript::{hash256, BareCtx, Legacy, Miniscript, Segwitv0, Tap, Terminal};
use std::sync::Arc;

/// The sugar wrappers t:, l:, u: have typing rules of their own (`Type::cast_true`,
/// `cast_likely`, `cast_unlikely`) that `type_check` never calls — the policy compiler does,
/// and stores the result unchecked.  Emit the desugared fragment with the type those rules claim.
fn emit_sugar<Ctx: ScriptContext>(w: &World, ctxname: &str, m: &Miniscript<Key, Ctx>) {
    use miniscript::miniscript::types::Type;
    let arc = |x: Miniscript<Key, Ctx>| Arc::new(x);
    let cands: Vec<(Result<Type, miniscript::miniscript::types::ErrorKind>, Terminal<Key, Ctx>)> = vec![
        (m.ty.cast_true(), Terminal::AndV(arc(m.clone()), arc(Miniscript::TRUE))),
        (m.ty.cast_likely(), Terminal::OrI(arc(Miniscript::FALSE), arc(m.clone()))),
        (m.ty.cast_unlikely(), Terminal::OrI(arc(m.clone()), arc(Miniscript::FALSE))),
    ];
    for (ty, node) in cands {
        if let (Ok(ty), Ok(full)) = (ty, Miniscript::<Key, Ctx>::from_ast(node)) {
            let admitted = full.validate_non_top_level(&Ctx::CONSENSUS).is_ok();
            let sugared = Miniscript::<Key, Ctx>::from_components_unchecked(full.node.clone(), ty, full.ext);
            emit(w, ctxname, admitted, &sugared);
        }
    }
}

fn emit<Ctx: ScriptContext>(w: &World, ctxname: &str, admitted: bool, m: &Miniscript<Key, Ctx>) {
    // `admitted`: also passes the context's consensus validation parameters (what the string
    // parser enforces); the non-malleability label `e` is only promised for those
    println!(
        "FRAG {} {} {} | {} | {}",
        ctxname,
        if admitted { "adm" } else { "ast" },
        m.ty,
        dump_str(w, &m.node),
        match std::panic::catch_unwind(std::panic::AssertUnwindSafe(|| m.encode())) {
            Ok(s) => hex(s.as_bytes()),
            Err(_) => "!".to_string(),
        }
    );
}

fn gen_ctx<Ctx: ScriptContext>(w: &World, ctxname: &str, ci: CtxInfo, seed: u64, n: u64) {
    let mut g = Gen::new(w, seed, ci);
    for i in 0..n {
        let b = match i % 8 {
            0 | 1 | 2 | 3 => B::B,
            4 | 5 => B::V,
            6 => B::W,
            _ => B::K,
        };
        let depth = (i % 3) as u32;
        if let Some(m) = g.gen::<Ctx>(b, depth) {
            // keep fragments small enough for exhaustive stack enumeration
            // every fragment the programmatic constructor (from_ast) accepts; those the context's
            // validation parameters refuse as well (e.g. d:/or_i in Bare/Legacy) are marked
            let admitted = m.validate_non_top_level(&Ctx::CONSENSUS).is_ok();
            if m.iter().count() <= 7 {
                emit(w, ctxname, admitted, &m);
                if m.iter().count() <= 5 && i % 2 == 0 {
                    emit_sugar(w, ctxname, &m);
                }
            }
        }
    }
}

pub fn run(args: &[String]) {
    let seed: u64 = args.first().and_then(|s| s.parse().ok()).unwrap_or(1);
    let n: u64 = args.get(1).and_then(|s| s.parse().ok()).unwrap_or(200);
    let w = World::new();
    for i in 0..N_KEYS {
        let kb = w.key_bytes(i, false);
        let xb = w.key_bytes(i, true);
        println!(
            "KEY {} {} {} {} {} {}",
            i,
            hex(&kb),
            hex(hash160::Hash::hash(&kb).as_byte_array()),
            hex(&xb),
            hex(hash160::Hash::hash(&xb).as_byte_array()),
            hex(&w.pks[i].inner.serialize())
        );
    }
    let zero32 = [0u8; 32];
    for (j, p) in w.preimages.iter().chain(std::iter::once(&zero32)).enumerate() {
        println!(
            "PRE {} {} {} {} {} {}",
            j,
            hex(p),
            hex(sha256::Hash::hash(p).as_byte_array()),
            hex(hash256::Hash::hash(p).as_byte_array()),
            hex(ripemd160::Hash::hash(p).as_byte_array()),
            hex(hash160::Hash::hash(p).as_byte_array())
        );
    }
    gen_ctx::<Segwitv0>(&w, "segwitv0", CtxInfo { tap: false, legacy_like: false, n_keys: 4 }, seed, n);
    gen_ctx::<Tap>(&w, "tap", CtxInfo { tap: true, legacy_like: false, n_keys: 4 }, seed ^ 0x11, n);
    gen_ctx::<Legacy>(&w, "legacy", CtxInfo { tap: false, legacy_like: true, n_keys: 4 }, seed ^ 0x22, n / 2);
    gen_ctx::<BareCtx>(&w, "bare", CtxInfo { tap: false, legacy_like: true, n_keys: 4 }, seed ^ 0x33, n / 2);
    println!("END frags");
}
