//! `frags` engine (C06): generated fragments of every base type in every context, with the
//! type the library assigns and the script it encodes; the driver executes the script on
//! enumerated input stacks and tests each type label's prediction.
use crate::ast::*;
use bitcoin::hashes::{hash160, ripemd160, sha256, Hash};
use miniscript::miniscript::ScriptContext;
use miniscript::{hash256, BareCtx, Legacy, Miniscript, Segwitv0, Tap, Terminal};
use std::sync::Arc;

/// The sugar wrappers t:, l:, u: have typing rules of their own (`Type::cast_true`,
/// `cast_likely`, `cast_unlikely`) that `type_check` never calls — the policy compiler does,
/// and stores the result unchecked.  Emit the desugared fragment with the type those rules claim.
fn emit_sugar<Ctx: ScriptContext>(w: &World, ctxname: &str, m: &Miniscript<Key, Ctx>) {
    use miniscript::miniscript::types::Type;
    let arc = |x: Miniscript<Key, Ctx>| Arc::new(x);
    let cands: Vec<(Result<Type, miniscript::miniscript::types::ErrorKind>, Terminal<Key, Ctx>)> = vec![
        (m.ty.cast_true(), Terminal::AndV(arc(m.clone()), arc(Miniscript::TRUE))),
        (m.ty.cast_likely(), Terminal::OrI(arc(Miniscript::FALSE), arc(m.clone()))),
        (m.ty.cast_unlikely(), Terminal::OrI(arc(m.clone()), arc(Miniscript::FALSE))),
    ];
    for (ty, node) in cands {
        if let (Ok(ty), Ok(full)) = (ty, Miniscript::<Key, Ctx>::from_ast(node)) {
            let admitted = full.validate_non_top_level(&Ctx::CONSENSUS).is_ok();
            let sugared = Miniscript::<Key, Ctx>::from_components_unchecked(full.node.clone(), ty, full.ext);
            emit(w, ctxname, admitted, &sugared);
        }
    }
}

fn emit<Ctx: ScriptContext>(w: &World, ctxname: &str, admitted: bool, m: &Miniscript<Key, Ctx>) {
    // `admitted`: also passes the context's consensus validation parameters (what the string
    // parser enforces); the non-malleability label `e` is only promised for those
    println!(
        "FRAG {} {} {} | {} | {}",
        ctxname,
        if admitted { "adm" } else { "ast" },
        m.ty,
        dump_str(w, &m.node),
        match std::panic::catch_unwind(std::panic::AssertUnwindSafe(|| m.encode())) {
            Ok(s) => hex(s.as_bytes()),
            Err(_) => "!".to_string(),
        }
    );
}

/// Leaf constructors (`Miniscript::pk_k`, `pk_h`, `expr_raw_pkh`, ...) attach a type without calling
/// `type_check`; the script decoder builds its leaves through them (a raw key hash exists only
/// there).  Emit each leaf with the attached type, and small parents built by `from_ast` on top
/// of it (whose rules read the attached type).  Seeded change C06-9.
fn emit_ctor_leaves<Ctx: ScriptContext>(w: &World, ctxname: &str, ci: CtxInfo) {
    let arc = |x: Miniscript<Key, Ctx>| Arc::new(x);
    let mut leaves: Vec<Miniscript<Key, Ctx>> = vec![Miniscript::TRUE, Miniscript::FALSE];
    for i in 0..2 {
        let h = hash160::Hash::hash(&w.key_bytes(i, ci.tap));
        leaves.push(Miniscript::expr_raw_pkh(h));
        leaves.push(Miniscript::pk_k(w.key(i, ci.tap)));
        leaves.push(Miniscript::pk_h(w.key(i, ci.tap)));
    }
    let other = w.key(2, ci.tap);
    for leaf in leaves {
        let admitted = leaf.validate_non_top_level(&Ctx::CONSENSUS).is_ok();
        emit(w, ctxname, admitted, &leaf);
        let parents: Vec<Terminal<Key, Ctx>> = vec![
            Terminal::Check(arc(leaf.clone())),
            Terminal::Verify(arc(leaf.clone())),
            Terminal::Swap(arc(leaf.clone())),
            Terminal::Alt(arc(leaf.clone())),
        ];
        for p in parents {
            if let Ok(m1) = Miniscript::<Key, Ctx>::from_ast(p) {
                let adm = m1.validate_non_top_level(&Ctx::CONSENSUS).is_ok();
                emit(w, ctxname, adm, &m1);
                let grand: Vec<Terminal<Key, Ctx>> = vec![
                    Terminal::Swap(arc(m1.clone())),
                    Terminal::Alt(arc(m1.clone())),
                    Terminal::Verify(arc(m1.clone())),
                    Terminal::AndV(arc(m1.clone()), arc(Miniscript::TRUE)),
                ];
                for gp in grand {
                    if let Ok(m2) = Miniscript::<Key, Ctx>::from_ast(gp) {
                        let adm = m2.validate_non_top_level(&Ctx::CONSENSUS).is_ok();
                        emit(w, ctxname, adm, &m2);
                        if let Ok(pk) = Miniscript::<Key, Ctx>::from_ast(Terminal::Check(arc(Miniscript::pk_k(other.clone())))) {
                            for top in [
                                Terminal::AndB(arc(pk.clone()), arc(m2.clone())),
                                Terminal::OrB(arc(pk.clone()), arc(m2.clone())),
                                Terminal::AndV(arc(m2.clone()), arc(pk.clone())),
                            ] {
                                if let Ok(m3) = Miniscript::<Key, Ctx>::from_ast(top) {
                                    let adm = m3.validate_non_top_level(&Ctx::CONSENSUS).is_ok();
                                    emit(w, ctxname, adm, &m3);
                                }
                            }
                        }
                    }
                }
            }
        }
    }
}

fn gen_ctx<Ctx: ScriptContext>(w: &World, ctxname: &str, ci: CtxInfo, seed: u64, n: u64) {
    emit_ctor_leaves::<Ctx>(w, ctxname, ci);
    let mut g = Gen::new(w, seed, ci);
    for i in 0..n {
        let b = match i % 8 {
            0 | 1 | 2 | 3 => B::B,
            4 | 5 => B::V,
            6 => B::W,
            _ => B::K,
        };
        let depth = (i % 3) as u32;
        if let Some(m) = g.gen::<Ctx>(b, depth) {
            // keep fragments small enough for exhaustive stack enumeration
            // every fragment the programmatic constructor (from_ast) accepts; those the context's
            // validation parameters refuse as well (e.g. d:/or_i in Bare/Legacy) are marked
            let admitted = m.validate_non_top_level(&Ctx::CONSENSUS).is_ok();
            if m.iter().count() <= 7 {
                emit(w, ctxname, admitted, &m);
                if m.iter().count() <= 5 && i % 2 == 0 {
                    emit_sugar(w, ctxname, &m);
                }
            }
        }
    }
}

pub fn run(args: &[String]) {
    let seed: u64 = args.first().and_then(|s| s.parse().ok()).unwrap_or(1);
    let n: u64 = args.get(1).and_then(|s| s.parse().ok()).unwrap_or(200);
    let w = World::new();
    for i in 0..N_KEYS {
        let kb = w.key_bytes(i, false);
        let xb = w.key_bytes(i, true);
        println!(
            "KEY {} {} {} {} {} {}",
            i,
            hex(&kb),
            hex(hash160::Hash::hash(&kb).as_byte_array()),
            hex(&xb),
            hex(hash160::Hash::hash(&xb).as_byte_array()),
            hex(&w.pks[i].inner.serialize())
        );
    }
    let zero32 = [0u8; 32];
    for (j, p) in w.preimages.iter().chain(std::iter::once(&zero32)).enumerate() {
        println!(
            "PRE {} {} {} {} {} {}",
            j,
            hex(p),
            hex(sha256::Hash::hash(p).as_byte_array()),
            hex(hash256::Hash::hash(p).as_byte_array()),
            hex(ripemd160::Hash::hash(p).as_byte_array()),
            hex(hash160::Hash::hash(p).as_byte_array())
        );
    }
    gen_ctx::<Segwitv0>(&w, "segwitv0", CtxInfo { tap: false, legacy_like: false, n_keys: 4 }, seed, n);
    gen_ctx::<Tap>(&w, "tap", CtxInfo { tap: true, legacy_like: false, n_keys: 4 }, seed ^ 0x11, n);
    gen_ctx::<Legacy>(&w, "legacy", CtxInfo { tap: false, legacy_like: true, n_keys: 4 }, seed ^ 0x22, n / 2);
    gen_ctx::<BareCtx>(&w, "bare", CtxInfo { tap: false, legacy_like: true, n_keys: 4 }, seed ^ 0x33, n / 2);
    println!("END frags");
}
