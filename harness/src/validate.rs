//! C12 engine (probe stage)
use miniscript::{Descriptor, DescriptorPublicKey, Legacy, Miniscript, Segwitv0, BareCtx, Tap, ValidationParams, ScriptContext};
use std::str::FromStr;

const A: &str = "020000000000000000000000000000000000000000000000000000000000000002";
const B: &str = "03a0434d9e47f3c86235477c7b1ae6ae5d3442d49b1943c2b752a68e2a47e247c7";
const U: &str = "0479be667ef9dcbbac55a06295ce870b07029bfcdb2dce28d959f2815b16f81798483ada7726a3c4655da4fbfc0e1108a8fd17b448a68554199c47d08ffb10d4b8";
const X: &str = "a0434d9e47f3c86235477c7b1ae6ae5d3442d49b1943c2b752a68e2a47e247c7";

fn probe_ctx<C: ScriptContext>(s: &str) -> String {
    let a = Miniscript::<DescriptorPublicKey, C>::from_str_with_validation_params(s, &C::CONSENSUS);
    let b = Miniscript::<DescriptorPublicKey, C>::from_str_with_validation_params(s, &ValidationParams::MAX);
    format!("ms/CONSENSUS={:?} ms/MAX={:?}", a.map(|_| ()).map_err(|e| e.to_string()), b.map(|m| format!("{:?}", m.ty.corr.base)).map_err(|e| e.to_string()))
}

pub fn run(_args: &[String]) {
    let cases: Vec<(String, &str)> = vec![
        (format!("wsh(pk_k({A}))"), "w"), (format!("wsh(v:pk({A}))"), "w"), (format!("sh(pk_k({A}))"), "s"),
        (format!("sh(or_i(pk({A}),pk({B})))"), "s"), (format!("sh(or_d(pk({A}),d:v:older(3)))"), "s"),
        (format!("wsh(pkh({U}))"), "w"), (format!("wsh(pk({U}))"), "w"), (format!("wsh(pkh({X}))"), "w"), (format!("wsh(pk({X}))"), "w"),
        (format!("sh(pkh({X}))"), "s"), (format!("tr({X},pk({U}))"), "t"), (format!("tr({X},pkh({U}))"), "t"), (format!("tr({X},pk_k({A}))"), "t"),
        (format!("tr({X},pk({A}))"), "t"),
        (format!("wsh(or_b(pk({A}),s:pk({A})))"), "w"),
        (format!("pk_k({A})"), "b"), (format!("pk({A})"), "b"), (format!("and_v(v:pk({A}),pk({B}))"), "b"),
        (format!("wsh(multi_a(1,{A}))"), "w"), (format!("tr({X},multi(1,{A}))"), "t"),
        (format!("wsh(a:pk({A}))"), "w"),
    ];
    for (s, k) in cases {
        let d = Descriptor::<DescriptorPublicKey>::from_str(&s).map(|_| ()).map_err(|e| e.to_string());
        let inner = match k {
            "w" => { let i = &s[4..s.len() - 1]; probe_ctx::<Segwitv0>(i) }
            "s" => { let i = &s[3..s.len() - 1]; probe_ctx::<Legacy>(i) }
            "b" => probe_ctx::<BareCtx>(&s),
            _ => { let i = &s[4 + 65..s.len() - 1]; probe_ctx::<Tap>(i) }
        };
        println!("{}\n   desc={:?}\n   {}", s, d, inner);
    }
}
