//! `decparams` engine (C04 x C12): `Miniscript::decode_with_validation_params` under many
//! `ValidationParams` on the byte strings of the codec stream (valid encodings of generated and
//! directed ASTs in the four contexts, byte-level edits of them, scripts of other contexts,
//! hand-made byte strings at the limits, opcode soups, random bytes).
//!
//! Per byte string: MAX, `Ctx::CONSENSUS` (through `decode_consensus`), `Ctx::SANE` (through
//! `decode`), CONSENSUS minus duplicate keys, SANE plus raw pkh; when MAX accepts, also MAX minus
//! each of the 15 switches and MAX with each of the 5 limits ON the script's own figure and one
//! below it; otherwise three single-switch sets (the decoding error must not depend on them).
//! One text block per byte string:
//!   C <id> <ctx> <kind> <hex>
//!   S <source AST dump>                      (generated / edited cases)
//!   K <hex>=<0|1> ...                        key validity of every 32/33/65-byte push (rust-bitcoin)
//!   F <ty> <size> <height> <mixed> <dup> <sat: - | wit,ops,stack>    the MAX result's own figures
//!   V <name> <15 bits> <ops> <size> <wit> <stack> <depth> | ok <dump or => | err <class> | panic
//!   .
//! Nothing here judges anything: tools/props/c04_decparams.py holds the oracle and writes the
//! Coq data compared with Ms/DecodeParamsModel.decode_with inside Coq.
use crate::ast::*;
use crate::codec::{all_edits, directed, directed_bytes, err_class, gdump_str, key_valid, opcode_soup, parse_ins, ty_str, world_lines, Ins};
use bitcoin::ScriptBuf;
use miniscript::miniscript::decode::ParseableKey;
use miniscript::miniscript::ScriptContext;
use miniscript::{BareCtx, Legacy, Miniscript, Segwitv0, Tap, ToPublicKey, ValidationParams as VP};
use std::fmt::Write as _;
use std::panic::{catch_unwind, AssertUnwindSafe};

fn bools(p: &VP) -> [bool; 15] {
    [p.allow_compressed_keys, p.allow_duplicate_keys, p.allow_dup_if, p.allow_malleability, p.allow_multi, p.allow_multi_a,
     p.allow_mixed_time_locks, p.allow_or_i, p.allow_raw_pkh, p.allow_sigless_branch, p.allow_non_b, p.allow_uncompressed_keys,
     p.allow_unsatisfiable, p.allow_x_only_keys, p.allow_inconsistent_multipath_keys]
}
fn set_bool(p: &mut VP, i: usize, v: bool) {
    match i {
        0 => p.allow_compressed_keys = v, 1 => p.allow_duplicate_keys = v, 2 => p.allow_dup_if = v, 3 => p.allow_malleability = v,
        4 => p.allow_multi = v, 5 => p.allow_multi_a = v, 6 => p.allow_mixed_time_locks = v, 7 => p.allow_or_i = v,
        8 => p.allow_raw_pkh = v, 9 => p.allow_sigless_branch = v, 10 => p.allow_non_b = v, 11 => p.allow_uncompressed_keys = v,
        12 => p.allow_unsatisfiable = v, 13 => p.allow_x_only_keys = v, _ => p.allow_inconsistent_multipath_keys = v,
    }
}
fn set_lim(p: &mut VP, i: usize, v: usize) {
    match i {
        0 => p.max_opcode_count = v, 1 => p.max_script_size = v, 2 => p.max_witness_items = v,
        3 => p.max_exec_stack_size = v, _ => p.max_recursive_depth = v,
    }
}
const LIM_TAGS: [&str; 5] = ["ops", "size", "wit", "stack", "depth"];

fn vp_str(p: &VP) -> String {
    let b: String = bools(p).iter().map(|x| if *x { '1' } else { '0' }).collect();
    let l = |x: usize| if x == usize::MAX { "max".to_string() } else { x.to_string() };
    format!("{} {} {} {} {} {}", b, l(p.max_opcode_count), l(p.max_script_size), l(p.max_witness_items), l(p.max_exec_stack_size), l(p.max_recursive_depth))
}

/// error class; `Validation:<variant>` (`Validation:Key:<variant>` for key errors)
fn vclass(e: &miniscript::Error) -> String {
    if let miniscript::Error::Validation(v) = e {
        let s = format!("{:?}", v);
        let mut ids: Vec<String> = Vec::new();
        let mut cur = String::new();
        for ch in s.chars() {
            if ch.is_ascii_alphanumeric() || ch == '_' {
                cur.push(ch);
            } else if !cur.is_empty() {
                ids.push(std::mem::take(&mut cur));
                if ids.len() >= 2 {
                    break;
                }
            }
        }
        if !cur.is_empty() {
            ids.push(cur);
        }
        if ids.first().map(|x| x.as_str()) == Some("Key") && ids.len() >= 2 {
            return format!("Validation:Key:{}", ids[1]);
        }
        return format!("Validation:{}", ids.first().cloned().unwrap_or_default());
    }
    err_class(e)
}

enum Via {
    Params,
    Consensus,
    Sane,
}

#[allow(clippy::type_complexity)]
fn call<Ctx: ScriptContext>(script: &ScriptBuf, p: &VP, via: &Via) -> Result<Result<Miniscript<Ctx::Key, Ctx>, miniscript::Error>, ()>
where
    Ctx::Key: ToPublicKey + ParseableKey,
{
    catch_unwind(AssertUnwindSafe(|| match via {
        Via::Params => Miniscript::<Ctx::Key, Ctx>::decode_with_validation_params(script, p),
        Via::Consensus => Miniscript::<Ctx::Key, Ctx>::decode_consensus(script),
        Via::Sane => Miniscript::<Ctx::Key, Ctx>::decode(script),
    }))
    .map_err(|_| ())
}

fn emit<Ctx: ScriptContext>(w: &World, tap: bool, ctx: &str, id: &str, kind: &str, bytes: &[u8], src: Option<&str>, out: &mut String)
where
    Ctx::Key: ToPublicKey + ParseableKey,
{
    writeln!(out, "C {} {} {} {}", id, ctx, kind, hex(bytes)).unwrap();
    if let Some(s) = src {
        writeln!(out, "S {}", s).unwrap();
    }
    let (ins, _) = parse_ins(bytes);
    let mut seen: Vec<Vec<u8>> = Vec::new();
    let mut kline = String::new();
    for i in &ins {
        if let Ins::Push(d) = i {
            if (d.len() == 32 || d.len() == 33 || d.len() == 65) && !seen.contains(d) {
                seen.push(d.clone());
                write!(kline, " {}={}", hex(d), key_valid(tap, d) as u8).unwrap();
            }
        }
    }
    if !kline.is_empty() {
        writeln!(out, "K{}", kline).unwrap();
    }
    let script = ScriptBuf::from_bytes(bytes.to_vec());
    // the MAX row first: its result gives the figures the limit rows sit on
    let max = VP::MAX;
    let r0 = call::<Ctx>(&script, &max, &Via::Params);
    let mut max_dump: Option<String> = None;
    let mut figs: Option<[Option<usize>; 5]> = None;
    if let Ok(Ok(ms)) = &r0 {
        let obs = catch_unwind(AssertUnwindSafe(|| {
            let sat = ms.ext.sat_data.map(|d| (d.max_witness_stack_count, ms.ext.static_ops + d.max_exec_op_count, d.max_exec_stack_count));
            (gdump_str(w, tap, &ms.node), ty_str(&ms.ty), ms.script_size(), ms.ext.tree_height, ms.has_mixed_timelocks(), ms.has_repeated_keys(), sat)
        }));
        if let Ok((d, ty, size, height, mixed, dup, sat)) = obs {
            let s = match sat {
                Some((a, b, c)) => format!("{},{},{}", a, b, c),
                None => "-".to_string(),
            };
            writeln!(out, "F {} {} {} {} {} {}", ty, size, height, mixed as u8, dup as u8, s).unwrap();
            figs = Some([sat.map(|x| x.1), Some(size), sat.map(|x| x.0 + 1), sat.map(|x| x.0 + x.2), Some(height)]);
            max_dump = Some(d);
        }
    }
    let mut rows: Vec<(String, VP, Via)> = vec![
        ("cons".into(), Ctx::CONSENSUS, Via::Consensus),
        ("sane".into(), Ctx::SANE, Via::Sane),
    ];
    let mut p = Ctx::CONSENSUS;
    set_bool(&mut p, 1, false);
    rows.push(("cons-dup".into(), p, Via::Params));
    let mut p = Ctx::SANE;
    set_bool(&mut p, 8, true);
    rows.push(("sane+rawpkh".into(), p, Via::Params));
    match figs {
        Some(f) => {
            for i in 0..15 {
                let mut p = max;
                set_bool(&mut p, i, false);
                rows.push((format!("max-{}", i), p, Via::Params));
            }
            for (i, fig) in f.iter().enumerate() {
                match fig {
                    Some(v) => {
                        let mut p = max;
                        set_lim(&mut p, i, *v);
                        rows.push((format!("max.{}=fig", LIM_TAGS[i]), p, Via::Params));
                        if *v > 0 {
                            let mut p = max;
                            set_lim(&mut p, i, *v - 1);
                            rows.push((format!("max.{}=fig-1", LIM_TAGS[i]), p, Via::Params));
                        }
                        // the same limit inside the context's sane set
                        let mut p = Ctx::SANE;
                        set_lim(&mut p, i, *v);
                        rows.push((format!("sane.{}=fig", LIM_TAGS[i]), p, Via::Params));
                    }
                    None => {
                        // unsatisfiable script: the three satisfaction limits are not consulted
                        let mut p = max;
                        set_lim(&mut p, i, 0);
                        rows.push((format!("max.{}=0", LIM_TAGS[i]), p, Via::Params));
                    }
                }
            }
        }
        None => {
            for i in [1usize, 3, 8] {
                let mut p = max;
                set_bool(&mut p, i, false);
                rows.push((format!("max-{}", i), p, Via::Params));
            }
        }
    }
    let mut line = |name: &str, p: &VP, r: &Result<Result<Miniscript<Ctx::Key, Ctx>, miniscript::Error>, ()>| {
        let res = match r {
            Err(()) => "panic".to_string(),
            Ok(Err(e)) => format!("err {}", vclass(e)),
            Ok(Ok(ms)) => match catch_unwind(AssertUnwindSafe(|| gdump_str(w, tap, &ms.node))) {
                Ok(d) => {
                    if Some(&d) == max_dump.as_ref() && name != "max" {
                        "ok =".to_string()
                    } else {
                        format!("ok {}", d)
                    }
                }
                Err(_) => "okpanic".to_string(),
            },
        };
        writeln!(out, "V {} {} | {}", name, vp_str(p), res).unwrap();
    };
    line("max", &max, &r0);
    for (name, p, via) in &rows {
        let r = call::<Ctx>(&script, p, via);
        line(name, p, &r);
    }
    writeln!(out, ".").unwrap();
}

fn run_ctx<Ctx: ScriptContext>(w: &World, name: &'static str, tap: bool, seed: u64, n_ast: usize, n_edit: usize, n_rand: usize, foreign: &[Vec<u8>], keep: &mut Vec<Vec<u8>>)
where
    Ctx::Key: ToPublicKey + ParseableKey,
{
    let nk = if tap || name == "segwitv0" { 6 } else { 8 };
    let ci = CtxInfo { tap, legacy_like: name == "bare" || name == "legacy", n_keys: nk };
    let mut rng = Rng(seed ^ 0xDECB04);
    let mut out = String::new();
    let mut asts: Vec<(String, Miniscript<Key, Ctx>)> = Vec::new();
    for (i, m) in directed::<Ctx>(w, tap, nk).into_iter().enumerate() {
        asts.push((format!("{}-d{}", name, i), m));
    }
    let mut i = 0u64;
    let want = asts.len() + n_ast;
    while asts.len() < want && i < 20 * n_ast as u64 {
        i += 1;
        let mut g = Gen::new(w, seed.wrapping_mul(0x51ED).wrapping_add(i * 104729) ^ (name.len() as u64) << 40, ci);
        g.dup_keys = i % 3 == 0;
        let depth = (i % 5) as u32;
        let b = match i % 13 {
            0 => B::K,
            1 => B::V,
            2 => B::W,
            _ => B::B,
        };
        if let Some(m) = g.gen::<Ctx>(b, depth) {
            asts.push((format!("{}-g{}", name, i), m));
        }
    }
    for (id, m) in &asts {
        let bytes = match catch_unwind(AssertUnwindSafe(|| m.encode().into_bytes())) {
            Ok(b) => b,
            Err(_) => continue,
        };
        let src = dump_str(w, &m.node);
        emit::<Ctx>(w, tap, name, id, "gen", &bytes, Some(&src), &mut out);
        if keep.len() < 200 {
            keep.push(bytes.clone());
        }
        let (ins, complete) = parse_ins(&bytes);
        if complete {
            let eds = all_edits(w, tap, &ins);
            if !eds.is_empty() {
                let mut chosen: Vec<usize> = Vec::new();
                for _ in 0..n_edit {
                    let j = rng.below(eds.len() as u64) as usize;
                    if !chosen.contains(&j) {
                        chosen.push(j);
                    }
                }
                for (n, j) in chosen.iter().enumerate() {
                    let (k, b) = &eds[*j];
                    emit::<Ctx>(w, tap, name, &format!("{}-e{}", id, n), &format!("edit:{}", k), b, Some(&src), &mut out);
                }
            }
        }
        if out.len() > 1 << 20 {
            print!("{}", out);
            out.clear();
        }
    }
    for (n, b) in foreign.iter().enumerate() {
        emit::<Ctx>(w, tap, name, &format!("{}-x{}", name, n), "xctx", b, None, &mut out);
    }
    for (n, (k, b)) in directed_bytes(w, tap).into_iter().enumerate() {
        emit::<Ctx>(w, tap, name, &format!("{}-b{}", name, n), &format!("bytes:{}", k), &b, None, &mut out);
    }
    for n in 0..n_rand {
        let b = if n % 2 == 0 {
            opcode_soup(&mut rng, w, tap)
        } else {
            let len = rng.below(40) as usize;
            (0..len).map(|_| rng.next() as u8).collect()
        };
        emit::<Ctx>(w, tap, name, &format!("{}-r{}", name, n), if n % 2 == 0 { "soup" } else { "random" }, &b, None, &mut out);
    }
    print!("{}", out);
}

pub fn run(args: &[String]) {
    let w = World::new();
    world_lines(&w);
    if args.first().map(|s| s.as_str()) == Some("replay") {
        let ctx = args[1].as_str();
        let bytes: Vec<u8> = if args[2] == "-" { vec![] } else { (0..args[2].len() / 2).map(|i| u8::from_str_radix(&args[2][2 * i..2 * i + 2], 16).unwrap()).collect() };
        let mut out = String::new();
        match ctx {
            "bare" => emit::<BareCtx>(&w, false, "bare", "replay", "replay", &bytes, None, &mut out),
            "legacy" => emit::<Legacy>(&w, false, "legacy", "replay", "replay", &bytes, None, &mut out),
            "segwitv0" => emit::<Segwitv0>(&w, false, "segwitv0", "replay", "replay", &bytes, None, &mut out),
            _ => emit::<Tap>(&w, true, "tap", "replay", "replay", &bytes, None, &mut out),
        }
        print!("{}", out);
        println!("EOF");
        return;
    }
    let seed: u64 = args.first().and_then(|s| s.parse().ok()).unwrap_or(1);
    let n_ast: usize = args.get(1).and_then(|s| s.parse().ok()).unwrap_or(200);
    let n_edit: usize = args.get(2).and_then(|s| s.parse().ok()).unwrap_or(3);
    let n_rand: usize = args.get(3).and_then(|s| s.parse().ok()).unwrap_or(100);
    let mut keep_sw: Vec<Vec<u8>> = Vec::new();
    let mut keep_tap: Vec<Vec<u8>> = Vec::new();
    let mut keep_leg: Vec<Vec<u8>> = Vec::new();
    let mut sink: Vec<Vec<u8>> = Vec::new();
    run_ctx::<Segwitv0>(&w, "segwitv0", false, seed, n_ast, n_edit, n_rand, &[], &mut keep_sw);
    run_ctx::<Tap>(&w, "tap", true, seed, n_ast, n_edit, n_rand, &keep_sw[..keep_sw.len().min(40)], &mut keep_tap);
    run_ctx::<Legacy>(&w, "legacy", false, seed, n_ast, n_edit, n_rand, &keep_tap[..keep_tap.len().min(40)], &mut keep_leg);
    run_ctx::<BareCtx>(&w, "bare", false, seed, n_ast, n_edit, n_rand, &keep_sw[..keep_sw.len().min(40)], &mut sink);
    // legacy scripts (uncompressed keys) offered to the segwit decoder: reach the key-kind switches
    let mut out = String::new();
    for (n, b) in keep_leg.iter().take(80).enumerate() {
        emit::<Segwitv0>(&w, false, "segwitv0", &format!("segwitv0-y{}", n), "xctx", b, None, &mut out);
    }
    print!("{}", out);
    println!("EOF");
}
