// ------------------------------------------------------------------ value-level API
// (included into bin.rs)
use miniscript::policy::{Concrete, Liftable};
use miniscript::{AbsLockTime, RelLockTime, Threshold};
use std::sync::Arc;

/// Constructor mini-language for policies built with the PUBLIC enum constructors:
///   k<i> key | a<n> after | o<n> older | s h r q hashes | T | U
///   A[e,..] = Concrete::And(vec)   O[w@e,..] = Concrete::Or(vec)   H<k>[e,..] = Thresh(Threshold::new(k, vec))
enum PolErr {
    Syntax,
    Ctor(String),
}
fn parse_pol(s: &[u8], pos: &mut usize, depth: usize) -> Result<Concrete<String>, PolErr> {
    if depth > 200_000 || *pos >= s.len() {
        return Err(PolErr::Syntax);
    }
    let num = |pos: &mut usize| -> Result<u64, PolErr> {
        let st = *pos;
        while *pos < s.len() && s[*pos].is_ascii_digit() {
            *pos += 1;
        }
        std::str::from_utf8(&s[st..*pos]).ok().and_then(|t| t.parse::<u64>().ok()).ok_or(PolErr::Syntax)
    };
    let c = s[*pos];
    *pos += 1;
    match c {
        b'T' => Ok(Concrete::Trivial),
        b'U' => Ok(Concrete::Unsatisfiable),
        b'k' => Ok(Concrete::Key(format!("K{}", num(pos)?))),
        b'a' => AbsLockTime::from_consensus(num(pos)? as u32).map(Concrete::After).map_err(|e| PolErr::Ctor(err_class(&e))),
        b'o' => RelLockTime::from_consensus(num(pos)? as u32).map(Concrete::Older).map_err(|e| PolErr::Ctor(err_class(&e))),
        b's' => Ok(Concrete::Sha256("H".to_string())),
        b'h' => Ok(Concrete::Hash256("H".to_string())),
        b'r' => Ok(Concrete::Ripemd160("H".to_string())),
        b'q' => Ok(Concrete::Hash160("H".to_string())),
        b'A' | b'O' | b'H' => {
            let k = if c == b'H' { num(pos)? as usize } else { 0 };
            if *pos >= s.len() || s[*pos] != b'[' {
                return Err(PolErr::Syntax);
            }
            *pos += 1;
            let mut subs: Vec<(usize, Arc<Concrete<String>>)> = Vec::new();
            loop {
                if *pos >= s.len() {
                    return Err(PolErr::Syntax);
                }
                if s[*pos] == b']' {
                    *pos += 1;
                    break;
                }
                if s[*pos] == b',' {
                    *pos += 1;
                    continue;
                }
                let mut wgt = 1usize;
                if c == b'O' && s[*pos].is_ascii_digit() {
                    wgt = num(pos)? as usize;
                    if *pos < s.len() && s[*pos] == b'@' {
                        *pos += 1;
                    }
                }
                let e = parse_pol(s, pos, depth + 1)?;
                subs.push((wgt, Arc::new(e)));
            }
            match c {
                b'A' => Ok(Concrete::And(subs.into_iter().map(|x| x.1).collect())),
                b'O' => Ok(Concrete::Or(subs)),
                _ => Threshold::new(k, subs.into_iter().map(|x| x.1).collect()).map(Concrete::Thresh).map_err(|e| PolErr::Ctor(err_class(&e))),
            }
        }
        _ => Err(PolErr::Syntax),
    }
}

fn gen_pol(rng: &mut Rng, depth: u32) -> String {
    let leaf = |rng: &mut Rng| -> String {
        match rng.below(12) {
            0..=5 => format!("k{}", rng.below(6)),
            6 => format!("a{}", pick(rng, &[1u32, 100, 499_999_999, 500_000_000, 500_000_001])),
            7 => format!("o{}", pick(rng, &[1u32, 144, 65535, 4194305, 4259839])),
            8 => "s".into(),
            9 => "q".into(),
            10 => "T".into(),
            _ => "U".into(),
        }
    };
    if depth == 0 {
        return leaf(rng);
    }
    let n = *pick(rng, &[0u64, 1, 1, 2, 2, 2, 2, 3, 3, 4, 7]);
    let subs: Vec<String> = (0..n).map(|_| gen_pol(rng, depth - 1)).collect();
    match rng.below(8) {
        0 => leaf(rng),
        1 | 2 | 3 => format!("A[{}]", subs.join(",")),
        4 | 5 => {
            let ws: Vec<String> = subs.iter().map(|s| format!("{}@{}", pick(rng, &[0u64, 1, 1, 2, 99, 1000, 4294967295, 4294967296, u64::MAX / 2, u64::MAX]), s)).collect();
            format!("O[{}]", ws.join(","))
        }
        _ => {
            let k = match rng.below(6) {
                0 => 0,
                1 => n + 1,
                2 => n,
                _ => 1 + rng.below(n.max(1)),
            };
            format!("H{}[{}]", k, subs.join(","))
        }
    }
}

pub fn g_pol(_w: &RWorld, rng: &mut Rng, idx: u64) -> (Input, &'static str) {
    let fixed: &[(&str, &str)] = &[
        ("A[k0]", "known-10e-and-1"),
        ("A[]", "and-0"),
        ("O[]", "or-0"),
        ("O[1@k0]", "or-1"),
        ("A[k0,k1,k2]", "and-3"),
        ("O[1@k0,1@k1,1@k2]", "or-3"),
        ("H1[k0]", "thresh-1-of-1"),
        ("H2[k0,k1]", "thresh-n-of-n"),
        ("H1[k0,k1]", "thresh-1-of-n"),
        ("H0[k0]", "thresh-k0(ctor)"),
        ("H2[k0]", "thresh-k>n(ctor)"),
        ("H0[]", "thresh-empty(ctor)"),
        ("O[0@k0,0@k1]", "or-zero-odds"),
        ("O[18446744073709551615@k0,18446744073709551615@k1]", "or-max-odds"),
        ("A[A[k0],k1]", "and-1-nested"),
        ("A[O[],k1]", "or-0-nested"),
        ("H1[A[],k1]", "and-0-in-thresh"),
        ("A[a1,a500000001]", "mixed-timelocks"),
        ("A[T,U]", "trivial-unsat"),
        ("O[1@U,1@U]", "unsat-unsat"),
        ("H3[k0,k1,k2,k3,k4]", "thresh-3-of-5"),
        ("A[k0,k0]", "dup-keys"),
    ];
    if (idx as usize) < fixed.len() {
        return (Input::Pol(fixed[idx as usize].0.to_string()), fixed[idx as usize].1);
    }
    let j = idx as usize - fixed.len();
    if j < 6 {
        // deep chains (native recursion in lift / Drop / Display is outside the model: see notes)
        let d = [100usize, 400, 1000, 5_000, 20_000, 100_000][j];
        let (open, close, l) = if j % 2 == 0 { ("A[k1,", "]", "deep-chain") } else { ("O[1@k1,1@", "]", "deep-chain") };
        let mut s = String::new();
        for _ in 0..d {
            s.push_str(open);
        }
        s.push_str("k0");
        for _ in 0..d {
            s.push_str(close);
        }
        return (Input::Pol(s), l);
    }
    if j < 9 {
        let n = [1_000usize, 20_000, 100_000][j - 6];
        let subs: Vec<String> = (0..n).map(|i| format!("k{}", i)).collect();
        return (Input::Pol(format!("H{}[{}]", n / 2, subs.join(","))), "wide-thresh");
    }
    let depth = 1 + rng.below(4) as u32;
    (Input::Pol(gen_pol(rng, depth)), "random-ctor-tree")
}

pub fn run_pol(_w: &RWorld, i: &Input) -> Obs {
    let s = match i {
        Input::Pol(s) => s,
        _ => return Obs::na("input-kind"),
    };
    let mut pos = 0;
    let p = match parse_pol(s.as_bytes(), &mut pos, 0) {
        Ok(p) if pos == s.len() => p,
        Ok(_) | Err(PolErr::Syntax) => return Obs::na("syntax"),
        Err(PolErr::Ctor(e)) => return Obs::err(format!("ctor:{}", e)),
    };
    let small = s.len() < 300;
    super::post_concrete(&p, small);
    let printed = p.to_string();
    if small {
        // printed form goes back into the parser
        if let Err(e) = Concrete::<String>::from_str(&printed) {
            let _ = err_class(&e);
        }
    }
    match p.lift() {
        Ok(sem) => {
            super::post_semantic(&sem);
            Obs::ok("lifted")
        }
        Err(e) => Obs::err(format!("lift:{}", err_class(&e))),
    }
}

// ------------------------------------------------------------------ ==, cmp, hash on pairs
fn neighbour(w: &RWorld, rng: &mut Rng, s: &str) -> (String, &'static str) {
    match rng.below(6) {
        0 => (gen::mutate_text_with(w, rng, s, "thresh-k"), "neighbour-k"),
        1 => (gen::mutate_text_with(w, rng, s, "del-arg"), "neighbour-del-arg"),
        2 => (gen::mutate_text_with(w, rng, s, "swap-args"), "neighbour-swap-args"),
        3 => {
            // add a key to a multi: duplicate an argument
            let t = gen::mutate_text_with(w, rng, s, "dup-substr");
            (t, "neighbour-dup")
        }
        4 => (gen::mutate_text_with(w, rng, s, "dup-wrap"), "neighbour-wrap"),
        _ => (gen::mutate_text_with(w, rng, s, "huge-num"), "neighbour-num"),
    }
}

pub fn g_pair(w: &RWorld, rng: &mut Rng, idx: u64) -> (Input, &'static str) {
    let k = |i: usize| w.hexkey(i, false);
    if idx == 0 {
        return (
            Input::Pair(format!("or_b(multi(1,{},{}),s:pk({}))", k(0), k(1), k(2)), format!("or_b(multi(1,{},{},{}),s:pk({}))", k(0), k(1), k(2), k(0))),
            "known-10d-multi-arity",
        );
    }
    if idx == 1 {
        return (Input::Pair(format!("multi(1,{},{})", k(0), k(1)), format!("multi(1,{},{},{})", k(0), k(1), k(2))), "multi-arity");
    }
    if idx == 2 {
        return (
            Input::Pair(format!("thresh(1,pk({}),s:pk({}))", k(0), k(1)), format!("thresh(2,pk({}),s:pk({}))", k(0), k(1))),
            "thresh-k",
        );
    }
    if idx == 3 {
        return (
            Input::Pair(
                format!("and_v(v:thresh(1,pk({}),s:pk({})),pk({}))", k(0), k(1), k(2)),
                format!("and_v(v:thresh(1,pk({}),s:pk({}),s:pk({})),pk({}))", k(0), k(1), k(3), k(0)),
            ),
            "thresh-arity-under-and_v",
        );
    }
    let ctx = 2 + rng.below(2) as usize;
    let pool = &w.ms[if rng.chance(1, 6) { 1 } else { ctx }];
    let a = pool[rng.below(pool.len() as u64) as usize].clone();
    match rng.below(10) {
        0 => (Input::Pair(a.clone(), a), "identical"),
        1 | 2 => {
            let b = pool[rng.below(pool.len() as u64) as usize].clone();
            (Input::Pair(a, b), "independent")
        }
        3 => {
            // put two neighbours under a common parent so that the comparison continues past them
            let (b, _) = neighbour(w, rng, &a);
            let kx = w.hexkey(rng.below(6) as usize, ctx == 3);
            let ky = w.hexkey(rng.below(6) as usize, ctx == 3);
            (Input::Pair(format!("or_i({},pk({}))", a, kx), format!("or_i({},pk({}))", b, ky)), "neighbour-under-or_i")
        }
        _ => {
            let (b, l) = neighbour(w, rng, &a);
            if rng.chance(1, 2) {
                (Input::Pair(a, b), l)
            } else {
                (Input::Pair(b, a), l)
            }
        }
    }
}

fn cmp_all<Ctx: ScriptContext>(a: &str, b: &str) -> Option<String> {
    use std::hash::{Hash as _, Hasher};
    let x = Miniscript::<String, Ctx>::from_str_with_validation_params(a, &ValidationParams::MAX).ok()?;
    let y = Miniscript::<String, Ctx>::from_str_with_validation_params(b, &ValidationParams::MAX).ok()?;
    let eq = x == y;
    let c1 = x.cmp(&y);
    let c2 = y.cmp(&x);
    let _ = x.partial_cmp(&y);
    let _ = x.node == y.node;
    let _ = x.node.cmp(&y.node);
    let mut h1 = std::collections::hash_map::DefaultHasher::new();
    x.hash(&mut h1);
    let mut h2 = std::collections::hash_map::DefaultHasher::new();
    y.hash(&mut h2);
    let _ = h1.finish() == h2.finish();
    let mut v = vec![x.clone(), y.clone(), x.clone()];
    v.sort();
    let mut set = std::collections::BTreeSet::new();
    set.insert(x.clone());
    set.insert(y.clone());
    let _ = set.contains(&x);
    let mut hs = std::collections::HashSet::new();
    hs.insert(x);
    hs.insert(y);
    Some(format!("eq={} cmp={:?}/{:?}", eq as u8, c1, c2))
}

pub fn run_pair(_w: &RWorld, i: &Input) -> Obs {
    let (a, b) = match i {
        Input::Pair(a, b) => (a, b),
        _ => return Obs::na("input-kind"),
    };
    let mut tags = Vec::new();
    if let Some(t) = cmp_all::<Segwitv0>(a, b) {
        tags.push(t);
    }
    if let Some(t) = cmp_all::<Tap>(a, b) {
        tags.push(t);
    }
    if let Some(t) = cmp_all::<Legacy>(a, b) {
        tags.push(t);
    }
    if let Some(t) = cmp_all::<BareCtx>(a, b) {
        tags.push(t);
    }
    // descriptor level
    if let (Ok(x), Ok(y)) = (Descriptor::<String>::from_str(&format!("wsh({})", a)), Descriptor::<String>::from_str(&format!("wsh({})", b))) {
        let _ = x == y;
        let _ = x.cmp(&y);
    }
    if let (Ok(x), Ok(y)) = (Concrete::<String>::from_str(a), Concrete::<String>::from_str(b)) {
        let _ = x == y;
        let _ = x.cmp(&y);
    }
    match tags.into_iter().next() {
        Some(t) => Obs::ok(t),
        None => Obs::na("not-both-parsable"),
    }
}

// ------------------------------------------------------------------ satisfier on insane scripts
/// Directed cases: a raw key hash the satisfier cannot resolve (its dissatisfaction is Unavailable)
/// next to a non-canonical, signature-carrying dissatisfaction (and_v(v:pk(A),pk(B)): sat(A) dsat(B))
/// under or_i, as the `d` child of or_d / or_c / or_b / thresh, whose arms assert `!dis.has_sig`.
/// Found by an independent tester on the unchanged tree (malleable mode picks the only available
/// dissatisfaction, which has a signature). Shapes x key masks (bit i = signature for key i).
pub const SAT_RAWPKH_SHAPES: &[&str] = &[
    "or_d(or_i(c:expr_raw_pkh(H),and_v(v:pk(A),pk(B))),pk(C))",
    "and_v(or_c(or_i(c:expr_raw_pkh(H),and_v(v:pk(A),pk(B))),v:pk(C)),pk(D))",
    "or_b(or_i(c:expr_raw_pkh(H),and_v(v:pk(A),pk(B))),s:pk(C))",
    "or_b(pk(C),a:or_i(c:expr_raw_pkh(H),and_v(v:pk(A),pk(B))))",
    "thresh(1,or_i(c:expr_raw_pkh(H),and_v(v:pk(A),pk(B))),s:pk(C))",
    "thresh(2,pk(C),a:or_i(c:expr_raw_pkh(H),and_v(v:pk(A),pk(B))),s:pk(D))",
    "andor(or_i(c:expr_raw_pkh(H),and_v(v:pk(A),pk(B))),pk(C),pk(D))",
    "or_d(or_i(and_v(v:pk(A),pk(B)),c:expr_raw_pkh(H)),pk(C))",
];
pub const SAT_RAWPKH_MASKS: &[u32] = &[0b0001, 0b0011, 0b0101, 0b1111, 0b1110, 0];
pub fn sat_rawpkh_text(w: &RWorld, shape: &str, tap: bool) -> String {
    shape
        .replace("H", "1111111111111111111111111111111111111111")
        .replace("(A)", &format!("({})", w.hexkey(0, tap)))
        .replace("(B)", &format!("({})", w.hexkey(1, tap)))
        .replace("(C)", &format!("({})", w.hexkey(2, tap)))
        .replace("(D)", &format!("({})", w.hexkey(3, tap)))
}

pub fn g_sat(w: &RWorld, rng: &mut Rng, idx: u64) -> (Input, &'static str) {
    let n_dir = (SAT_RAWPKH_SHAPES.len() * SAT_RAWPKH_MASKS.len() * 2) as u64;
    if idx < n_dir {
        let i = idx as usize;
        let tap = i % 2 == 1;
        let shape = SAT_RAWPKH_SHAPES[(i / 2) % SAT_RAWPKH_SHAPES.len()];
        let keys = SAT_RAWPKH_MASKS[i / 2 / SAT_RAWPKH_SHAPES.len()];
        let ms = sat_rawpkh_text(w, shape, tap);
        return (Input::Sat { ms, ctx: if tap { 3 } else { 2 }, keys, pre: 0, lt: 0, seq: 0 }, "rawpkh-unresolved-under-d-child");
    }
    let ctx = *pick(rng, &[0u8, 1, 2, 2, 2, 3, 3, 3]);
    let seed = rng.next();
    let depth = 1 + rng.below(5) as u32;
    fn mk<Ctx: ScriptContext>(w: &RWorld, ci: CtxInfo, seed: u64, depth: u32) -> Option<String> {
        let mut g = Gen::new(&w.w, seed, ci);
        g.dup_keys = seed % 2 == 0;
        g.gen::<Ctx>(B::B, depth).map(|m| m.to_string())
    }
    let ms = match ctx {
        0 => mk::<BareCtx>(w, CI[0], seed, depth),
        1 => mk::<Legacy>(w, CI[1], seed, depth),
        2 => mk::<Segwitv0>(w, CI[2], seed, depth),
        _ => mk::<Tap>(w, CI[3], seed, depth),
    }
    .unwrap_or_else(|| "1".to_string());
    let (ms, label) = match rng.below(6) {
        0 => (gen::mutate_text_with(w, rng, &ms, "swap-args"), "typed-insane+swap-args"),
        1 => (gen::mutate_text_with(w, rng, &ms, "dup-wrap"), "typed-insane+wrap"),
        2 => (gen::mutate_text_with(w, rng, &ms, "thresh-k"), "typed-insane+k"),
        _ => (ms, "typed-insane"),
    };
    let keys = match rng.below(4) {
        0 => 0xffff_ffff,
        1 => 0,
        _ => (rng.next() as u32) | if rng.chance(1, 2) { 0x4000_0000 } else { 0 },
    };
    let pre = match rng.below(3) {
        0 => 0xf,
        1 => 0,
        _ => rng.below(16) as u32,
    };
    let lt = *pick(rng, &[0u32, 1, 1000, 100_000, 499_999_999, 500_000_000, 500_001_000, 0xffff_ffff]);
    let seq = *pick(rng, &[0u32, 1, 16, 65535, 0x40_0001, 0x40_ffff, 0x8000_0000, 0xffff_ffff]);
    (Input::Sat { ms, ctx, keys, pre, lt, seq }, label)
}

fn sat_ctx<Ctx: ScriptContext>(w: &RWorld, ms: &str, ds: &DummySat) -> Result<(Miniscript<DefiniteDescriptorKey, Ctx>, String), String> {
    let m = Miniscript::<DefiniteDescriptorKey, Ctx>::from_str_with_validation_params(ms, &Ctx::CONSENSUS).map_err(|e| err_class(&e))?;
    let mut n_ok = 0;
    match m.satisfy(ds) {
        Ok(wit) => {
            n_ok += 1;
            let _ = wit.len();
        }
        Err(e) => {
            let _ = err_class(&e);
        }
    }
    match m.satisfy_malleable(ds) {
        Ok(_) => n_ok += 2,
        Err(e) => {
            let _ = err_class(&e);
        }
    }
    // planner side: Assets with exactly the keys of the mask
    let mut assets = Assets::new();
    for i in 0..crate::ast::N_KEYS {
        if ds.keys & (1 << i) != 0 {
            for tap in [false, true] {
                if let Ok(k) = DescriptorPublicKey::from_str(&format!("{}", w.w.key(i, tap))) {
                    assets = assets.add(k);
                }
            }
        }
    }
    for j in 0..crate::ast::N_PRE {
        if ds.pre & (1 << j) != 0 {
            assets = assets.add(w.w.sha256_img(j)).add(w.w.hash256_img(j)).add(w.w.ripemd160_img(j)).add(w.w.hash160_img(j));
        }
    }
    assets = assets.after(absolute::LockTime::from_consensus(ds.lt));
    if let Some(l) = Sequence::from_consensus(ds.seq).to_relative_lock_time() {
        assets = assets.older(l);
    }
    for lh in [None, Some(bitcoin::TapLeafHash::from_byte_array([1; 32]))] {
        if lh.is_none() && std::any::TypeId::of::<Ctx>() == std::any::TypeId::of::<Tap>() {
            continue; // multi_a documents a leaf hash as a precondition in Tap
        }
        let t = m.build_template(&assets);
        let _ = format!("{:?}", t.stack);
        let t = m.build_template_mall(&assets);
        let _ = format!("{:?}", t.stack);
        let _ = lh;
    }
    Ok((m, format!("sat={}", n_ok)))
}

pub fn run_sat(w: &RWorld, i: &Input) -> Obs {
    let (ms, ctx, keys, pre, lt, seq) = match i {
        Input::Sat { ms, ctx, keys, pre, lt, seq } => (ms, *ctx, *keys, *pre, *lt, *seq),
        _ => return Obs::na("input-kind"),
    };
    let ds = DummySat { w, keys, pre, lt, seq, big: vec![] };
    let desc: Option<Descriptor<DefiniteDescriptorKey>>;
    let tag;
    match ctx {
        0 => match sat_ctx::<BareCtx>(w, ms, &ds) {
            Ok((m, t)) => {
                tag = t;
                desc = Descriptor::new_bare(m).ok();
            }
            Err(e) => return Obs::na(format!("parse:{}", e)),
        },
        1 => match sat_ctx::<Legacy>(w, ms, &ds) {
            Ok((m, t)) => {
                tag = t;
                desc = Descriptor::new_sh(m).ok();
            }
            Err(e) => return Obs::na(format!("parse:{}", e)),
        },
        2 => match sat_ctx::<Segwitv0>(w, ms, &ds) {
            Ok((m, t)) => {
                tag = t;
                desc = if keys & 1 == 0 { Descriptor::new_wsh(m).ok() } else { Descriptor::new_sh_wsh(m).ok() };
            }
            Err(e) => return Obs::na(format!("parse:{}", e)),
        },
        _ => match sat_ctx::<Tap>(w, ms, &ds) {
            Ok((m, t)) => {
                tag = t;
                let ik = w.w.key(5, true);
                let leaf = miniscript::descriptor::TapTree::leaf(m);
                desc = Descriptor::new_tr(ik, Some(leaf)).ok();
            }
            Err(e) => return Obs::na(format!("parse:{}", e)),
        },
    }
    // descriptors: through the text parser as well (Descriptor::from_str applies its own checks)
    let via_text = match ctx {
        0 => Descriptor::<DefiniteDescriptorKey>::from_str(ms).ok(),
        1 => Descriptor::<DefiniteDescriptorKey>::from_str(&format!("sh({})", ms)).ok(),
        2 => Descriptor::<DefiniteDescriptorKey>::from_str(&format!("wsh({})", ms)).ok(),
        _ => Descriptor::<DefiniteDescriptorKey>::from_str(&format!("tr({},{})", w.w.key(5, true), ms)).ok(),
    };
    let mut dn = 0;
    for d in [desc, via_text].into_iter().flatten() {
        dn += 1;
        if let Err(e) = d.get_satisfaction(&ds) {
            let _ = err_class(&e);
        }
        if let Err(e) = d.get_satisfaction_mall(&ds) {
            let _ = err_class(&e);
        }
        let mut txin = bitcoin::TxIn::default();
        if let Err(e) = d.satisfy(&mut txin, &ds) {
            let _ = err_class(&e);
        }
    }
    Obs::ok(format!("{} desc={}", tag, dn))
}
