//! Binary / value-level entry points of the robustness engine: script decoder, interpreter,
//! PSBT, planner, value-level policy API, comparisons, satisfier.
use super::{post_ms, RWorld};
use crate::ast::{CtxInfo, Gen, Rng, B};
use crate::robust::gen::{self, Input};
use crate::robust::{err_class, Obs};
use bitcoin::hashes::Hash;
use bitcoin::script::ScriptBuf;
use miniscript::miniscript::lex::lex;
use miniscript::{BareCtx, Legacy, Miniscript, ScriptContext, Segwitv0, Tap, ValidationParams};

const CI: [CtxInfo; 4] = [
    CtxInfo { tap: false, legacy_like: true, n_keys: 8 },
    CtxInfo { tap: false, legacy_like: true, n_keys: 8 },
    CtxInfo { tap: false, legacy_like: false, n_keys: 6 },
    CtxInfo { tap: true, legacy_like: false, n_keys: 6 },
];

fn pick<'a, T>(rng: &mut Rng, v: &'a [T]) -> &'a T { &v[rng.below(v.len() as u64) as usize] }

// ------------------------------------------------------------------ scripts for the decoder
/// a valid script of the context (encode of a generated miniscript)
pub fn valid_script(w: &RWorld, rng: &mut Rng, ctx: usize) -> Vec<u8> {
    let seed = rng.next();
    let depth = 1 + rng.below(5) as u32;
    fn enc<Ctx: ScriptContext>(w: &RWorld, ci: CtxInfo, seed: u64, depth: u32) -> Vec<u8> {
        let mut g = Gen::new(&w.w, seed, ci);
        g.dup_keys = seed % 3 == 0;
        match g.gen::<Ctx>(B::B, depth) {
            Some(m) => m.encode().into_bytes(),
            None => vec![0x51],
        }
    }
    match ctx {
        0 => enc::<BareCtx>(w, CI[0], seed, depth),
        1 => enc::<Legacy>(w, CI[1], seed, depth),
        2 => enc::<Segwitv0>(w, CI[2], seed, depth),
        _ => enc::<Tap>(w, CI[3], seed, depth),
    }
}

const OPS: &[u8] = &[
    0x00, 0x4c, 0x4d, 0x4e, 0x4f, 0x50, 0x51, 0x52, 0x60, 0x61, 0x63, 0x64, 0x67, 0x68, 0x69, 0x6a, 0x6b, 0x6c, 0x73, 0x75, 0x76, 0x7c, 0x82, 0x87, 0x88,
    0x92, 0x93, 0x9a, 0x9b, 0x9c, 0x9d, 0xa6, 0xa8, 0xa9, 0xaa, 0xac, 0xad, 0xae, 0xaf, 0xb1, 0xb2, 0xba, 0xff, 0x01, 0x14, 0x20, 0x21, 0x41, 0x4b,
];

pub const N_SCRIPT_STRESS: u64 = 40 + (N_DEEP_SHAPES * DEEP_DEPTHS.len()) as u64 + N_NUM_SCRIPTS as u64;

// ---- deep nesting through EVERY child position of every fragment with children ----
// A shape is (label, prefix, core, suffix): the script is prefix^n core suffix^n, type-correct
// at every level, so that the depth guard is the only thing between the input and recursive code.
pub const N_DEEP_SHAPES: usize = 22;
/// depths tried for every shape; the last slot is 3*10^5 for tapscript in the thorough tier
/// (no script size limit there), 5 000 otherwise
pub const DEEP_DEPTHS: [usize; 6] = [201, 402, 403, 1_000, 10_000, 0];

pub fn deep_shape(w: &RWorld, ctx: usize, shape: usize) -> (&'static str, Vec<u8>, Vec<u8>, Vec<u8>) {
    let tap = ctx == 3;
    let key = w.w.key_bytes(0, tap);
    let mut pk = vec![key.len() as u8];
    pk.extend_from_slice(&key);
    pk.push(0xac); // c:pk_k(K): B d u n
    let cat = |parts: &[&[u8]]| -> Vec<u8> { parts.concat() };
    match shape {
        // andor(X,Y,Z) = [X] NOTIF [Z] ELSE [Y] ENDIF
        0 => ("deep-andor-a", vec![], vec![0x00], vec![0x64, 0x00, 0x67, 0x51, 0x68]),
        1 => ("deep-andor-b", vec![0x00, 0x64, 0x00, 0x67], vec![0x51], vec![0x68]),
        2 => ("deep-andor-c", vec![0x00, 0x64], vec![0x51], vec![0x67, 0x00, 0x68]),
        3 => ("deep-andor-c-pk", cat(&[&pk, &[0x64]]), pk.clone(), cat(&[&[0x67], &pk, &[0x68]])),
        // and_v(X,Y) = [X] [Y] (the decoder chooses the association)
        4 => ("deep-and_v", vec![0x51, 0x69], vec![0x51], vec![]),
        // and_b(X,Y) = [X] [Y] BOOLAND, Y = a:B = TOALT B FROMALT
        5 => ("deep-and_b-left", vec![], vec![0x51], vec![0x6b, 0x51, 0x6c, 0x9a]),
        6 => ("deep-and_b-right", vec![0x51, 0x6b], vec![0x51], vec![0x6c, 0x9a]),
        // or_b(X,Z) = [X] [Z] BOOLOR
        7 => ("deep-or_b-left", vec![], vec![0x00], vec![0x6b, 0x00, 0x6c, 0x9b]),
        8 => ("deep-or_b-right", vec![0x00, 0x6b], vec![0x00], vec![0x6c, 0x9b]),
        // or_c(X,Z) = [X] NOTIF [Z] ENDIF (V); made B by and_v(.., 1) at every level
        9 => ("deep-or_c-right", vec![0x00, 0x64], vec![0x51, 0x69], vec![0x68]),
        // or_d(X,Z) = [X] IFDUP NOTIF [Z] ENDIF
        10 => ("deep-or_d-left", vec![], vec![0x00], vec![0x73, 0x64, 0x00, 0x68]),
        11 => ("deep-or_d-right", vec![0x00, 0x73, 0x64], vec![0x51], vec![0x68]),
        // or_i(X,Z) = IF [X] ELSE [Z] ENDIF
        12 => ("deep-or_i-left", vec![0x63], vec![0x51], vec![0x67, 0x00, 0x68]),
        13 => ("deep-or_i-right", vec![0x63, 0x00, 0x67], vec![0x51], vec![0x68]),
        // thresh(1, X1, a:X2, a:X3) = [X1] TOALT [X2] FROMALT ADD TOALT [X3] FROMALT ADD 1 EQUAL
        14 => ("deep-thresh-first", vec![], vec![0x00], vec![0x6b, 0x00, 0x6c, 0x93, 0x51, 0x87]),
        15 => ("deep-thresh-middle", vec![0x00, 0x6b], vec![0x00], vec![0x6c, 0x93, 0x6b, 0x00, 0x6c, 0x93, 0x51, 0x87]),
        16 => ("deep-thresh-last", vec![0x00, 0x6b, 0x00, 0x6c, 0x93, 0x6b], vec![0x00], vec![0x6c, 0x93, 0x51, 0x87]),
        // wrappers that nest on themselves: n: = X 0NOTEQUAL, j: = SIZE 0NOTEQUAL IF X ENDIF,
        // d:v: does not type, l: / u: are or_i, t: is and_v
        17 => ("deep-wrap-n", vec![], vec![0x51], vec![0x92]),
        18 => ("deep-wrap-j", vec![0x82, 0x92, 0x63], pk.clone(), vec![0x68]),
        // a: / s: / c: / v: cannot wrap themselves; they alternate with a binary fragment:
        19 => ("deep-wrap-s-and_b", cat(&[&pk, &[0x7c]]), pk.clone(), vec![0x9a]), // and_b(pk, s:and_b(pk, s:..))
        20 => ("deep-wrap-v-and_v", vec![], vec![0x51], vec![0x69, 0x51]),           // and_v(v:X, 1)
        _ => ("deep-wrap-c-or_i", vec![0x63], cat(&[&[key.len() as u8], &key[..]]), cat(&[&[0x67], &[key.len() as u8], &key[..], &[0x68]])), // c:or_i(K-chain) : keys under or_i, CHECKSIG appended by the caller
    }
}

pub fn deep_script(w: &RWorld, ctx: usize, shape: usize, depth: usize) -> (Vec<u8>, &'static str) {
    let (label, pre, core, suf) = deep_shape(w, ctx, shape);
    let mut s = Vec::with_capacity(depth * (pre.len() + suf.len()) + core.len() + 1);
    for _ in 0..depth {
        s.extend_from_slice(&pre);
    }
    s.extend_from_slice(&core);
    for _ in 0..depth {
        s.extend_from_slice(&suf);
    }
    if shape == 21 {
        s.push(0xac);
    }
    (s, label)
}

pub fn deep_depth(ctx: usize, slot: usize) -> usize {
    let d = DEEP_DEPTHS[slot % DEEP_DEPTHS.len()];
    if d != 0 {
        d
    } else if ctx == 3 && std::env::var("VERIF_TIER").map(|t| t == "thorough").unwrap_or(false) {
        300_000
    } else {
        5_000
    }
}

/// nesting depth of IF / NOTIF in a script, by the harness's own scan of the bytes (pushes
/// skipped): a lower bound of the depth of any miniscript the script decodes to
pub fn if_depth(b: &[u8]) -> usize {
    let (mut i, mut cur, mut max) = (0usize, 0usize, 0usize);
    while i < b.len() {
        let c = b[i];
        i += 1;
        match c {
            1..=75 => i += c as usize,
            76 => {
                if i < b.len() {
                    i += 1 + b[i] as usize
                } else {
                    break;
                }
            }
            77 => {
                if i + 1 < b.len() {
                    i += 2 + (b[i] as usize | (b[i + 1] as usize) << 8)
                } else {
                    break;
                }
            }
            78 => break,
            0x63 | 0x64 => {
                cur += 1;
                max = max.max(cur);
            }
            0x68 => cur = cur.saturating_sub(1),
            _ => {}
        }
    }
    max
}

// ---- large script numbers where the decoder reads a COUNT (k of multi / multi_a / thresh, n of
// multi): `<k> NUMEQUAL`, `<k> <keys..> <n> CHECKMULTISIG`, `<k> EQUAL`, with and without the
// keys / children present; k in minimal script-number encoding
pub const NUM_KS: [u32; 9] = [0, 1, 20, 21, 999, 1000, 1 << 16, 1 << 24, 0x7fff_ffff];
pub const NUM_SHAPES: usize = 8;
pub const N_NUM_SCRIPTS: usize = NUM_SHAPES * NUM_KS.len();

pub fn push_num(n: u32) -> Vec<u8> {
    match n {
        0 => vec![0x00],
        1..=16 => vec![0x50 + n as u8],
        _ => {
            let mut v = Vec::new();
            let mut x = n;
            while x > 0 {
                v.push((x & 0xff) as u8);
                x >>= 8;
            }
            if v.last().map(|b| b & 0x80 != 0).unwrap_or(false) {
                v.push(0);
            }
            let mut out = vec![v.len() as u8];
            out.extend(v);
            out
        }
    }
}

pub fn num_script(w: &RWorld, ctx: usize, j: usize) -> (Vec<u8>, &'static str) {
    let tap = ctx == 3;
    let (shape, k) = (j / NUM_KS.len(), NUM_KS[j % NUM_KS.len()]);
    let key = |i: usize| -> Vec<u8> {
        let kb = w.w.key_bytes(i, tap);
        [&[kb.len() as u8][..], &kb].concat()
    };
    let kn = push_num(k);
    match shape {
        0 => ([kn, vec![0x9c]].concat(), "count-numequal-bare"),
        1 => ([key(0), vec![0xac], key(1), vec![0xba], kn, vec![0x9c]].concat(), "count-multi_a-2-keys"),
        2 => ([kn, vec![0x9c, 0x69, 0x51]].concat(), "count-numequalverify-then-1"),
        3 => ([kn.clone(), key(0), key(1), vec![0x52, 0xae]].concat(), "count-multi-k-2-keys"),
        4 => ([kn.clone(), push_num(k), vec![0xae]].concat(), "count-multi-k-n-no-keys"),
        5 => ([vec![0x51], key(0), kn, vec![0xae]].concat(), "count-multi-n-1-key"),
        6 => ([kn, vec![0x87]].concat(), "count-equal-bare"),
        _ => ([key(0), vec![0xac, 0x7c], key(1), vec![0xac, 0x93], kn, vec![0x87]].concat(), "count-thresh-2-children"),
    }
}

fn stress_script(w: &RWorld, ctx: usize, k: u64) -> (Vec<u8>, &'static str) {
    let deep_end = 40 + (N_DEEP_SHAPES * DEEP_DEPTHS.len()) as u64;
    if k >= deep_end {
        return num_script(w, ctx, (k - deep_end) as usize);
    }
    if k >= 40 {
        let j = (k - 40) as usize;
        let (shape, slot) = (j / DEEP_DEPTHS.len(), j % DEEP_DEPTHS.len());
        return deep_script(w, ctx, shape, deep_depth(ctx, slot));
    }
    let tap = ctx == 3;
    let key = w.w.key_bytes(0, tap);
    let mut pk = vec![key.len() as u8];
    pk.extend_from_slice(&key);
    pk.push(0xac);
    let rep = |unit: &[u8], n: usize| -> Vec<u8> { unit.iter().cloned().cycle().take(unit.len() * n).collect() };
    match k {
        0 => (vec![], "empty"),
        1 => (rep(&[0x63], 10_000), "if-1e4"),
        2 => (rep(&[0x68], 10_000), "endif-1e4"),
        3 => {
            let mut s = rep(&[0x63], 5_000);
            s.extend(rep(&[0x68], 5_000));
            (s, "if-endif-5e3")
        }
        4 | 5 | 6 | 7 => {
            // valid deep or_i: IF 0 ELSE <X> ENDIF, depth d
            let d = [200usize, 400, 402, 5_000][(k - 4) as usize];
            let mut s = Vec::new();
            for _ in 0..d {
                s.extend_from_slice(&[0x63, 0x00, 0x67]);
            }
            s.push(0x51);
            for _ in 0..d {
                s.push(0x68);
            }
            (s, "deep-or_i")
        }
        8 => (rep(&[0x76], 10_000), "dup-1e4"),
        9 => (rep(&[0x69], 10_000), "verify-1e4"),
        10 => (rep(&pk, 300), "pk-checksig-x300"),
        11 => {
            // and_v chain: <pk> CHECKSIGVERIFY x n ... 1
            let mut unit = pk.clone();
            *unit.last_mut().unwrap() = 0xad;
            let mut s = rep(&unit, 290);
            s.push(0x51);
            (s, "and_v-chain-10kB")
        }
        12 => (rep(&[0x6b, 0x6c], 5_000), "alt-roundtrip-5e3"),
        13 => (rep(&[0x7c], 10_000), "swap-1e4"),
        14 => (rep(&[0x92], 10_000), "0notequal-1e4"),
        15 => (rep(&[0x82, 0x92], 5_000), "size-0notequal-5e3"),
        16 => (vec![0x4e, 0xff, 0xff, 0xff, 0xff], "pushdata4-max-truncated"),
        17 => (vec![0x4e, 0xff, 0xff, 0xff, 0x7f, 0x00], "pushdata4-2^31-truncated"),
        18 => (vec![0x4d, 0xff, 0xff], "pushdata2-max-truncated"),
        19 => (vec![0x4c], "pushdata1-no-len"),
        20 => (vec![0x4b], "push75-no-data"),
        21 => {
            let mut s = vec![0x4d, 0x10, 0x27];
            s.extend(vec![0xab; 10_000]);
            (s, "push-10kB")
        }
        22 => (gen::random_bytes(&mut Rng(k), 0).into_iter().chain((0..10_000u32).map(|i| (i * 31 % 251) as u8)).collect(), "pattern-10kB"),
        23 => {
            // thresh with 10^3 children: <pk> CHECKSIG (SWAP <pk> CHECKSIG ADD)* k EQUAL
            let mut s = pk.clone();
            for _ in 0..290 {
                s.push(0x7c);
                s.extend_from_slice(&pk);
                s.push(0x93);
            }
            s.extend_from_slice(&[0x51, 0x87]);
            (s, "thresh-290")
        }
        24 => {
            // multi with 21 keys / k = 0 / k > n
            let mut s = vec![0x00];
            for _ in 0..3 {
                s.push(key.len() as u8);
                s.extend_from_slice(&key);
            }
            s.extend_from_slice(&[0x53, 0xae]);
            (s, "multi-k0")
        }
        25 => {
            let mut s = vec![0x55];
            for _ in 0..3 {
                s.push(key.len() as u8);
                s.extend_from_slice(&key);
            }
            s.extend_from_slice(&[0x53, 0xae]);
            (s, "multi-k>n")
        }
        26 => {
            let mut s = vec![0x51];
            for _ in 0..3 {
                s.push(key.len() as u8);
                s.extend_from_slice(&key);
            }
            s.extend_from_slice(&[0x60, 0xae]);
            (s, "multi-n-mismatch")
        }
        27 => {
            let mut s = vec![0x51];
            s.extend_from_slice(&[0x01, 0x15, 0xae]);
            (s, "multi-n21-nokeys")
        }
        28 => {
            // multi_a: <pk> CHECKSIG (<pk> CHECKSIGADD)* k NUMEQUAL with k = 0
            let mut s = pk.clone();
            s.push(key.len() as u8);
            s.extend_from_slice(&key);
            s.push(0xba);
            s.extend_from_slice(&[0x00, 0x9c]);
            (s, "multi_a-k0")
        }
        29 => (vec![0x04, 0xff, 0xff, 0xff, 0x7f, 0xb1], "after-2^31-1"),
        30 => (vec![0x05, 0x00, 0x00, 0x00, 0x80, 0x00, 0xb1], "after-2^31"),
        31 => (vec![0x00, 0xb2], "older-0"),
        32 => (vec![0x05, 0xff, 0xff, 0xff, 0xff, 0x00, 0xb2], "older-2^32-1"),
        33 => (vec![0x01, 0x81, 0xb2], "older-negative"),
        34 => (vec![0x08, 1, 2, 3, 4, 5, 6, 7, 8, 0xb1], "after-8-bytes"),
        35 => (vec![0x82, 0x01, 0x20, 0x88, 0xa8, 0x20], "sha256-truncated"),
        36 => (rep(&[0x63, 0x67, 0x68], 3_000), "if-else-endif-3e3"),
        37 => (rep(&[0x64], 10_000), "notif-1e4"),
        38 => (rep(&[0x73], 10_000), "ifdup-1e4"),
        _ => (rep(&[0x51, 0x9a], 5_000), "booland-5e3"),
    }
}

pub fn mutate_script(w: &RWorld, rng: &mut Rng, ctx: usize, s: &[u8]) -> (Vec<u8>, &'static str) {
    let mut t = s.to_vec();
    let n = t.len();
    match rng.below(12) {
        0 => {
            let i = rng.below(n as u64 + 1) as usize;
            t.truncate(i);
            (t, "truncate")
        }
        1 => {
            if n > 0 {
                let i = rng.below(n as u64) as usize;
                t[i] ^= 1 << rng.below(8);
            }
            (t, "bitflip")
        }
        2 => {
            let i = rng.below(n as u64 + 1) as usize;
            t.insert(i, *pick(rng, OPS));
            (t, "ins-op")
        }
        3 => {
            if n > 0 {
                let i = rng.below(n as u64) as usize;
                t.remove(i);
            }
            (t, "del-byte")
        }
        4 => {
            if n > 0 {
                let i = rng.below(n as u64) as usize;
                t[i] = *pick(rng, OPS);
            }
            (t, "set-op")
        }
        5 => {
            // corrupt a push length byte: find a plausible push opcode
            let idx: Vec<usize> = t.iter().enumerate().filter(|(_, b)| matches!(**b, 0x14 | 0x20 | 0x21 | 0x41 | 0x01..=0x05)).map(|(i, _)| i).collect();
            if !idx.is_empty() {
                let i = *pick(rng, &idx);
                t[i] = *pick(rng, &[0x00u8, 0x01, 0x13, 0x15, 0x1f, 0x22, 0x40, 0x42, 0x4b, 0x4c, 0x4d, 0x4e]);
            }
            (t, "push-len")
        }
        6 => {
            if n > 1 {
                let i = rng.below(n as u64) as usize;
                let j = rng.below(n as u64) as usize;
                let (i, j) = (i.min(j), i.max(j));
                let sub = t[i..j].to_vec();
                let k = 1 + rng.below(4);
                for _ in 0..k {
                    let at = j;
                    for (o, b) in sub.iter().enumerate() {
                        t.insert(at + o, *b);
                    }
                }
            }
            (t, "dup-range")
        }
        7 => {
            let o = valid_script(w, rng, ctx);
            let i = rng.below(n as u64 + 1) as usize;
            let j = rng.below(o.len() as u64 + 1) as usize;
            t.truncate(i);
            t.extend_from_slice(&o[j..]);
            (t, "splice")
        }
        8 => {
            let oc = (ctx + 1 + rng.below(3) as usize) % 4;
            let o = valid_script(w, rng, oc);
            (o, "other-context")
        }
        9 => {
            // non-minimal number / push encodings
            let i = rng.below(n as u64 + 1) as usize;
            let forms: [&[u8]; 8] = [&[0x01, 0x01], &[0x01, 0x00], &[0x02, 0x01, 0x00], &[0x4c, 0x01, 0x05], &[0x01, 0x80], &[0x01, 0x81], &[0x4f], &[0x05, 1, 0, 0, 0, 0]];
            let f = *pick(rng, &forms);
            for (o, b) in f.iter().enumerate() {
                t.insert(i + o, *b);
            }
            (t, "non-minimal")
        }
        10 => {
            for _ in 0..(2 + rng.below(5)) {
                t = mutate_script(w, rng, ctx, &t).0;
            }
            (t, "mut-many")
        }
        _ => {
            if n > 1 {
                let i = rng.below(n as u64) as usize;
                let j = rng.below(n as u64) as usize;
                t.swap(i, j);
            }
            (t, "swap-bytes")
        }
    }
}

fn gen_script(w: &RWorld, rng: &mut Rng, idx: u64, ctx: usize) -> (Input, &'static str) {
    if idx < N_SCRIPT_STRESS {
        let (s, l) = stress_script(w, ctx, idx);
        return (Input::Bytes(s), l);
    }
    match rng.below(12) {
        0 => (Input::Bytes(valid_script(w, rng, ctx)), "valid"),
        1 => (Input::Bytes(gen::random_bytes(rng, 100)), "rand-bytes"),
        2 => {
            let n = rng.below(60);
            (Input::Bytes((0..n).map(|_| *pick(rng, OPS)).collect()), "rand-ops")
        }
        _ => {
            let s = valid_script(w, rng, ctx);
            let (t, l) = mutate_script(w, rng, ctx, &s);
            (Input::Bytes(t), l)
        }
    }
}
pub fn g_script_ctx(w: &RWorld, r: &mut Rng, i: u64, ctx: usize) -> (Input, &'static str) { gen_script(w, r, i, ctx) }
pub fn g_script0(w: &RWorld, r: &mut Rng, i: u64) -> (Input, &'static str) { gen_script(w, r, i, 0) }
pub fn g_script1(w: &RWorld, r: &mut Rng, i: u64) -> (Input, &'static str) { gen_script(w, r, i, 1) }
pub fn g_script2(w: &RWorld, r: &mut Rng, i: u64) -> (Input, &'static str) { gen_script(w, r, i, 2) }
pub fn g_script3(w: &RWorld, r: &mut Rng, i: u64) -> (Input, &'static str) { gen_script(w, r, i, 3) }

fn decode_all<Ctx: ScriptContext>(sc: &bitcoin::Script) -> Obs {
    match lex(sc) {
        Ok(t) => {
            let _ = t.len();
            for x in t.iter().take(8) {
                let _ = x.to_string();
            }
        }
        Err(e) => {
            let _ = err_class(&e);
        }
    }
    let r0 = Miniscript::<Ctx::Key, Ctx>::decode(sc);
    let r1 = Miniscript::<Ctx::Key, Ctx>::decode_consensus(sc);
    let r2 = Miniscript::<Ctx::Key, Ctx>::decode_with_validation_params(sc, &ValidationParams::MAX);
    let mut tag = String::new();
    for e in [r0.as_ref().err(), r1.as_ref().err(), r2.as_ref().err()].into_iter().flatten() {
        tag = err_class(e);
    }
    if let Ok(m) = &r2 {
        post_ms(m);
        let back = m.encode();
        let _ = back.len() == sc.len();
        let _ = m.script_size();
        return Obs::ok(format!("sane={} consensus={} max=1", r0.is_ok() as u8, r1.is_ok() as u8));
    }
    if let Ok(m) = &r1 {
        post_ms(m);
        return Obs::ok("consensus-only");
    }
    Obs::err(tag)
}

pub fn run_decode<Ctx: ScriptContext>(_w: &RWorld, i: &Input) -> Obs {
    let b = match i {
        Input::Bytes(b) => b,
        _ => return Obs::na("input-kind"),
    };
    let sc = ScriptBuf::from_bytes(b.clone());
    decode_all::<Ctx>(&sc)
}
pub fn run_decode_tap(_w: &RWorld, i: &Input) -> Obs {
    let b = match i {
        Input::Bytes(b) => b,
        _ => return Obs::na("input-kind"),
    };
    let sc = ScriptBuf::from_bytes(b.clone());
    decode_all::<Tap>(&sc)
}

include!("bin_interp.rs");
include!("bin_psbt.rs");
include!("bin_plan.rs");
include!("bin_value.rs");

#[allow(dead_code)]
fn _unused() { let _ = bitcoin::hashes::sha256::Hash::all_zeros(); }
