// ------------------------------------------------------------------ PSBT
// (included into bin.rs) structurally valid PSBTs (they deserialize) with arbitrary field contents
use bitcoin::psbt::Psbt;
use bitcoin::{Amount, OutPoint, Transaction, TxIn, TxOut};
use miniscript::psbt::{PsbtExt, PsbtInputExt, PsbtOutputExt};

fn prev_tx(spk: &ScriptBuf, vout: u32, n_out: u32, salt: u32) -> Transaction {
    let mut outs = Vec::new();
    for i in 0..n_out {
        outs.push(TxOut {
            value: Amount::from_sat(10_000 + i as u64 + salt as u64),
            script_pubkey: if i == vout { spk.clone() } else { ScriptBuf::from_bytes(vec![0x51]) },
        });
    }
    Transaction {
        version: bitcoin::transaction::Version::TWO,
        lock_time: absolute::LockTime::ZERO,
        input: vec![TxIn { previous_output: OutPoint::null(), script_sig: ScriptBuf::new(), sequence: Sequence::MAX, witness: Witness::new() }],
        output: outs,
    }
}

fn rand_script(w: &RWorld, rng: &mut Rng) -> ScriptBuf {
    let ctx = rng.below(4) as usize;
    match gen_script(w, rng, 1000, ctx).0 {
        Input::Bytes(b) => ScriptBuf::from_bytes(b),
        _ => ScriptBuf::new(),
    }
}

fn fill_input(w: &RWorld, rng: &mut Rng, psbt: &mut Psbt, i: usize, d: &Descriptor<DefiniteDescriptorKey>, prev: &Transaction, vout: u32) {
    let ds = DummySat { w, keys: !0, pre: !0, lt: 0, seq: 0, big: vec![] };
    let segwit = d.desc_type().segwit_version().is_some();
    let inp = &mut psbt.inputs[i];
    if segwit || rng.chance(1, 4) {
        inp.witness_utxo = Some(prev.output[vout as usize].clone());
    }
    if !segwit || rng.chance(1, 2) {
        inp.non_witness_utxo = Some(prev.clone());
    }
    use miniscript::descriptor::DescriptorType as DT;
    match d.desc_type() {
        DT::Wsh => inp.witness_script = d.explicit_script().ok(),
        DT::Sh => inp.redeem_script = d.explicit_script().ok(),
        DT::ShWsh => {
            inp.witness_script = d.explicit_script().ok();
            inp.redeem_script = inp.witness_script.as_ref().map(|s| s.to_p2wsh());
        }
        DT::ShWpkh => inp.redeem_script = d.explicit_script().ok().or_else(|| d.unsigned_script_sig().instructions().last().and_then(|x| x.ok()).and_then(|x| x.push_bytes().map(|p| ScriptBuf::from_bytes(p.as_bytes().to_vec())))),
        _ => {}
    }
    for pk in d.iter_pk() {
        let p = pk.to_public_key();
        if rng.chance(3, 4) {
            inp.partial_sigs.insert(p, ds.ecdsa());
        }
        if rng.chance(1, 2) {
            inp.bip32_derivation.insert(p.inner, (bitcoin::bip32::Fingerprint::from([1, 2, 3, 4]), bitcoin::bip32::DerivationPath::from_str("m/0/1").unwrap()));
        }
    }
    if let Descriptor::Tr(tr) = d {
        let info = tr.spend_info();
        inp.tap_internal_key = Some(info.internal_key());
        inp.tap_merkle_root = info.merkle_root();
        if rng.chance(1, 2) {
            inp.tap_key_sig = Some(ds.schnorr());
        }
        for leaf in info.leaves() {
            inp.tap_scripts.insert(leaf.control_block().clone(), (leaf.script().to_owned(), leaf.leaf_version()));
            for pk in leaf.miniscript().iter_pk() {
                if rng.chance(3, 4) {
                    inp.tap_script_sigs.insert((pk.to_x_only_pubkey(), leaf.leaf_hash()), ds.schnorr());
                }
            }
        }
    }
    for j in 0..crate::ast::N_PRE {
        if rng.chance(1, 2) {
            inp.sha256_preimages.insert(w.w.sha256_img(j), w.w.preimages[j].to_vec());
            inp.hash160_preimages.insert(w.w.hash160_img(j), w.w.preimages[j].to_vec());
            inp.ripemd160_preimages.insert(w.w.ripemd160_img(j), w.w.preimages[j].to_vec());
            let h = bitcoin::hashes::sha256d::Hash::hash(&w.w.preimages[j]);
            inp.hash256_preimages.insert(h, w.w.preimages[j].to_vec());
        }
    }
}

pub const PSBT_MUTS: &[&str] = &[
    "witness_script=random", "witness_script=random+committed", "redeem_script=random", "redeem_script=random+committed", "utxo-spk=foreign",
    "non_witness_utxo-vout-out-of-range", "non_witness_utxo-wrong-txid", "no-utxo", "both-utxos-inconsistent", "final-fields-garbage",
    "tap-internal-key-random", "tap-merkle-root-random", "tap-scripts-garbage", "tap-script-sigs-garbage", "tap-key-sig", "sighash-type-odd",
    "partial-sigs-foreign", "preimage-wrong", "locktime-sequence", "unknown-fields", "scripts-swapped", "p2tr-utxo-on-non-tr", "clear-scripts",
    "utxo-spk=p2pk/p2pkh-garbage", "none",
];

fn mutate_psbt(w: &RWorld, rng: &mut Rng, psbt: &mut Psbt, i: usize) -> &'static str {
    let which = PSBT_MUTS[rng.below(PSBT_MUTS.len() as u64) as usize];
    let ds = DummySat { w, keys: !0, pre: !0, lt: 0, seq: 0, big: vec![] };
    let vout = psbt.unsigned_tx.input[i].previous_output.vout;
    let set_spk = |psbt: &mut Psbt, spk: ScriptBuf| {
        let inp = &mut psbt.inputs[i];
        if let Some(u) = inp.witness_utxo.as_mut() {
            u.script_pubkey = spk.clone();
        }
        if let Some(t) = inp.non_witness_utxo.as_mut() {
            if let Some(o) = t.output.get_mut(vout as usize) {
                o.script_pubkey = spk.clone();
            }
            let txid = t.compute_txid();
            psbt.unsigned_tx.input[i].previous_output.txid = txid;
        }
        if psbt.inputs[i].witness_utxo.is_none() && psbt.inputs[i].non_witness_utxo.is_none() {
            psbt.inputs[i].witness_utxo = Some(TxOut { value: Amount::from_sat(5000), script_pubkey: spk });
        }
    };
    match which {
        "witness_script=random" => psbt.inputs[i].witness_script = Some(rand_script(w, rng)),
        "witness_script=random+committed" => {
            let s = rand_script(w, rng);
            psbt.inputs[i].witness_script = Some(s.clone());
            if rng.chance(1, 2) {
                psbt.inputs[i].redeem_script = None;
                set_spk(psbt, s.to_p2wsh());
            } else {
                psbt.inputs[i].redeem_script = Some(s.to_p2wsh());
                set_spk(psbt, s.to_p2wsh().to_p2sh());
            }
        }
        "redeem_script=random" => psbt.inputs[i].redeem_script = Some(rand_script(w, rng)),
        "redeem_script=random+committed" => {
            let s = rand_script(w, rng);
            psbt.inputs[i].redeem_script = Some(s.clone());
            if rng.chance(1, 2) {
                psbt.inputs[i].witness_script = None;
            }
            set_spk(psbt, s.to_p2sh());
        }
        "utxo-spk=foreign" => {
            let d = definite_desc(w, rng);
            set_spk(psbt, d.script_pubkey());
        }
        "utxo-spk=p2pk/p2pkh-garbage" => {
            let spk = match rng.below(5) {
                0 => [vec![0x21], gen::random_bytes(rng, 33).into_iter().chain(std::iter::repeat(2)).take(33).collect(), vec![0xac]].concat(),
                1 => [vec![0x41], vec![4u8; 65], vec![0xac]].concat(),
                2 => [vec![0x76, 0xa9, 0x14], vec![9u8; 20], vec![0x88, 0xac]].concat(),
                3 => [vec![0x00, 0x14], vec![9u8; 20]].concat(),
                _ => rand_script(w, rng).into_bytes(),
            };
            set_spk(psbt, ScriptBuf::from_bytes(spk));
            if rng.chance(1, 2) {
                psbt.inputs[i].witness_script = None;
                psbt.inputs[i].redeem_script = None;
            }
        }
        "non_witness_utxo-vout-out-of-range" => {
            let inp = &mut psbt.inputs[i];
            let spk = inp.witness_utxo.as_ref().map(|u| u.script_pubkey.clone()).unwrap_or_default();
            let t = prev_tx(&spk, 0, 1, 5);
            psbt.unsigned_tx.input[i].previous_output = OutPoint { txid: t.compute_txid(), vout: 1 + rng.below(3) as u32 * 1000 };
            inp.non_witness_utxo = Some(t);
            if rng.chance(1, 2) {
                inp.witness_utxo = None;
            }
        }
        "non_witness_utxo-wrong-txid" => {
            let spk = ScriptBuf::from_bytes(vec![0x51]);
            psbt.inputs[i].non_witness_utxo = Some(prev_tx(&spk, 0, 2, 77));
            if rng.chance(1, 2) {
                psbt.inputs[i].witness_utxo = None;
            }
        }
        "no-utxo" => {
            psbt.inputs[i].witness_utxo = None;
            psbt.inputs[i].non_witness_utxo = None;
        }
        "both-utxos-inconsistent" => {
            let spk = definite_desc(w, rng).script_pubkey();
            psbt.inputs[i].witness_utxo = Some(TxOut { value: Amount::from_sat(1), script_pubkey: spk });
            if psbt.inputs[i].non_witness_utxo.is_none() {
                let t = prev_tx(&ScriptBuf::new(), 0, 1, 3);
                psbt.unsigned_tx.input[i].previous_output = OutPoint { txid: t.compute_txid(), vout: 0 };
                psbt.inputs[i].non_witness_utxo = Some(t);
            }
        }
        "final-fields-garbage" => {
            if rng.chance(2, 3) {
                psbt.inputs[i].final_script_sig = Some(rand_script(w, rng));
            }
            if rng.chance(2, 3) {
                let n = rng.below(5);
                let v: Vec<Vec<u8>> = (0..n).map(|_| rand_wit_elem(w, rng)).collect();
                psbt.inputs[i].final_script_witness = Some(Witness::from_slice(&v));
            }
            if rng.chance(1, 2) {
                for k in 0..psbt.inputs.len() {
                    if psbt.inputs[k].final_script_witness.is_none() {
                        psbt.inputs[k].final_script_witness = Some(Witness::from_slice(&[vec![1u8]]));
                    }
                }
            }
        }
        "tap-internal-key-random" => {
            psbt.inputs[i].tap_internal_key = Some(w.w.pks[rng.below(6) as usize].inner.x_only_public_key().0);
        }
        "tap-merkle-root-random" => {
            psbt.inputs[i].tap_merkle_root = Some(bitcoin::taproot::TapNodeHash::from_byte_array([rng.next() as u8; 32]));
        }
        "tap-scripts-garbage" => {
            let s = rand_script(w, rng);
            let internal = w.w.pks[rng.below(6) as usize].inner.x_only_public_key().0;
            if let Some(info) = TaprootBuilder::new().add_leaf(0, s.clone()).ok().and_then(|b| b.finalize(&w.secp, internal).ok()) {
                if let Some(cb) = info.control_block(&(s.clone(), LeafVersion::TapScript)) {
                    let script = if rng.chance(1, 2) { s.clone() } else { rand_script(w, rng) };
                    let ver = if rng.chance(3, 4) { LeafVersion::TapScript } else { LeafVersion::from_consensus(0xc2).unwrap_or(LeafVersion::TapScript) };
                    psbt.inputs[i].tap_scripts.insert(cb, (script, ver));
                }
                if rng.chance(1, 2) {
                    psbt.inputs[i].tap_internal_key = Some(internal);
                    psbt.inputs[i].tap_merkle_root = info.merkle_root();
                    set_spk(psbt, ScriptBuf::new_p2tr_tweaked(info.output_key()));
                }
            }
        }
        "tap-script-sigs-garbage" => {
            let x = w.w.pks[rng.below(6) as usize].inner.x_only_public_key().0;
            let lh = bitcoin::TapLeafHash::from_byte_array([rng.next() as u8; 32]);
            psbt.inputs[i].tap_script_sigs.insert((x, lh), ds.schnorr());
        }
        "tap-key-sig" => {
            let mut s = ds.schnorr();
            if rng.chance(1, 2) {
                s.sighash_type = bitcoin::TapSighashType::SinglePlusAnyoneCanPay;
            }
            psbt.inputs[i].tap_key_sig = Some(s);
        }
        "sighash-type-odd" => {
            let v = *pick(rng, &[0u32, 1, 2, 3, 0x80, 0x81, 0x82, 0x83, 0x84, 4, 0xff, 0xffff_ffff, 0x100]);
            psbt.inputs[i].sighash_type = Some(bitcoin::psbt::PsbtSighashType::from_u32(v));
        }
        "partial-sigs-foreign" => {
            let p = w.w.pks[rng.below(8) as usize];
            let mut s = ds.ecdsa();
            if rng.chance(1, 2) {
                s.sighash_type = bitcoin::EcdsaSighashType::NonePlusAnyoneCanPay;
            }
            psbt.inputs[i].partial_sigs.insert(p, s);
            if rng.chance(1, 3) {
                psbt.inputs[i].partial_sigs.clear();
            }
        }
        "preimage-wrong" => {
            let j = rng.below(4) as usize;
            let val = match rng.below(3) {
                0 => vec![],
                1 => vec![7u8; 33],
                _ => vec![7u8; 32],
            };
            psbt.inputs[i].sha256_preimages.insert(w.w.sha256_img(j), val.clone());
            psbt.inputs[i].hash160_preimages.insert(w.w.hash160_img(j), val.clone());
            psbt.inputs[i].ripemd160_preimages.insert(w.w.ripemd160_img(j), val.clone());
            psbt.inputs[i].hash256_preimages.insert(bitcoin::hashes::sha256d::Hash::hash(&w.w.preimages[j]), val);
        }
        "locktime-sequence" => {
            psbt.unsigned_tx.lock_time = absolute::LockTime::from_consensus(*pick(rng, &[0u32, 1, 499_999_999, 500_000_000, 0xffff_ffff]));
            psbt.unsigned_tx.input[i].sequence = Sequence::from_consensus(*pick(rng, &[0u32, 1, 0xffff, 0x40_0001, 0x8000_0000, 0xffff_fffe, 0xffff_ffff]));
            psbt.unsigned_tx.version = bitcoin::transaction::Version(*pick(rng, &[0i32, 1, 2, 3, -1]));
        }
        "unknown-fields" => {
            psbt.inputs[i].unknown.insert(bitcoin::psbt::raw::Key { type_value: 0xf0, key: gen::random_bytes(rng, 8) }, gen::random_bytes(rng, 40));
            psbt.inputs[i].proprietary.insert(
                bitcoin::psbt::raw::ProprietaryKey { prefix: b"verif".to_vec(), subtype: 1, key: gen::random_bytes(rng, 4) },
                gen::random_bytes(rng, 10),
            );
        }
        "scripts-swapped" => {
            let inp = &mut psbt.inputs[i];
            std::mem::swap(&mut inp.witness_script, &mut inp.redeem_script);
        }
        "p2tr-utxo-on-non-tr" => {
            let x = w.w.pks[rng.below(6) as usize].inner.x_only_public_key().0;
            set_spk(psbt, ScriptBuf::new_p2tr(&w.secp, x, None));
        }
        "clear-scripts" => {
            let inp = &mut psbt.inputs[i];
            inp.witness_script = None;
            inp.redeem_script = None;
            inp.tap_scripts.clear();
            inp.tap_internal_key = None;
        }
        _ => {}
    }
    which
}

/// PSBT with one taproot (or p2wsh) input whose leaf / witness script nests deep through one
/// child position, with the signature the finalizer needs
fn deep_psbt(w: &RWorld, shape: usize, depth: usize, tap: bool) -> Option<(Vec<u8>, &'static str)> {
    let ds = DummySat { w, keys: !0, pre: !0, lt: 0, seq: 0, big: vec![] };
    let (sc, label) = deep_script(w, if tap { 3 } else { 2 }, shape, depth);
    let script = ScriptBuf::from_bytes(sc);
    let mut inp = bitcoin::psbt::Input::default();
    let spk = if tap {
        let internal = w.w.pks[1].inner.x_only_public_key().0;
        let info = TaprootBuilder::new().add_leaf(0, script.clone()).ok()?.finalize(&w.secp, internal).ok()?;
        let cb = info.control_block(&(script.clone(), LeafVersion::TapScript))?;
        inp.tap_scripts.insert(cb, (script.clone(), LeafVersion::TapScript));
        inp.tap_internal_key = Some(internal);
        inp.tap_merkle_root = info.merkle_root();
        let lh = bitcoin::TapLeafHash::from_script(&script, LeafVersion::TapScript);
        inp.tap_script_sigs.insert((w.w.pks[0].inner.x_only_public_key().0, lh), ds.schnorr());
        ScriptBuf::new_p2tr_tweaked(info.output_key())
    } else {
        inp.witness_script = Some(script.clone());
        inp.partial_sigs.insert(w.w.pks[0], ds.ecdsa());
        script.to_p2wsh()
    };
    let prev = prev_tx(&spk, 0, 1, 9);
    inp.witness_utxo = Some(prev.output[0].clone());
    let tx = Transaction {
        version: bitcoin::transaction::Version::TWO,
        lock_time: absolute::LockTime::ZERO,
        input: vec![TxIn { previous_output: OutPoint { txid: prev.compute_txid(), vout: 0 }, script_sig: ScriptBuf::new(), sequence: Sequence::from_consensus(0xffff_fffd), witness: Witness::new() }],
        output: vec![TxOut { value: Amount::from_sat(1000), script_pubkey: ScriptBuf::from_bytes(vec![0x51]) }],
    };
    let mut psbt = Psbt::from_unsigned_tx(tx).ok()?;
    psbt.inputs[0] = inp;
    Some((psbt.serialize(), label))
}

pub const N_PSBT_DEEP: u64 = 14;

/// Script fragments around a key hash: `form` 0 = c:pk_h alone, 1 = and_v(v:pkh(U), pk(K0)),
/// 2 = or_d(pk(K0), pkh(U)), 3 = and_v(v:pk(K0), pkh(U))
pub fn pkh_script(w: &RWorld, u: usize, form: usize) -> Vec<u8> {
    let h = w.w.pks[u].pubkey_hash().to_raw_hash();
    let pkh: Vec<u8> = [&[0x76u8, 0xa9, 0x14][..], h.as_ref(), &[0x88, 0xac]].concat();
    let pkhv: Vec<u8> = [&[0x76u8, 0xa9, 0x14][..], h.as_ref(), &[0x88, 0xad]].concat();
    let k0 = w.w.key_bytes(0, false);
    let pk0: Vec<u8> = [&[k0.len() as u8][..], &k0, &[0xac]].concat();
    let pk0v: Vec<u8> = [&[k0.len() as u8][..], &k0, &[0xad]].concat();
    match form {
        0 => pkh,
        1 => [pkhv, pk0].concat(),
        2 => [pk0, vec![0x73, 0x64], pkh, vec![0x68]].concat(),
        _ => [pk0v, pkh].concat(),
    }
}

/// DIRECTED class (found by the thorough tier, /repo 8a94baa9): a wsh / sh(wsh) (or sh) input
/// whose script holds a raw key hash that partial_sigs resolves to an UNCOMPRESSED key
fn pkh_psbt(w: &RWorld, u: usize, form: usize, wrap: usize, in_bip32: bool) -> Option<Vec<u8>> {
    let ds = DummySat { w, keys: !0, pre: !0, lt: 0, seq: 0, big: vec![] };
    let script = ScriptBuf::from_bytes(pkh_script(w, u, form));
    let mut inp = bitcoin::psbt::Input::default();
    let spk = match wrap {
        0 => {
            inp.witness_script = Some(script.clone());
            script.to_p2wsh()
        }
        1 => {
            inp.witness_script = Some(script.clone());
            inp.redeem_script = Some(script.to_p2wsh());
            script.to_p2wsh().to_p2sh()
        }
        _ => {
            inp.redeem_script = Some(script.clone());
            script.to_p2sh()
        }
    };
    inp.partial_sigs.insert(w.w.pks[u], ds.ecdsa());
    inp.partial_sigs.insert(w.w.pks[0], ds.ecdsa());
    if in_bip32 {
        inp.bip32_derivation.insert(w.w.pks[u].inner, (bitcoin::bip32::Fingerprint::from([1, 2, 3, 4]), bitcoin::bip32::DerivationPath::from_str("m/0").unwrap()));
    }
    let prev = prev_tx(&spk, 0, 1, 11);
    inp.witness_utxo = Some(prev.output[0].clone());
    inp.non_witness_utxo = Some(prev.clone());
    let tx = Transaction {
        version: bitcoin::transaction::Version::TWO,
        lock_time: absolute::LockTime::ZERO,
        input: vec![TxIn { previous_output: OutPoint { txid: prev.compute_txid(), vout: 0 }, script_sig: ScriptBuf::new(), sequence: Sequence::from_consensus(0xffff_fffd), witness: Witness::new() }],
        output: vec![TxOut { value: Amount::from_sat(1000), script_pubkey: ScriptBuf::from_bytes(vec![0x51]) }],
    };
    let mut psbt = Psbt::from_unsigned_tx(tx).ok()?;
    psbt.inputs[0] = inp;
    Some(psbt.serialize())
}

/// DIRECTED class (independent tester's finding): p2wsh input, witness script = the encoding of a
/// SAT_RAWPKH_SHAPES script (the raw key hash is of no key the input knows), signatures per mask
fn rawpkh_psbt(w: &RWorld, shape: usize, mask: u32) -> Option<Vec<u8>> {
    let ds = DummySat { w, keys: !0, pre: !0, lt: 0, seq: 0, big: vec![] };
    let text = sat_rawpkh_text(w, SAT_RAWPKH_SHAPES[shape], false);
    let ms = Miniscript::<bitcoin::PublicKey, Segwitv0>::from_str_with_validation_params(&text, &Segwitv0::CONSENSUS).ok()?;
    let script = ms.encode();
    let mut inp = bitcoin::psbt::Input::default();
    inp.witness_script = Some(script.clone());
    let spk = script.to_p2wsh();
    for i in 0..4 {
        if mask & (1 << i) != 0 {
            inp.partial_sigs.insert(w.w.pks[i], ds.ecdsa());
        }
    }
    let prev = prev_tx(&spk, 0, 1, 12);
    inp.witness_utxo = Some(prev.output[0].clone());
    inp.non_witness_utxo = Some(prev.clone());
    let tx = Transaction {
        version: bitcoin::transaction::Version::TWO,
        lock_time: absolute::LockTime::ZERO,
        input: vec![TxIn { previous_output: OutPoint { txid: prev.compute_txid(), vout: 0 }, script_sig: ScriptBuf::new(), sequence: Sequence::from_consensus(0xffff_fffd), witness: Witness::new() }],
        output: vec![TxOut { value: Amount::from_sat(1000), script_pubkey: ScriptBuf::from_bytes(vec![0x51]) }],
    };
    let mut psbt = Psbt::from_unsigned_tx(tx).ok()?;
    psbt.inputs[0] = inp;
    Some(psbt.serialize())
}

/// one-input PSBT spending p2wsh(script) / p2tr(leaf = script) whose input is ALREADY finalized
/// with `stack ++ [script (, control block)]`: PsbtExt::extract interprets it
fn short_psbt(w: &RWorld, sc: &[u8], stack: Vec<Vec<u8>>, tap: bool) -> Option<Vec<u8>> {
    let script = ScriptBuf::from_bytes(sc.to_vec());
    let mut inp = bitcoin::psbt::Input::default();
    let mut wit = stack;
    let spk = if tap {
        let internal = w.w.pks[1].inner.x_only_public_key().0;
        let info = TaprootBuilder::new().add_leaf(0, script.clone()).ok()?.finalize(&w.secp, internal).ok()?;
        let cb = info.control_block(&(script.clone(), LeafVersion::TapScript))?;
        wit.push(sc.to_vec());
        wit.push(cb.serialize());
        inp.tap_scripts.insert(cb, (script.clone(), LeafVersion::TapScript));
        inp.tap_internal_key = Some(internal);
        ScriptBuf::new_p2tr_tweaked(info.output_key())
    } else {
        wit.push(sc.to_vec());
        inp.witness_script = Some(script.clone());
        script.to_p2wsh()
    };
    inp.final_script_witness = Some(Witness::from_slice(&wit));
    let prev = prev_tx(&spk, 0, 1, 13);
    inp.witness_utxo = Some(prev.output[0].clone());
    let tx = Transaction {
        version: bitcoin::transaction::Version::TWO,
        lock_time: absolute::LockTime::ZERO,
        input: vec![TxIn { previous_output: OutPoint { txid: prev.compute_txid(), vout: 0 }, script_sig: ScriptBuf::new(), sequence: Sequence::from_consensus(0xffff_fffd), witness: Witness::new() }],
        output: vec![TxOut { value: Amount::from_sat(1000), script_pubkey: ScriptBuf::from_bytes(vec![0x51]) }],
    };
    let mut psbt = Psbt::from_unsigned_tx(tx).ok()?;
    psbt.inputs[0] = inp;
    Some(psbt.serialize())
}

/// one unfinalized input spending p2wsh(script) / p2tr(leaf = script), with signatures of the world's keys
fn script_psbt(w: &RWorld, sc: &[u8], tap: bool) -> Option<Vec<u8>> {
    let ds = DummySat { w, keys: !0, pre: !0, lt: 0, seq: 0, big: vec![] };
    let script = ScriptBuf::from_bytes(sc.to_vec());
    let mut inp = bitcoin::psbt::Input::default();
    let spk = if tap {
        let internal = w.w.pks[1].inner.x_only_public_key().0;
        let info = TaprootBuilder::new().add_leaf(0, script.clone()).ok()?.finalize(&w.secp, internal).ok()?;
        let cb = info.control_block(&(script.clone(), LeafVersion::TapScript))?;
        inp.tap_scripts.insert(cb, (script.clone(), LeafVersion::TapScript));
        inp.tap_internal_key = Some(internal);
        inp.tap_merkle_root = info.merkle_root();
        let lh = bitcoin::TapLeafHash::from_script(&script, LeafVersion::TapScript);
        for i in 0..3 {
            inp.tap_script_sigs.insert((w.w.pks[i].inner.x_only_public_key().0, lh), ds.schnorr());
        }
        ScriptBuf::new_p2tr_tweaked(info.output_key())
    } else {
        inp.witness_script = Some(script.clone());
        for i in 0..3 {
            inp.partial_sigs.insert(w.w.pks[i], ds.ecdsa());
        }
        script.to_p2wsh()
    };
    let prev = prev_tx(&spk, 0, 1, 17);
    inp.witness_utxo = Some(prev.output[0].clone());
    let tx = Transaction {
        version: bitcoin::transaction::Version::TWO,
        lock_time: absolute::LockTime::ZERO,
        input: vec![TxIn { previous_output: OutPoint { txid: prev.compute_txid(), vout: 0 }, script_sig: ScriptBuf::new(), sequence: Sequence::from_consensus(0xffff_fffd), witness: Witness::new() }],
        output: vec![TxOut { value: Amount::from_sat(1000), script_pubkey: ScriptBuf::from_bytes(vec![0x51]) }],
    };
    let mut psbt = Psbt::from_unsigned_tx(tx).ok()?;
    psbt.inputs[0] = inp;
    Some(psbt.serialize())
}

/// DIRECTED class (seeded change C11-9 was missed): and_v(v:pk(K0),<hash>(image of preimage 0)) as
/// witness script / tap leaf, with a `*_preimages` record stored under exactly that image whose VALUE
/// has length 0, 1, 31, 32, 33, 64 (the script commits to the hash of that value), or 32 under another image; with and without the signatures.
pub const N_PSBT_HASHPRE: u64 = 4 * 7 * 2 * 2;
fn hashpre_psbt(w: &RWorld, j: usize) -> Option<Vec<u8>> {
    use bitcoin::hashes::Hash as _;
    let (hk, vk, tap, sigs) = (j % 4, (j / 4) % 7, (j / 28) % 2 == 1, (j / 56) % 2 == 0);
    let pre = w.w.preimages[0];
    // rust-bitcoin's deserialiser demands hash(value) == key for every preimage record, so the record is
    // stored under the hash of the (short / long) VALUE and the script commits to exactly that hash;
    // vk = 4: a well-formed record for ANOTHER image, the script's own image has no record
    let val: Vec<u8> = match vk {
        0 => vec![],
        1 => vec![7],
        2 => pre[..31].to_vec(),
        3 => pre.to_vec(),
        4 => vec![0x55; 32],
        5 => [&pre[..], &[0u8][..]].concat(),
        _ => [&pre[..], &pre[..]].concat(),
    };
    let committed: &[u8] = if vk == 4 { &pre[..] } else { &val[..] };
    let img: Vec<u8> = match hk {
        0 => bitcoin::hashes::sha256::Hash::hash(committed).to_byte_array().to_vec(),
        1 => bitcoin::hashes::sha256d::Hash::hash(committed).to_byte_array().to_vec(),
        2 => bitcoin::hashes::hash160::Hash::hash(committed).to_byte_array().to_vec(),
        _ => bitcoin::hashes::ripemd160::Hash::hash(committed).to_byte_array().to_vec(),
    };
    let op = [0xa8u8, 0xaa, 0xa9, 0xa6][hk];
    let k = w.w.key_bytes(0, tap);
    let sc: Vec<u8> = [&[k.len() as u8][..], &k, &[0xad, 0x82, 0x01, 0x20, 0x88, op, img.len() as u8], &img, &[0x87]].concat();
    let mut psbt = Psbt::deserialize(&script_psbt(w, &sc, tap)?).ok()?;
    let inp = &mut psbt.inputs[0];
    if !sigs {
        inp.partial_sigs.clear();
        inp.tap_script_sigs.clear();
    }
    match hk {
        0 => { inp.sha256_preimages.insert(bitcoin::hashes::sha256::Hash::hash(&val), val); }
        1 => { inp.hash256_preimages.insert(bitcoin::hashes::sha256d::Hash::hash(&val), val); }
        2 => { inp.hash160_preimages.insert(bitcoin::hashes::hash160::Hash::hash(&val), val); }
        _ => { inp.ripemd160_preimages.insert(bitcoin::hashes::ripemd160::Hash::hash(&val), val); }
    }
    Some(psbt.serialize())
}

pub const N_PSBT_PKH: u64 = 2 * 4 * 3 * 2; // uncompressed key x script form x wrapping x in bip32_derivation?
/// the minimised PSBT of the thorough-tier finding (regen 1:92935), kept as a regression input
const CORPUS_PKLEN: &str = include_str!("corpus_psbt_pklen.hex");

pub fn g_psbt(w: &RWorld, rng: &mut Rng, _idx: u64) -> (Input, &'static str) {
    // finalized inputs with SHORT witnesses (extract runs the interpreter over them) and
    // unfinalized ones the finalizer cannot satisfy, per directed script
    let short_base = N_PSBT_DEEP + N_PSBT_PKH + 1;
    let n_scripts = (w.directed[0].len() + w.directed[1].len()) as u64;
    if _idx >= short_base && _idx < short_base + n_scripts * 14 {
        let j = _idx - short_base;
        let (si, r) = ((j / 14) as usize, (j % 14) as usize);
        // homogeneous stacks: empties of length 0..6, then 01 / junk / sig of length 1..2 ... via short_case's table
        let rr = if r < 7 { 121 + r * 6 } else { 85 + (r - 7) };
        let (sc, stack, kind) = short_case(w, si, rr, 0xffff_fffd, 0);
        if let Some(b) = short_psbt(w, &sc, stack, kind == 4) {
            return (Input::Psbt { psbt: b, idx: 0, desc: String::new() }, "short-final-witness");
        }
    }
    // large counts in front of NUMEQUAL / CHECKMULTISIG / EQUAL as tap leaf / witness script of an
    // unfinalized input (the finalizer decodes them)
    let num_base = short_base + n_scripts * 14;
    if _idx >= num_base && _idx < num_base + 2 * N_NUM_SCRIPTS as u64 {
        let j = (_idx - num_base) as usize;
        let tap = j / N_NUM_SCRIPTS == 1;
        let (sc, label) = num_script(w, if tap { 3 } else { 2 }, j % N_NUM_SCRIPTS);
        if let Some(b) = script_psbt(w, &sc, tap) {
            return (Input::Psbt { psbt: b, idx: 0, desc: String::new() }, label);
        }
    }
    // a p2wsh input whose witness script decodes with a raw key hash NO field of the input resolves,
    // next to and_v(v:pk(A),pk(B)) under or_i, as the `d` child of or_d / or_c / or_b / thresh / andor;
    // partial_sigs per mask (see SAT_RAWPKH_SHAPES)
    let rp_base = num_base + 2 * N_NUM_SCRIPTS as u64;
    let n_rp = (SAT_RAWPKH_SHAPES.len() * SAT_RAWPKH_MASKS.len()) as u64;
    if _idx >= rp_base && _idx < rp_base + n_rp {
        let j = (_idx - rp_base) as usize;
        if let Some(b) = rawpkh_psbt(w, j % SAT_RAWPKH_SHAPES.len(), SAT_RAWPKH_MASKS[j / SAT_RAWPKH_SHAPES.len()]) {
            return (Input::Psbt { psbt: b, idx: 0, desc: String::new() }, "rawpkh-unresolved-under-d-child");
        }
    }
    let hp_base = rp_base + n_rp;
    if _idx >= hp_base && _idx < hp_base + N_PSBT_HASHPRE {
        if let Some(b) = hashpre_psbt(w, (_idx - hp_base) as usize) {
            return (Input::Psbt { psbt: b, idx: 0, desc: String::new() }, "preimage-record-length");
        }
    }
    if _idx == N_PSBT_DEEP {
        if let Some(b) = gen::unhex(CORPUS_PKLEN.trim()) {
            return (Input::Psbt { psbt: b, idx: usize::MAX, desc: String::new() }, "corpus-raw-pkh-uncompressed");
        }
    }
    if _idx > N_PSBT_DEEP && _idx <= N_PSBT_DEEP + N_PSBT_PKH {
        let j = (_idx - N_PSBT_DEEP - 1) as usize;
        let (u, form, wrap, bip) = (6 + j % 2, (j / 2) % 4, (j / 8) % 3, j / 24 == 1);
        if let Some(b) = pkh_psbt(w, u, form, wrap, bip) {
            return (Input::Psbt { psbt: b, idx: 0, desc: String::new() }, "raw-pkh-uncompressed-key");
        }
    }
    if _idx < N_PSBT_DEEP {
        // (shape, depth, taproot?) : IF-bearing shapes, the pk-cored andor chain is finalizable
        let table: [(usize, usize, bool); 14] = [
            (3, 403, true), (3, 1_000, true), (3, 10_000, true), (3, 50_000, true), (2, 1_000, true), (2, 10_000, true),
            (0, 1_000, true), (1, 1_000, true), (13, 1_000, true), (12, 1_000, true), (11, 1_000, true), (18, 1_000, true),
            (2, 403, false), (2, 1_000, false),
        ];
        let (shape, depth, tap) = table[_idx as usize];
        if let Some((bytes, label)) = deep_psbt(w, shape, depth, tap) {
            return (Input::Psbt { psbt: bytes, idx: 0, desc: String::new() }, label);
        }
    }
    let n_in = 1 + rng.below(3) as usize;
    let n_out = 1 + rng.below(2) as usize;
    let mut descs = Vec::new();
    let mut prevs = Vec::new();
    let mut txins = Vec::new();
    for k in 0..n_in {
        let d = definite_desc(w, rng);
        let n_prev_out = 1 + rng.below(3) as u32;
        let vout = rng.below(n_prev_out as u64) as u32;
        let p = prev_tx(&d.script_pubkey(), vout, n_prev_out, k as u32);
        txins.push(TxIn { previous_output: OutPoint { txid: p.compute_txid(), vout }, script_sig: ScriptBuf::new(), sequence: Sequence::from_consensus(0xffff_fffd), witness: Witness::new() });
        descs.push(d);
        prevs.push((p, vout));
    }
    let outs: Vec<TxOut> = (0..n_out).map(|k| TxOut { value: Amount::from_sat(1000 + k as u64), script_pubkey: definite_desc(w, rng).script_pubkey() }).collect();
    let tx = Transaction { version: bitcoin::transaction::Version::TWO, lock_time: absolute::LockTime::ZERO, input: txins, output: outs };
    let mut psbt = match Psbt::from_unsigned_tx(tx) {
        Ok(p) => p,
        Err(_) => return (Input::Psbt { psbt: vec![], idx: 0, desc: String::new() }, "gen-failed"),
    };
    for k in 0..n_in {
        fill_input(w, rng, &mut psbt, k, &descs[k], &prevs[k].0, prevs[k].1);
    }
    let good = psbt.serialize();
    let target = rng.below(n_in as u64) as usize;
    let n_mut = match rng.below(8) {
        0 => 0,
        1..=4 => 1,
        5 | 6 => 2,
        _ => 4,
    };
    let mut label = "valid";
    for _ in 0..n_mut {
        let t = if rng.chance(3, 4) { target } else { rng.below(n_in as u64) as usize };
        label = mutate_psbt(w, rng, &mut psbt, t);
    }
    if n_mut > 1 {
        label = "mut-many";
    }
    let bytes = psbt.serialize();
    let bytes = if Psbt::deserialize(&bytes).is_ok() { bytes } else { label = "valid(mutation-not-serializable)"; good };
    let idx = match rng.below(10) {
        0 => n_in,
        1 => usize::MAX,
        2 => n_in + 1000,
        _ => target,
    };
    let desc = match rng.below(4) {
        0 => definite_desc(w, rng).to_string(),
        _ => descs[target].to_string(),
    };
    (Input::Psbt { psbt: bytes, idx, desc }, label)
}

/// structural shrinking: clear one optional field of one input at a time / drop inputs, outputs
pub fn psbt_shrink(bytes: &[u8]) -> Vec<Vec<u8>> {
    let p = match Psbt::deserialize(bytes) {
        Ok(p) => p,
        Err(_) => return vec![],
    };
    let mut out: Vec<Vec<u8>> = Vec::new();
    let mut push = |q: Psbt| {
        let b = q.serialize();
        if b.len() < bytes.len() && Psbt::deserialize(&b).is_ok() {
            out.push(b);
        }
    };
    if p.inputs.len() > 1 {
        for k in 0..p.inputs.len() {
            let mut q = p.clone();
            q.inputs.remove(k);
            q.unsigned_tx.input.remove(k);
            push(q);
        }
    }
    if p.outputs.len() > 1 {
        let mut q = p.clone();
        q.outputs.pop();
        q.unsigned_tx.output.pop();
        push(q);
    }
    for k in 0..p.inputs.len() {
        macro_rules! clr {
            ($f:ident, $v:expr) => {{
                let mut q = p.clone();
                q.inputs[k].$f = $v;
                push(q);
            }};
        }
        clr!(non_witness_utxo, None);
        clr!(witness_utxo, None);
        clr!(partial_sigs, Default::default());
        clr!(sighash_type, None);
        clr!(redeem_script, None);
        clr!(witness_script, None);
        clr!(bip32_derivation, Default::default());
        clr!(final_script_sig, None);
        clr!(final_script_witness, None);
        clr!(ripemd160_preimages, Default::default());
        clr!(sha256_preimages, Default::default());
        clr!(hash160_preimages, Default::default());
        clr!(hash256_preimages, Default::default());
        clr!(tap_key_sig, None);
        clr!(tap_script_sigs, Default::default());
        clr!(tap_scripts, Default::default());
        clr!(tap_key_origins, Default::default());
        clr!(tap_internal_key, None);
        clr!(tap_merkle_root, None);
        clr!(proprietary, Default::default());
        clr!(unknown, Default::default());
        // shrink scripts
        if let Some(s) = p.inputs[k].witness_script.clone() {
            for c in gen::shrink_bytes(s.as_bytes()).into_iter().take(12) {
                let mut q = p.clone();
                q.inputs[k].witness_script = Some(ScriptBuf::from_bytes(c));
                push(q);
            }
        }
        if let Some(s) = p.inputs[k].redeem_script.clone() {
            for c in gen::shrink_bytes(s.as_bytes()).into_iter().take(12) {
                let mut q = p.clone();
                q.inputs[k].redeem_script = Some(ScriptBuf::from_bytes(c));
                push(q);
            }
        }
        if let Some(t) = p.inputs[k].non_witness_utxo.clone() {
            if t.output.len() > 1 {
                let mut q = p.clone();
                let mut t2 = t.clone();
                t2.output.pop();
                q.inputs[k].non_witness_utxo = Some(t2);
                push(q);
            }
        }
    }
    out
}

/// ORACLE without a crash: a finalized input carries the script the finalizer decoded; its IF
/// nesting (harness's own scan) bounds the depth of that miniscript from below
fn finalized_depth_oracle(p: &Psbt) {
    for inp in p.inputs.iter() {
        if let Some(wit) = inp.final_script_witness.as_ref() {
            for e in wit.iter() {
                let d = if_depth(e);
                if d > super::DEPTH_LIMIT {
                    panic!("VERIF-ORACLE depth guard bypassed: the PSBT finalizer accepted a script whose IF nesting is {} deep, limit {}", d, super::DEPTH_LIMIT);
                }
            }
        }
    }
}

pub fn run_psbt(w: &RWorld, i: &Input) -> Obs {
    let (bytes, idx, desc) = match i {
        Input::Psbt { psbt, idx, desc } => (psbt, *idx, desc),
        _ => return Obs::na("input-kind"),
    };
    let psbt = match Psbt::deserialize(bytes) {
        Ok(p) => p,
        Err(_) => return Obs::na("not-a-structurally-valid-psbt"),
    };
    let secp = &w.secp;
    let n = psbt.inputs.len();
    let mut oks = 0;
    let mut tag = String::new();
    let mut note = |name: &str, ok: bool, e: String| {
        if ok {
            oks += 1;
        } else if tag.is_empty() {
            tag = format!("{}:{}", name, e);
        }
    };
    {
        let mut p = psbt.clone();
        let r = p.finalize_mut(secp);
        finalized_depth_oracle(&p);
        match r {
            Ok(()) => {
                note("finalize_mut", true, String::new());
                match p.extract(secp) {
                    Ok(_) => note("extract-after-finalize", true, String::new()),
                    Err(e) => note("extract-after-finalize", false, err_class(&e)),
                }
            }
            Err(es) => {
                let c = es.first().map(err_class).unwrap_or_default();
                for e in es.iter() {
                    let _ = err_class(e);
                }
                note("finalize_mut", false, c);
                // partially finalized: still extractable?
                if let Err(e) = p.extract(secp) {
                    let _ = err_class(&e);
                }
            }
        }
    }
    {
        let mut p = psbt.clone();
        match p.finalize_mall_mut(secp) {
            Ok(()) => note("finalize_mall_mut", true, String::new()),
            Err(es) => note("finalize_mall_mut", false, es.first().map(err_class).unwrap_or_default()),
        }
        finalized_depth_oracle(&p);
    }
    for k in [idx, 0, n.saturating_sub(1), n] {
        let mut p = psbt.clone();
        match p.finalize_inp_mut(secp, k) {
            Ok(()) => note("finalize_inp_mut", true, String::new()),
            Err(e) => note("finalize_inp_mut", false, err_class(&e)),
        }
        let mut p = psbt.clone();
        match p.finalize_inp_mall_mut(secp, k) {
            Ok(()) => note("finalize_inp_mall_mut", true, String::new()),
            Err(e) => note("finalize_inp_mall_mut", false, err_class(&e)),
        }
    }
    match psbt.clone().finalize(secp) {
        Ok(_) => {}
        Err((_, es)) => {
            for e in es.iter() {
                let _ = err_class(e);
            }
        }
    }
    if let Err((_, e)) = psbt.clone().finalize_inp(secp, idx) {
        let _ = err_class(&e);
    }
    match psbt.extract(secp) {
        Ok(_) => note("extract", true, String::new()),
        Err(e) => note("extract", false, err_class(&e)),
    }
    {
        let tx = psbt.unsigned_tx.clone();
        let mut cache = bitcoin::sighash::SighashCache::new(&tx);
        let lh = psbt.inputs.iter().flat_map(|i| i.tap_scripts.values()).next().map(|(s, v)| bitcoin::TapLeafHash::from_script(s, *v));
        for k in [idx, 0, n.saturating_sub(1), n] {
            for leaf in [None, lh, Some(bitcoin::TapLeafHash::from_byte_array([3; 32]))] {
                match psbt.sighash_msg(k, &mut cache, leaf) {
                    Ok(m) => {
                        let _ = m.to_secp_msg();
                        note("sighash_msg", true, String::new());
                    }
                    Err(e) => note("sighash_msg", false, err_class(&e)),
                }
            }
        }
    }
    if let Ok(d) = Descriptor::<DefiniteDescriptorKey>::from_str(desc) {
        for k in [idx, 0, n] {
            let mut p = psbt.clone();
            match p.update_input_with_descriptor(k, &d) {
                Ok(()) => {
                    note("update_input_with_descriptor", true, String::new());
                    // an updated input is what the finalizer sees next
                    let _ = p.finalize_mut(secp).map_err(|es| es.len());
                }
                Err(e) => note("update_input_with_descriptor", false, err_class(&e)),
            }
            let mut p = psbt.clone();
            match p.update_output_with_descriptor(k, &d) {
                Ok(()) => note("update_output_with_descriptor", true, String::new()),
                Err(e) => note("update_output_with_descriptor", false, err_class(&e)),
            }
        }
        let mut inp = psbt.inputs.first().cloned().unwrap_or_default();
        if let Err(e) = inp.update_with_descriptor_unchecked(&d) {
            let _ = err_class(&e);
        }
        let mut outp = bitcoin::psbt::Output::default();
        if let Err(e) = outp.update_with_descriptor_unchecked(&d) {
            let _ = err_class(&e);
        }
    }
    if oks > 0 {
        Obs::ok(format!("ok-ops~{}", if oks > 8 { 9 } else { oks }))
    } else {
        Obs::err(tag)
    }
}
