//! Entry points of the robustness engine (one `Class` per entry point of property C11)
//! with their generators. Text entry points live here, binary ones in `bin.rs`.
use super::gen::{self, Input};
use super::{err_class, Obs};
use crate::ast::{CtxInfo, Gen, Rng, World, B};
use bitcoin::bip32::{Xpriv, Xpub};
use bitcoin::secp256k1::{All, Secp256k1};
use miniscript::descriptor::{DescriptorSecretKey, WalletPolicy};
use miniscript::policy::{Concrete, Liftable, Semantic};
use miniscript::{
    BareCtx, DefiniteDescriptorKey, Descriptor, DescriptorPublicKey, Legacy, Miniscript, ScriptContext, Segwitv0, Tap,
    ValidationParams,
};
use std::str::FromStr;

#[path = "bin.rs"]
pub mod bin;
pub use bin::psbt_shrink;

pub struct Class {
    pub name: &'static str,
    /// the library entry point(s) exercised (free text for the evidence)
    pub entry: &'static str,
    pub quick: u64,
    pub thorough: u64,
    /// cases per child process
    pub chunk: u64,
    pub gen: fn(&RWorld, &mut Rng, u64) -> (Input, &'static str),
    pub run: fn(&RWorld, &Input) -> Obs,
}

pub fn class_by_name(n: &str) -> Option<&'static Class> { CLASSES.iter().find(|c| c.name == n) }

// ------------------------------------------------------------------ world
pub struct RWorld {
    pub w: World,
    pub secp: Secp256k1<All>,
    pub xprv: Vec<Xpriv>,
    pub xpub: Vec<Xpub>,
    pub fp: Vec<String>,
    /// valid texts per family
    pub ms: [Vec<String>; 4], // bare, legacy, segv0, tap
    pub desc: Vec<String>,
    pub concrete: Vec<String>,
    pub semantic: Vec<String>,
    pub dpk: Vec<String>,
    pub dsk: Vec<String>,
    pub ddk: Vec<String>,
    pub wpol: Vec<String>,
    /// directed scripts per fragment kind for the short / ragged witness class: (text, script bytes); [0] pre-taproot keys, [1] x-only keys
    pub directed: [Vec<(String, Vec<u8>)>; 2],
}

const CI: [CtxInfo; 4] = [
    CtxInfo { tap: false, legacy_like: true, n_keys: 8 },
    CtxInfo { tap: false, legacy_like: true, n_keys: 8 },
    CtxInfo { tap: false, legacy_like: false, n_keys: 6 },
    CtxInfo { tap: true, legacy_like: false, n_keys: 6 },
];

/// BIP380 descriptor checksum, written here so that valid checksums of arbitrary bodies can
/// be produced without asking the library.
pub fn bip380_checksum(s: &str) -> Option<String> {
    const INPUT: &str = "0123456789()[],'/*abcdefgh@:$%{}IJKLMNOPQRSTUVWXYZ&+-.;<=>?!^_|~ijklmnopqrstuvwxyzABCDEFGH`#\"\\ ";
    const CHK: &[u8] = b"qpzry9x8gf2tvdw0s3jn54khce6mua7l";
    fn polymod(mut c: u64, val: u64) -> u64 {
        let c0 = c >> 35;
        c = ((c & 0x7ffffffff) << 5) ^ val;
        for (i, g) in [0xf5dee51989u64, 0xa9fdca3312, 0x1bab10e32d, 0x3706b1677a, 0x644d626ffd].iter().enumerate() {
            if c0 & (1 << i) != 0 {
                c ^= g;
            }
        }
        c
    }
    let mut c = 1u64;
    let mut cls = 0u64;
    let mut clscount = 0;
    for ch in s.chars() {
        let pos = INPUT.find(ch)? as u64;
        c = polymod(c, pos & 31);
        cls = cls * 3 + (pos >> 5);
        clscount += 1;
        if clscount == 3 {
            c = polymod(c, cls);
            cls = 0;
            clscount = 0;
        }
    }
    if clscount > 0 {
        c = polymod(c, cls);
    }
    for _ in 0..8 {
        c = polymod(c, 0);
    }
    c ^= 1;
    Some((0..8).map(|j| CHK[((c >> (5 * (7 - j))) & 31) as usize] as char).collect())
}

impl RWorld {
    pub fn new() -> RWorld {
        let w = World::new();
        let secp = Secp256k1::new();
        let mut xprv = Vec::new();
        let mut xpub = Vec::new();
        let mut fp = Vec::new();
        for i in 0..4u8 {
            let seed = [i + 1; 32];
            let net = if i == 3 { bitcoin::Network::Testnet } else { bitcoin::Network::Bitcoin };
            let x = Xpriv::new_master(net, &seed).unwrap();
            let p = Xpub::from_priv(&secp, &x);
            fp.push(format!("{}", p.fingerprint()));
            xprv.push(x);
            xpub.push(p);
        }
        let mut rw = RWorld {
            w,
            secp,
            xprv,
            xpub,
            fp,
            ms: [vec![], vec![], vec![], vec![]],
            desc: vec![],
            concrete: vec![],
            semantic: vec![],
            dpk: vec![],
            dsk: vec![],
            ddk: vec![],
            wpol: vec![],
            directed: [vec![], vec![]],
        };
        rw.build_pools();
        rw.build_directed();
        rw
    }

    pub fn hexkey(&self, i: usize, tap: bool) -> String { format!("{}", self.w.key(i % 6, tap)) }

    fn build_pools(&mut self) {
        // keys
        let fp0 = self.fp[0].clone();
        for i in 0..6 {
            self.dpk.push(self.hexkey(i, false));
            self.dpk.push(self.hexkey(i, true));
            self.ddk.push(self.hexkey(i, false));
        }
        self.dpk.push(format!("{}", self.w.pks[6]));
        for (j, x) in self.xpub.iter().enumerate() {
            self.dpk.push(format!("{}", x));
            self.dpk.push(format!("{}/*", x));
            self.dpk.push(format!("{}/0/*", x));
            self.dpk.push(format!("{}/1'/2h/*h", x));
            self.dpk.push(format!("[{}/48'/0'/{}']{}/<0;1>/*", fp0, j, x));
            self.dpk.push(format!("[{}]{}/0/1/2", self.fp[j], x));
            self.dpk.push(format!("[{}/44h/0h]{}/<0;1;2>/9", fp0, x));
            self.ddk.push(format!("[{}/48'/0'/{}']{}/0/5", fp0, j, x));
            self.ddk.push(format!("{}", x));
        }
        self.dpk.push(format!("[{}/0'/1']{}", fp0, self.hexkey(0, false)));
        self.ddk.push(format!("[{}/0'/1']{}", fp0, self.hexkey(1, false)));
        for x in self.xprv.iter() {
            self.dsk.push(format!("{}", x));
            self.dsk.push(format!("{}/*", x));
            self.dsk.push(format!("[{}/48'/0']{}/<0;1>/*", fp0, x));
            self.dsk.push(format!("{}/0'/1h/*'", x));
        }
        for i in 0..4 {
            let sk = bitcoin::PrivateKey::new(self.w.sks[i], bitcoin::Network::Bitcoin);
            self.dsk.push(sk.to_wif());
            self.dsk.push(format!("[{}/1/2]{}", fp0, sk.to_wif()));
        }
        // miniscripts: type-directed generator, printed
        fn pool<Ctx: ScriptContext>(w: &World, ci: CtxInfo, n: u64, base: u64) -> Vec<String> {
            let mut v = Vec::new();
            for s in 0..n {
                let mut g = Gen::new(w, base + s * 7919, ci);
                g.dup_keys = s % 4 == 0;
                let depth = 1 + (s % 5) as u32;
                if let Some(m) = g.gen::<Ctx>(B::B, depth) {
                    let t = m.to_string();
                    if t.len() < 1200 {
                        v.push(t);
                    }
                }
            }
            v
        }
        self.ms[0] = pool::<BareCtx>(&self.w, CI[0], 40, 11);
        self.ms[1] = pool::<Legacy>(&self.w, CI[1], 60, 12);
        self.ms[2] = pool::<Segwitv0>(&self.w, CI[2], 100, 13);
        self.ms[3] = pool::<Tap>(&self.w, CI[3], 100, 14);
        // descriptors
        let k = |i: usize| self.hexkey(i, false);
        let x = |i: usize| self.hexkey(i, true);
        let mut d = vec![
            format!("pk({})", k(0)),
            format!("pkh({})", k(1)),
            format!("wpkh({})", k(2)),
            format!("sh(wpkh({}))", k(3)),
            format!("tr({})", x(0)),
            format!("wsh(multi(2,{},{},{}))", k(0), k(1), k(2)),
            format!("sh(sortedmulti(1,{},{}))", k(0), k(1)),
            format!("sh(wsh(sortedmulti(2,{},{})))", k(0), k(1)),
            format!("wsh(sortedmulti(2,{},{}))", k(3), k(1)),
            format!("tr({},pk({}))", x(0), x(1)),
            format!("tr({},{{pk({}),{{multi_a(2,{},{}),and_v(v:pk({}),older(10))}}}})", x(0), x(1), x(2), x(3), x(4)),
            format!("tr({},sortedmulti_a(2,{},{}))", x(0), x(1), x(2)),
            format!("wpkh({}/0/*)", self.xpub[0]),
            format!("wsh(multi(2,[{}/48'/0']{}/<0;1>/*,{}/<2;3>/*))", fp0, self.xpub[0], self.xpub[1]),
            format!("tr([{}/86'/0'/0']{}/0/*,pk({}/1/*))", fp0, self.xpub[0], self.xpub[1]),
            format!("pkh([{}/44'/0'/0']{}/1/*)", fp0, self.xpub[2]),
            format!("sh(wsh(and_v(v:pk({}/*),after(500000001))))", self.xpub[1]),
            format!("wsh(thresh(2,pk({}),s:pk({}),sln:older(144)))", k(0), k(1)),
            format!("wsh(or_d(pk({}),and_v(v:pkh({}),sha256({}))))", k(0), k(1), crate::ast::hex(self.w.sha256_img(0).as_ref())),
            format!("bare(multi(1,{},{}))", k(0), k(1)),
        ];
        for (i, m) in self.ms[2].iter().enumerate().take(40) {
            d.push(if i % 2 == 0 { format!("wsh({})", m) } else { format!("sh(wsh({}))", m) });
        }
        for m in self.ms[1].iter().take(20) {
            d.push(format!("sh({})", m));
        }
        for m in self.ms[0].iter().take(8) {
            d.push(m.clone());
        }
        for (i, m) in self.ms[3].iter().enumerate().take(40) {
            let m2 = &self.ms[3][(i * 3 + 1) % self.ms[3].len()];
            d.push(if i % 2 == 0 { format!("tr({},{})", x(i), m) } else { format!("tr({},{{{},{}}})", x(i), m, m2) });
        }
        self.desc = d;
        // policies
        let sh = crate::ast::hex(self.w.sha256_img(0).as_ref());
        let h160 = crate::ast::hex(self.w.hash160_img(1).as_ref());
        let mut prng = Rng(99);
        for i in 0..60 {
            let depth = 1 + (i % 4) as u32;
            let c = gen_policy(self, &mut prng, depth, true, &sh, &h160);
            self.concrete.push(c);
            let s = gen_policy(self, &mut prng, depth, false, &sh, &h160);
            self.semantic.push(s);
        }
        self.semantic.push("TRIVIAL".into());
        self.semantic.push("UNSATISFIABLE".into());
        self.concrete.push("TRIVIAL".into());
        self.concrete.push("UNSATISFIABLE".into());
        // wallet policies
        self.wpol = vec![
            "pkh(@0/**)".into(),
            "wpkh(@0/**)".into(),
            "sh(wpkh(@0/**))".into(),
            "tr(@0/**)".into(),
            "wsh(multi(2,@0/**,@1/**))".into(),
            "sh(sortedmulti(2,@0/**,@1/<2;3>/*))".into(),
            "wsh(thresh(2,pk(@0/**),s:pk(@1/**),sln:older(12960)))".into(),
            "tr(@0/**,{pk(@1/**),multi_a(1,@2/<0;1>/*,@3/**)})".into(),
            "tr(@0/<0;1>/*,and_v(v:pk(@0/<2;3>/*),sha256(b94d27b9934d3e08a52e52d7da7dabfac484efe37a5380ee9088f7ace2efcde9)))".into(),
            format!("wsh(multi(2,[{}/48'/0']{}/<0;1>/*,{}/<2;3>/*))", fp0, self.xpub[0], self.xpub[1]),
            format!("pkh([{}/44'/0'/0']{}/<0;1>/*)", fp0, self.xpub[2]),
        ];
    }

    /// one script per fragment kind (multisigs of every k, thresh, and_b / or_b chains, hash
    /// fragments, every wrapper, the or_* / andor family, time locks): what the short and ragged
    /// witnesses of the `interp` / `psbt` classes are run against
    fn build_directed(&mut self) {
        let h32 = crate::ast::hex(self.w.sha256_img(0).as_ref());
        let h256 = crate::ast::hex(self.w.hash256_img(0).as_ref());
        let h20 = crate::ast::hex(self.w.hash160_img(1).as_ref());
        let r20 = crate::ast::hex(self.w.ripemd160_img(1).as_ref());
        let common: &[&str] = &[
            "pk(A)", "pkh(A)", "and_b(pk(A),s:pk(B))", "and_b(and_b(pk(A),s:pk(B)),s:pk(C))", "or_b(pk(A),s:pk(B))",
            "or_b(or_b(pk(A),s:pk(B)),s:pk(C))", "thresh(1,pk(A),s:pk(B))", "thresh(2,pk(A),s:pk(B),s:pk(C))", "thresh(3,pk(A),s:pk(B),s:pk(C))",
            "sha256(H32)", "hash256(H256)", "ripemd160(R20)", "hash160(H20)", "and_b(sha256(H32),a:hash160(H20))", "or_b(sha256(H32),a:ripemd160(R20))",
            "thresh(1,sha256(H32),a:hash256(H256),a:hash160(H20))", "andor(pk(A),pk(B),pk(C))", "or_d(pk(A),pk(B))", "t:or_c(pk(A),v:pk(B))",
            "or_i(pk(A),pk(B))", "and_v(v:pk(A),pk(B))", "and_v(v:pk(A),older(1))", "and_v(v:pk(A),after(1))", "j:pk(A)", "n:pk(A)", "dv:older(1)",
            "and_b(pk(A),a:pk(B))", "and_b(pk(A),sdv:older(1))", "or_d(j:pk(A),pk(B))", "or_i(0,pk(A))", "andor(sha256(H32),pk(A),pkh(B))",
        ];
        let pre: &[&str] = &[
            "multi(1,A,B)", "multi(1,A,B,C)", "multi(2,A,B,C)", "multi(3,A,B,C)", "sortedmulti(2,A,B,C)", "multi(2,A,B)",
            "and_b(multi(1,A,B),a:multi(1,C,A))", "or_b(multi(2,A,B),a:multi(1,C,A))", "thresh(2,multi(1,A,B),a:multi(2,C,A),a:multi(1,B,C))",
            "andor(multi(1,A,B),pk(C),multi(2,A,C))", "or_d(multi(2,A,B,C),pk(A))", "t:or_c(multi(1,A,B),v:multi(1,C,A))", "or_i(multi(1,A,B),multi(2,A,B,C))",
            "and_v(v:multi(2,A,B),multi(1,C,A))", "j:multi(2,A,B)", "n:multi(1,A,B)", "and_b(n:multi(1,A,B),sj:multi(1,C,A))",
        ];
        let tap: &[&str] = &[
            "multi_a(1,A,B)", "multi_a(1,A,B,C)", "multi_a(2,A,B,C)", "multi_a(3,A,B,C)", "sortedmulti_a(2,A,B,C)",
            "and_b(multi_a(1,A,B),a:multi_a(1,C,A))", "or_b(multi_a(2,A,B),a:multi_a(1,C,A))", "thresh(2,multi_a(1,A,B),a:multi_a(2,C,A),a:multi_a(1,B,C))",
            "andor(multi_a(1,A,B),pk(C),multi_a(2,A,C))", "or_d(multi_a(2,A,B,C),pk(A))", "or_i(multi_a(1,A,B),multi_a(2,A,B,C))", "and_v(v:multi_a(2,A,B),multi_a(1,C,A))",
        ];
        let fill = |t: &str, tapk: bool| -> String {
            t.replace("H32", &h32).replace("H256", &h256).replace("H20", &h20).replace("R20", &r20)
                .replace('A', &self.hexkey(0, tapk)).replace('B', &self.hexkey(1, tapk)).replace('C', &self.hexkey(2, tapk))
        };
        let mut d0 = Vec::new();
        for t in common.iter().chain(pre.iter()) {
            let txt = fill(t, false);
            if let Ok(m) = Miniscript::<bitcoin::PublicKey, Segwitv0>::from_str_with_validation_params(&txt, &ValidationParams::MAX) {
                d0.push((t.to_string(), m.encode().into_bytes()));
            }
        }
        let mut d1 = Vec::new();
        for t in common.iter().chain(tap.iter()) {
            let txt = fill(t, true);
            if let Ok(m) = Miniscript::<bitcoin::key::XOnlyPublicKey, Tap>::from_str_with_validation_params(&txt, &ValidationParams::MAX) {
                d1.push((t.to_string(), m.encode().into_bytes()));
            }
        }
        self.directed = [d0, d1];
    }

    pub fn checksum(&self, body: &str) -> String { bip380_checksum(body).unwrap_or_else(|| "qqqqqqqq".into()) }

    pub fn any_valid_text(&self, rng: &mut Rng) -> String {
        let pools: [&Vec<String>; 9] =
            [&self.desc, &self.ms[2], &self.ms[3], &self.concrete, &self.semantic, &self.dpk, &self.dsk, &self.wpol, &self.ms[1]];
        let p = pools[rng.below(9) as usize];
        p[rng.below(p.len() as u64) as usize].clone()
    }
    pub fn some_key_text(&self, rng: &mut Rng) -> String {
        if rng.chance(1, 8) {
            self.damaged_key(rng)
        } else {
            self.dpk[rng.below(self.dpk.len() as u64) as usize].clone()
        }
    }
    pub fn damaged_key(&self, rng: &mut Rng) -> String {
        let k = self.hexkey(rng.below(6) as usize, false);
        let xo = self.hexkey(rng.below(6) as usize, true);
        let xp = format!("{}", self.xpub[rng.below(4) as usize]);
        let xv = format!("{}", self.xprv[rng.below(3) as usize]);
        let fp = &self.fp[0];
        let forms: Vec<String> = vec![
            k[..k.len() - 1].to_string(),
            format!("{}0", k),
            k.to_uppercase(),
            format!("02{}", "00".repeat(32)),
            format!("04{}", "11".repeat(64)),
            format!("05{}", &k[2..]),
            format!("\u{e9}{}", &k[2..]),
            format!("0\u{e9}{}", &k[3..]),
            format!("{}\u{e9}", &k[..64]),
            format!("{}\u{20ac}", &xo[..61]),
            "f".repeat(64),
            "0".repeat(64),
            format!("[{}/0'/1h/2H]{}", fp, k),
            format!("[{}]{}", fp, k),
            format!("[{}/]{}", fp, k),
            format!("[/0]{}", k),
            format!("[{}/0]{}", &fp[..7], k),
            format!("[{}0/0]{}", fp, k),
            format!("[{}/4294967296]{}", fp, k),
            format!("[{}/2147483648]{}", fp, k),
            format!("[{}/2147483647']{}", fp, k),
            format!("[{}/2147483648']{}", fp, k),
            format!("[[{}/0]{}", fp, k),
            format!("[{}/0]]{}", fp, k),
            format!("[{}/0]{}]", fp, k),
            format!("[{}/0{}", fp, k),
            format!("{}/0]{}", fp, k),
            format!("[{}/0][{}/1]{}", fp, fp, k),
            format!("[{}/*]{}", fp, xp),
            format!("[{}/<0;1>]{}", fp, xp),
            format!("[{}/0]", fp),
            format!("[\u{e9}eadbeef/0]{}", k),
            format!("[{}/0\u{e9}]{}", fp, k),
            xv.clone(),
            format!("{}/*", xv),
            format!("{}/*h", xp),
            format!("{}/*'", xp),
            format!("{}/**", xp),
            format!("{}/*/*", xp),
            format!("{}/*/0", xp),
            format!("{}/", xp),
            format!("{}//0", xp),
            format!("{}/0//1", xp),
            format!("{}/4294967296", xp),
            format!("{}/2147483648", xp),
            format!("{}/2147483647h", xp),
            format!("{}/-1", xp),
            format!("{}/0x1", xp),
            format!("{}/<0;1>/<2;3>/*", xp),
            format!("{}/<0;1>/*/<2;3>", xp),
            format!("{}/<0;1;2;3;4;5;6;7;8;9;10;11;12;13;14;15;16>/*", xp),
            format!("{}/<>", xp),
            format!("{}/<0>", xp),
            format!("{}/<0;0>/*", xp),
            format!("{}/<;>/*", xp),
            format!("{}/<0;1", xp),
            format!("{}/0;1>/*", xp),
            format!("{}/<0;<1;2>>/*", xp),
            format!("xpub{}", "1".repeat(107)),
            format!("xpub{}", &xp[5..]),
            format!("tpub{}", &xp[4..]),
            format!("{}{}", &xp[..50], "\u{e9}"),
            format!("xpu\u{e9}{}", &xp[5..]),
            format!("{}/0\u{e9}", xp),
            format!("xpub{}", "z".repeat(60)),
            "xpub".to_string(),
            "xprv".to_string(),
            format!("{}{}", xp, xp),
            format!("{}/{}", xp, "0/".repeat(300)),
            format!("{}{}", xp, "/0".repeat(256)),
            format!("{}{}", xp, "/0".repeat(255)),
            "@0/**".to_string(),
            "@0".to_string(),
            "@/**".to_string(),
            "@4294967296/**".to_string(),
            "@0/<0;1>/*".to_string(),
            "@0/<0;1>/**".to_string(),
            "@00/**".to_string(),
            "@-1/**".to_string(),
            "@0/***".to_string(),
            "@0/*".to_string(),
            "@0/<0;0>/*".to_string(),
            "@0/<1;0>/*".to_string(),
            "@0/<0;1;2>/*".to_string(),
            "@0/<2147483648;1>/*".to_string(),
            "@0/<0h;1h>/*".to_string(),
            "@18446744073709551616/**".to_string(),
            String::new(),
        ];
        forms[rng.below(forms.len() as u64) as usize].clone()
    }
}

/// random policy text; `conc` = concrete syntax (odds, and/or binary) else semantic
fn gen_policy(w: &RWorld, rng: &mut Rng, depth: u32, conc: bool, sh: &str, h160: &str) -> String {
    let leaf = |rng: &mut Rng| -> String {
        match rng.below(8) {
            0..=3 => format!("pk({})", w.hexkey(rng.below(6) as usize, false)),
            4 => format!("after({})", 1 + rng.below(1000)),
            5 => format!("older({})", 1 + rng.below(1000)),
            6 => format!("sha256({})", sh),
            _ => format!("hash160({})", h160),
        }
    };
    if depth == 0 {
        return leaf(rng);
    }
    match rng.below(6) {
        0 => leaf(rng),
        1 | 2 => format!("and({},{})", gen_policy(w, rng, depth - 1, conc, sh, h160), gen_policy(w, rng, depth - 1, conc, sh, h160)),
        3 => {
            if conc && rng.chance(1, 2) {
                format!(
                    "or({}@{},{}@{})",
                    1 + rng.below(99),
                    gen_policy(w, rng, depth - 1, conc, sh, h160),
                    1 + rng.below(99),
                    gen_policy(w, rng, depth - 1, conc, sh, h160)
                )
            } else {
                format!("or({},{})", gen_policy(w, rng, depth - 1, conc, sh, h160), gen_policy(w, rng, depth - 1, conc, sh, h160))
            }
        }
        _ => {
            let n = 1 + rng.below(4);
            let k = 1 + rng.below(n);
            let subs: Vec<String> = (0..n).map(|_| gen_policy(w, rng, depth - 1, conc, sh, h160)).collect();
            format!("thresh({},{})", k, subs.join(","))
        }
    }
}

// ------------------------------------------------------------------ stress shapes (fixed corpus)
#[derive(Copy, Clone, PartialEq, Eq)]
pub enum Fam {
    Ms(usize), // context index
    Desc,
    Conc,
    Sem,
    Key,
    Wpol,
}

fn nest(open: &str, core: &str, close: &str, d: usize) -> String {
    let mut s = String::with_capacity(d * (open.len() + close.len()) + core.len());
    for _ in 0..d {
        s.push_str(open);
    }
    s.push_str(core);
    for _ in 0..d {
        s.push_str(close);
    }
    s
}

/// Nesting through EVERY child position of every fragment with children, as text: one level is
/// `open X close`; `pad` copies of the wrapper `n:` are put in front of X, so that a level adds
/// 1 + pad (+ the wrappers already in `open`) to the real depth while adding ONE parenthesis:
/// the depth guard of from_ast / validate (tree_height), not the parser's parenthesis limit, is
/// what has to stop these.  (label, open, core, close)
pub const TEXT_POSITIONS: &[(&str, &str, &str, &str)] = &[
    ("pos-andor-a", "andor(", "0", ",1,0)"),
    ("pos-andor-b", "andor(0,", "1", ",0)"),
    ("pos-andor-c", "andor(0,0,", "1", ")"),
    ("pos-and_v-left", "and_v(v:", "1", ",1)"),
    ("pos-and_v-right", "and_v(v:1,", "1", ")"),
    ("pos-and_b-left", "and_b(", "1", ",a:1)"),
    ("pos-and_b-right", "and_b(1,a:", "1", ")"),
    ("pos-or_b-left", "or_b(", "0", ",a:0)"),
    ("pos-or_b-right", "or_b(0,a:", "0", ")"),
    ("pos-or_c-right", "and_v(or_c(0,v:", "1", "),1)"),
    ("pos-or_d-left", "or_d(", "0", ",0)"),
    ("pos-or_d-right", "or_d(0,", "1", ")"),
    ("pos-or_i-left", "or_i(", "1", ",0)"),
    ("pos-or_i-right", "or_i(0,", "1", ")"),
    ("pos-thresh-first", "thresh(1,", "0", ",a:0)"),
    ("pos-thresh-middle", "thresh(1,0,a:", "0", ",a:0)"),
    ("pos-thresh-last", "thresh(1,0,a:0,a:", "0", ")"),
];
/// (levels, pad): real depth = levels * (1 + pad + wrappers in `open`), straddling 402
pub const TEXT_DEPTHS: &[(usize, usize)] = &[(402, 0), (403, 0), (201, 1), (202, 1), (134, 2), (135, 2), (100, 4), (400, 9)];

pub fn text_position(k: usize) -> (String, &'static str) {
    let (label, open, core, close) = TEXT_POSITIONS[k / TEXT_DEPTHS.len()];
    let (levels, pad) = TEXT_DEPTHS[k % TEXT_DEPTHS.len()];
    let padded = if pad == 0 { open.to_string() } else { format!("{}{}:", open, "n".repeat(pad)) };
    // `v:` / `a:` directly before the pad merge into one wrapper run ("a:nn:" is written "ann:")
    let padded = padded.replace("a:n", "an").replace("v:n", "vn");
    (nest(&padded, core, close, levels), label)
}

pub const N_STRESS: u64 = 126 + (TEXT_POSITIONS.len() * TEXT_DEPTHS.len()) as u64;

/// fixed stress inputs; `k` in 0..N_STRESS. Shapes are phrased in the grammar of the family.
pub fn stress_text(w: &RWorld, fam: Fam, k: u64) -> (String, &'static str) {
    let tap = matches!(fam, Fam::Ms(3));
    let key = w.hexkey(0, tap);
    let key2 = w.hexkey(1, tap);
    // the fragment grammar of the family
    let (leaf, wrapk): (String, &str) = match fam {
        Fam::Conc | Fam::Sem => (format!("pk({})", key), ""),
        Fam::Key => (key.clone(), ""),
        Fam::Wpol => ("pk(@0/**)".to_string(), ""),
        _ => (format!("pk({})", key), "s:"),
    };
    let outer = |body: String| -> String {
        match fam {
            Fam::Desc => match k % 3 {
                0 => format!("wsh({})", body),
                1 => format!("sh({})", body),
                _ => format!("tr({},{})", w.hexkey(2, true), body),
            },
            Fam::Wpol => format!("wsh({})", body),
            _ => body,
        }
    };
    let bin_open = match fam {
        Fam::Conc | Fam::Sem => "and(",
        _ => "and_v(v:",
    };
    if k >= 126 {
        let (body, label) = text_position(k as usize - 126);
        return match fam {
            Fam::Desc => (format!("wsh({})", body), label),
            _ => (body, label),
        };
    }
    if fam == Fam::Key {
        // key parsers: base58 / path shapes instead of wrapper shapes (sizes chosen far from
        // the time limit on either side: base58 decoding is quadratic in rust-bitcoin)
        match k {
            1 => return (format!("xpub{}", "1".repeat(400_000)), "base58-4e5"),
            4 => return (format!("xprv{}", "1".repeat(400_000)), "base58-4e5"),
            5 => return (format!("K{}", "x".repeat(400_000)), "base58-4e5"),
            6 => return (format!("[{}/0]xpub{}", w.fp[0], "1".repeat(20_000)), "base58-2e4"),
            _ => {}
        }
    }
    match k {
        0 => (outer(format!("{}:{}", "a".repeat(10_000), leaf)), "wrap-1e4"),
        1 => (outer(format!("{}:{}", "a".repeat(100_000), leaf)), "wrap-1e5"),
        2 => (outer(format!("{}:1", "asdvjntlu".repeat(3_000))), "wrap-mixed-27e3"),
        3 => (outer(format!("{}{}", "a:".repeat(20_000), leaf)), "wrap-colon-2e4"),
        4 => (outer(format!("{}:{}", "n".repeat(50_000), leaf)), "wrap-n-5e4"),
        5..=25 => {
            let d = 390 + (k as usize - 5);
            (outer(nest("or_i(0,", "1", ")", d)), "depth-390..410-or_i")
        }
        26..=46 => {
            let d = 390 + (k as usize - 26);
            let open = format!("{}{},", bin_open, leaf);
            (outer(nest(&open, &leaf, ")", d)), "depth-390..410-and")
        }
        47..=55 => {
            let d = 396 + (k as usize - 47) * 2;
            (outer(nest("thresh(1,", &leaf, ")", d)), "depth-396..412-thresh")
        }
        56 | 57 => {
            // nesting far beyond the limit, in the family's own grammar (the pre-check of the
            // expression parser is what stands between this input and recursive code)
            let d = if k == 56 { 10_000 } else { 100_000 };
            let label = if k == 56 { "depth-1e4" } else { "depth-1e5" };
            match fam {
                Fam::Conc | Fam::Sem => {
                    let open = format!("and({},", leaf);
                    (nest(&open, &leaf, ")", d), label)
                }
                _ => (outer(nest("or_i(0,", "1", ")", d)), label),
            }
        }
        58 => (outer(nest("(", "", ")", 100_000)), "parens-1e5"),
        59 => ("(".repeat(100_000), "open-1e5"),
        60 => (")".repeat(100_000), "close-1e5"),
        61 => ("{".repeat(100_000), "brace-open-1e5"),
        62 => (outer(nest("{", &leaf, "}", 50_000)), "braces-5e4"),
        63 => ("pk(".repeat(100_000), "pk-open-1e5"),
        64 => (",".repeat(100_000), "commas-1e5"),
        65 => (outer(format!("pk({})", ",".repeat(100_000))), "pk-commas-1e5"),
        66 => {
            let mut s = format!("thresh(1,{}", leaf);
            for _ in 0..100_000 {
                s.push(',');
                s.push_str(wrapk);
                s.push_str(&leaf);
            }
            s.push(')');
            (outer(s), "wide-thresh-1e5")
        }
        67 => {
            let name = if tap { "multi_a" } else { "multi" };
            let mut s = format!("{}(1", name);
            for i in 0..100_000 {
                s.push(',');
                s.push_str(if i % 2 == 0 { &key } else { &key2 });
            }
            s.push(')');
            (outer(s), "wide-multi-1e5")
        }
        68 => {
            let mut s = "thresh(50000".to_string();
            for _ in 0..100_000 {
                s.push_str(",1");
            }
            s.push(')');
            (outer(s), "wide-thresh-k5e4")
        }
        69 => {
            let mut s = String::from("or(");
            for i in 0..100_000 {
                if i > 0 {
                    s.push(',');
                }
                s.push_str("1@");
                s.push_str(&leaf);
            }
            s.push(')');
            (outer(s), "wide-or-1e5")
        }
        70 => (outer(format!("thresh(4294967296,{})", leaf)), "thresh-k-2^32"),
        71 => (outer(format!("thresh(0,{})", leaf)), "thresh-k0"),
        72 => (outer(format!("thresh(2,{})", leaf)), "thresh-k>n"),
        73 => (outer("thresh(1)".to_string()), "thresh-no-children"),
        74 => (outer("thresh()".to_string()), "thresh-empty"),
        75 => (outer("thresh".to_string()), "thresh-bare"),
        76 => (outer(format!("multi(0,{})", key)), "multi-k0"),
        77 => (outer(format!("multi(2,{})", key)), "multi-k>n"),
        78 => (outer(format!("multi_a(1000,{})", key)), "multi_a-k1000"),
        79 => (outer("multi(1)".to_string()), "multi-no-keys"),
        80 => (outer(format!("after({})", "9".repeat(50_000))), "num-5e4-digits"),
        81 => (outer(format!("older({})", "0".repeat(100_000))), "num-1e5-zeros"),
        82 => (outer("after(0)".to_string()), "after-0"),
        83 => (outer("older(4294967295)".to_string()), "older-max"),
        84 => (outer("after(2147483648)".to_string()), "after-2^31"),
        85 => (outer(format!("sha256({})", "ab".repeat(50_000))), "hash-1e5-hex"),
        86 => (outer(format!("pk({})", "02".repeat(50_000))), "key-1e5-hex"),
        87 => (outer(format!("{}#", leaf)), "checksum-empty"),
        88 => {
            let b = outer(leaf.clone());
            let c = w.checksum(&b);
            (format!("{}#{}", b, c), "checksum-valid")
        }
        89 => {
            let b = outer(nest("or_i(0,", "1", ")", 405));
            let c = w.checksum(&b);
            (format!("{}#{}", b, c), "checksum-valid-depth-405")
        }
        90 => (format!("{}#{}", outer(leaf.clone()), "q".repeat(100_000)), "checksum-1e5"),
        91 => (format!("{}{}", outer(leaf.clone()), "#".repeat(100_000)), "hashes-1e5"),
        92 => (outer(format!("pk({}{})", w.xpub[0], "/0".repeat(100_000))), "path-1e5"),
        93 => (outer(format!("pk([{}{}]{})", w.fp[0], "/0'".repeat(100_000), w.xpub[0])), "origin-path-1e5"),
        94 => {
            let alts: Vec<String> = (0..200).map(|i| i.to_string()).collect();
            (outer(format!("pk({}/<{}>/*)", w.xpub[0], alts.join(";"))), "multipath-200")
        }
        95 => (outer(format!("pk({}/<0;1>/*)", w.xpub[0])), "multipath-valid"),
        96 => (outer(format!("multi(2,{}/<0;1>/*,{}/<0;1;2>/*)", w.xpub[0], w.xpub[1])), "multipath-unequal"),
        97 => (outer(format!("or(0@{},1@{})", leaf, leaf)), "odds-0"),
        98 => (outer(format!("or(18446744073709551615@{},18446744073709551615@{})", leaf, leaf)), "odds-u64max"),
        99 => (outer(format!("or({}@{},1@{})", "9".repeat(100_000), leaf, leaf)), "odds-1e5-digits"),
        100 => (outer(format!("or({}{})", "1@".repeat(50_000), leaf)), "odds-5e4-ats"),
        101 => ("\u{e9}".repeat(50_000), "non-ascii-1e5"),
        102 => ("\0".repeat(100_000), "nul-1e5"),
        103 => (outer(format!("pk({})\n", key)), "trailing-newline"),
        104 => (String::new(), "empty"),
        105 => (outer(String::new()), "empty-inner"),
        106 => (outer(nest("{", &format!("{},{}", leaf, leaf), "}", 1)), "tree-pair"),
        107 => {
            // taproot left comb, depth 128 (max), 129, 130
            (format!("tr({},{}{}{})", w.hexkey(2, true), "{".repeat(128), format!("pk({})", w.hexkey(0, true)), format!(",pk({})}}", w.hexkey(1, true)).repeat(128)), "tr-depth-128")
        }
        108 => (format!("tr({},{}{}{})", w.hexkey(2, true), "{".repeat(129), format!("pk({})", w.hexkey(0, true)), format!(",pk({})}}", w.hexkey(1, true)).repeat(129)), "tr-depth-129"),
        109 => (format!("tr({},{}{}{})", w.hexkey(2, true), "{".repeat(400), format!("pk({})", w.hexkey(0, true)), format!(",pk({})}}", w.hexkey(1, true)).repeat(400)), "tr-depth-400"),
        110 => (format!("tr({},{}{}{})", w.hexkey(2, true), "{".repeat(30_000), "1", ",1}".repeat(30_000)), "tr-depth-3e4"),
        111 => (format!("tr({})", vec![w.hexkey(2, true); 50_000].join(",")), "tr-wide-5e4"),
        112 => (outer(format!("{}{}", "t".repeat(401), ":1")), "wrap-t-401"),
        113 => (outer(format!("{}:{}", "j".repeat(500), leaf)), "wrap-j-500"),
        114 => (outer(format!("{}:0", "l".repeat(2_000))), "wrap-l-2000"),
        115 => (outer(format!("{}:0", "u".repeat(2_000))), "wrap-u-2000"),
        116 => (outer(format!("and_v({}:1,1)", "v".repeat(3_000))), "wrap-v-3000"),
        117 => (outer(nest("andor(0,1,", "1", ")", 401)), "depth-401-andor"),
        118 => (outer(format!("sortedmulti(1,{})", vec![key.clone(); 21].join(","))), "sortedmulti-21"),
        119 => (outer(format!("multi_a(1,{})", vec![key.clone(); 1000].join(","))), "multi_a-1000"),
        120 => (outer(format!("pk(xpub{})", "1".repeat(400_000))), "base58-4e5"),
        121 => {
            // distinct alternatives (a repeated index is rejected at parse)
            let alts: Vec<String> = (0..20_000).map(|i| i.to_string()).collect();
            (outer(format!("pk({}/<{}>/*)", w.xpub[0], alts.join(";"))), "multipath-2e4")
        }
        122 => {
            // reported by the C07 builder: 521-byte redeem script accepted (uncompressed keys counted as 65 bytes)
            let u = format!("{}", w.w.pks[6]);
            let u2 = format!("{}", w.w.pks[7]);
            (
                format!("sh(and_v(v:multi(1,{u},{u2},{u},{u2},{u},{u2},{u}),and_v(v:pkh({}),and_v(v:older(65535),pkh({})))))", w.hexkey(0, false), w.hexkey(1, false)),
                "sh-redeem-521-bytes",
            )
        }
        123 => (outer(format!("pk({}{})", w.xpub[0], "/0".repeat(256))), "path-256-steps"),
        124 => {
            let open = match fam {
                Fam::Conc => format!("or(1@{},9@", leaf),
                Fam::Sem => format!("or({},", leaf),
                _ => format!("or_d({},", leaf),
            };
            (outer(nest(&open, &leaf, ")", 20_000)), "depth-2e4-or")
        }
        _ => {
            let open = match fam {
                Fam::Conc | Fam::Sem => format!("thresh(1,{},", leaf),
                _ => format!("thresh(1,{},s:", leaf),
            };
            (outer(nest(&open, &leaf, ")", 20_000)), "depth-2e4-thresh")
        }
    }
}

fn pool_of<'a>(w: &'a RWorld, fam: Fam) -> &'a Vec<String> {
    match fam {
        Fam::Ms(i) => &w.ms[i],
        Fam::Desc => &w.desc,
        Fam::Conc => &w.concrete,
        Fam::Sem => &w.semantic,
        Fam::Key => &w.dpk,
        Fam::Wpol => &w.wpol,
    }
}

const MS_NAMES: &[&str] = &[
    "pk", "pkh", "pk_k", "pk_h", "expr_raw_pkh", "after", "older", "sha256", "hash256", "ripemd160", "hash160", "and_v", "and_b", "and_n", "andor",
    "or_b", "or_c", "or_d", "or_i", "thresh", "multi", "multi_a", "sortedmulti", "sortedmulti_a", "0", "1", "wsh", "sh", "wpkh", "tr", "bare", "pkh",
    "and", "or", "TRIVIAL", "UNSATISFIABLE", "musig", "raw", "addr", "combo", "rawtr",
];

/// generator shared by all text classes
pub fn gen_text(w: &RWorld, rng: &mut Rng, idx: u64, fam: Fam) -> (Input, &'static str) {
    if idx < N_STRESS {
        let (s, l) = stress_text(w, fam, idx);
        return (Input::Text(s), l);
    }
    let pool = pool_of(w, fam);
    let base = pool[rng.below(pool.len() as u64) as usize].clone();
    match rng.below(20) {
        0 => (Input::Text(base), "valid"),
        1 => {
            let b = format!("{}#{}", base, w.checksum(&base));
            (Input::Text(b), "valid-checksum")
        }
        2 => (Input::Text(gen::random_printable(rng, 200)), "rand-printable"),
        3 => (Input::Text(String::from_utf8_lossy(&gen::random_bytes(rng, 200)).to_string()), "rand-bytes-lossy"),
        4 => (Input::Text(gen::random_charset(rng, 120)), "rand-charset"),
        5 => (Input::Text(gen::random_soup(w, rng, MS_NAMES)), "rand-soup"),
        6 => {
            // text of another family given to this parser
            (Input::Text(w.any_valid_text(rng)), "other-family")
        }
        7 | 8 => {
            // two edits
            let (a, _) = gen::mutate_text(w, rng, &base);
            let (b, _) = gen::mutate_text(w, rng, &a);
            (Input::Text(b), "mut-x2")
        }
        9 => {
            let mut t = base;
            let n = 3 + rng.below(6);
            for _ in 0..n {
                t = gen::mutate_text(w, rng, &t).0;
            }
            (Input::Text(t), "mut-many")
        }
        _ => {
            let (t, l) = gen::mutate_text(w, rng, &base);
            (Input::Text(t), l)
        }
    }
}

// ------------------------------------------------------------------ text entry points
fn text_of(i: &Input) -> Option<&str> {
    match i {
        Input::Text(s) => Some(s),
        _ => None,
    }
}

fn run_ms<Ctx: ScriptContext>(_w: &RWorld, i: &Input) -> Obs {
    let s = match text_of(i) {
        Some(s) => s,
        None => return Obs::na("input-kind"),
    };
    let mut tag = String::new();
    // every parser variant, three key types
    let r0 = Miniscript::<String, Ctx>::from_str(s);
    let r1 = Miniscript::<String, Ctx>::from_str_insane(s);
    let r2 = Miniscript::<String, Ctx>::from_str_with_validation_params(s, &ValidationParams::MAX);
    let r3 = Miniscript::<DescriptorPublicKey, Ctx>::from_str_with_validation_params(s, &ValidationParams::MAX);
    let r4 = Miniscript::<bitcoin::PublicKey, Ctx>::from_str_with_validation_params(s, &Ctx::CONSENSUS);
    let r5 = Miniscript::<bitcoin::key::XOnlyPublicKey, Ctx>::from_str_insane(s);
    let r6 = Miniscript::<DefiniteDescriptorKey, Ctx>::from_str(s);
    for e in [r0.as_ref().err(), r1.as_ref().err(), r2.as_ref().err()].into_iter().flatten() {
        tag = err_class(e);
    }
    for e in [r3.as_ref().err(), r4.as_ref().err()].into_iter().flatten() {
        let _ = err_class(e);
    }
    if let Err(e) = &r5 {
        let _ = err_class(e);
    }
    if let Err(e) = &r6 {
        let _ = err_class(e);
    }
    let mut any_ok = false;
    if let Ok(m) = &r2 {
        any_ok = true;
        post_ms(m);
    }
    if let Ok(m) = &r3 {
        any_ok = true;
        post_ms(m);
    }
    if let Ok(m) = &r4 {
        any_ok = true;
        post_ms(m);
        let sc = m.encode();
        let _ = m.script_size() == sc.len();
        let _ = sc.len();
    }
    if let Ok(m) = &r5 {
        any_ok = true;
        post_ms(m);
        let sc = m.encode();
        if let Err(e) = Miniscript::<Ctx::Key, Ctx>::decode_consensus(&sc) {
            let _ = err_class(&e);
        }
    }
    if let Ok(m) = &r6 {
        any_ok = true;
        post_ms(m);
    }
    if r0.is_ok() || r1.is_ok() {
        any_ok = true;
    }
    if any_ok {
        Obs::ok(format!("sane={} insane={} max={}", r0.is_ok() as u8, r1.is_ok() as u8, r2.is_ok() as u8))
    } else {
        Obs::err(tag)
    }
}

/// The documented limit on the nesting depth of an accepted miniscript (MAX_RECURSION_DEPTH,
/// ValidationParams::max_recursive_depth): 402.
pub const DEPTH_LIMIT: usize = 402;

/// Real nesting depth of a miniscript (leaf = 0, node = 1 + deepest child: the convention of
/// `ExtData::tree_height`), computed by the harness's OWN traversal with an explicit stack
/// (no library iterator, no recursion).
pub fn real_height<Pk: miniscript::MiniscriptKey, Ctx: ScriptContext>(m: &Miniscript<Pk, Ctx>) -> usize {
    use miniscript::Terminal as T;
    let mut stack: Vec<(&Miniscript<Pk, Ctx>, usize)> = vec![(m, 0)];
    let mut deepest = 0;
    while let Some((x, d)) = stack.pop() {
        if d > deepest {
            deepest = d;
        }
        match &x.node {
            T::Alt(a) | T::Swap(a) | T::Check(a) | T::DupIf(a) | T::Verify(a) | T::NonZero(a) | T::ZeroNotEqual(a) => stack.push((a, d + 1)),
            T::AndV(a, b) | T::AndB(a, b) | T::OrB(a, b) | T::OrD(a, b) | T::OrC(a, b) | T::OrI(a, b) => {
                stack.push((a, d + 1));
                stack.push((b, d + 1));
            }
            T::AndOr(a, b, c) => {
                stack.push((a, d + 1));
                stack.push((b, d + 1));
                stack.push((c, d + 1));
            }
            T::Thresh(th) => {
                for c in th.iter() {
                    stack.push((c, d + 1));
                }
            }
            _ => {}
        }
    }
    deepest
}

/// ORACLE that needs no crash: an accepted object nested deeper than the documented limit means
/// the depth guard was bypassed; and the library's own `ext.tree_height` must be the real depth
/// (it is what both guards compare with the limit). Reported as a panic with a recognisable
/// message (tools/props/c11.py keys it as `oracle:`).
pub fn depth_oracle<Pk: miniscript::MiniscriptKey, Ctx: ScriptContext>(m: &Miniscript<Pk, Ctx>, via: &str) {
    let real = real_height(m);
    if m.ext.tree_height != real {
        // leak instead of dropping: the recursive Drop of a deep tree must not mask the report
        let (th, r) = (m.ext.tree_height, real);
        panic!("VERIF-ORACLE tree_height differs from the real nesting depth: ext.tree_height = {} but depth = {} ({})", th, r, via);
    }
    if real > DEPTH_LIMIT {
        panic!("VERIF-ORACLE depth guard bypassed: accepted object nested {} deep, limit {} ({})", real, DEPTH_LIMIT, via);
    }
}

pub fn depth_oracle_desc<Pk: miniscript::MiniscriptKey>(d: &Descriptor<Pk>, via: &str) {
    use miniscript::descriptor::ShInner;
    match d {
        Descriptor::Bare(b) => depth_oracle(b.as_inner(), via),
        Descriptor::Wsh(w) => depth_oracle(w.as_inner(), via),
        Descriptor::Sh(sh) => match sh.as_inner() {
            ShInner::Wsh(w) => depth_oracle(w.as_inner(), via),
            ShInner::Ms(m) => depth_oracle(m, via),
            _ => {}
        },
        Descriptor::Tr(tr) => {
            for leaf in tr.leaves() {
                depth_oracle(leaf.miniscript().as_ref(), via);
            }
        }
        _ => {}
    }
}

/// what a caller typically does with a parsed miniscript
pub fn post_ms<Pk: miniscript::MiniscriptKey, Ctx: ScriptContext>(m: &Miniscript<Pk, Ctx>) {
    depth_oracle(m, "accepted miniscript");
    let t = m.to_string();
    let _ = format!("{:?}", m);
    let _ = t.len();
    if let Err(e) = m.lift() {
        let _ = err_class(&e);
    }
    let _ = m.script_size();
    if let Err(e) = m.max_satisfaction_size() {
        let _ = err_class(&e);
    }
    if let Err(e) = m.max_satisfaction_witness_elements() {
        let _ = err_class(&e);
    }
    if let Err(e) = m.validate(&Ctx::SANE) {
        let _ = err_class(&e);
    }
    if let Err(e) = m.validate(&Ctx::CONSENSUS) {
        let _ = err_class(&e);
    }
    let _ = m.iter().count();
    let _ = m.iter_pk().count();
    let c = m.clone();
    let _ = c == *m;
    let _ = c.cmp(m);
    let _ = m.ty;
    let _ = m.ext;
}

fn run_desc_dpk(w: &RWorld, i: &Input) -> Obs {
    let s = match text_of(i) {
        Some(s) => s,
        None => return Obs::na("input-kind"),
    };
    // secret-key aware parser too
    if let Err(e) = Descriptor::<DescriptorPublicKey>::parse_descriptor(&w.secp, s) {
        let _ = err_class(&e);
    }
    match Descriptor::<DescriptorPublicKey>::from_str(s) {
        Err(e) => Obs::err(err_class(&e)),
        Ok(d) => {
            post_desc(&d);
            let _ = d.has_wildcard();
            let mp = d.is_multipath();
            match d.clone().into_single_descriptors() {
                Ok(v) => {
                    for x in v.iter().take(4) {
                        let _ = x.to_string();
                    }
                }
                Err(e) => {
                    let _ = err_class(&e);
                }
            }
            if let Err(e) = WalletPolicy::from_descriptor(&d) {
                let _ = err_class(&e);
            }
            let _ = d.xkey_network();
            if !mp {
                for idx in [0u32, 5, 0x7fff_ffff, 0x8000_0000, u32::MAX] {
                    match d.at_derivation_index(idx) {
                        Ok(dd) => {
                            post_definite(w, &dd);
                        }
                        Err(e) => {
                            let _ = err_class(&e);
                        }
                    }
                }
                let _ = d.derive_at_index(1).into_result().map_err(|e| err_class(&e));
                let _ = d.into_definite().map_err(|e| err_class(&e));
                if let Err(e) = d.derived_descriptor(&w.secp, 3) {
                    let _ = err_class(&e);
                }
            }
            Obs::ok(format!("{:?}", d.desc_type()))
        }
    }
}

pub fn post_desc<Pk: miniscript::MiniscriptKey>(d: &Descriptor<Pk>) {
    depth_oracle_desc(d, "accepted descriptor");
    let _ = d.to_string();
    let _ = format!("{:#}", d);
    let _ = format!("{:?}", d);
    if let Err(e) = d.lift() {
        let _ = err_class(&e);
    }
    if let Err(e) = d.max_weight_to_satisfy() {
        let _ = err_class(&e);
    }
    #[allow(deprecated)]
    if let Err(e) = d.max_satisfaction_weight() {
        let _ = err_class(&e);
    }
    let _ = d.iter_pk().count();
    let _ = d.desc_type();
    let _ = d.tap_tree_iter().count();
    let c = d.clone();
    let _ = c == *d;
    let _ = c.cmp(d);
}

pub fn post_definite(w: &RWorld, d: &Descriptor<DefiniteDescriptorKey>) {
    let _ = d.script_pubkey();
    let _ = d.unsigned_script_sig();
    if let Err(e) = d.address(bitcoin::Network::Bitcoin) {
        let _ = err_class(&e);
    }
    if let Err(e) = d.explicit_script() {
        let _ = err_class(&e);
    }
    if let Err(e) = d.script_code() {
        let _ = err_class(&e);
    }
    let dd = d.derived_descriptor(&w.secp);
    let _ = dd.script_pubkey();
}

fn run_desc_string(_w: &RWorld, i: &Input) -> Obs {
    let s = match text_of(i) {
        Some(s) => s,
        None => return Obs::na("input-kind"),
    };
    match Descriptor::<String>::from_str(s) {
        Err(e) => Obs::err(err_class(&e)),
        Ok(d) => {
            post_desc(&d);
            Obs::ok(format!("{:?}", d.desc_type()))
        }
    }
}

fn run_desc_def(w: &RWorld, i: &Input) -> Obs {
    let s = match text_of(i) {
        Some(s) => s,
        None => return Obs::na("input-kind"),
    };
    let r2 = Descriptor::<bitcoin::PublicKey>::from_str(s);
    if let Ok(d) = &r2 {
        post_desc(d);
        let _ = d.script_pubkey();
        if let Err(e) = d.address(bitcoin::Network::Bitcoin) {
            let _ = err_class(&e);
        }
        let ds = bin::DummySat { w, keys: !0, pre: !0, lt: 0xffff_ffff, seq: 0xffff, big: vec![] };
        if let Err(e) = d.get_satisfaction(&ds) {
            let _ = err_class(&e);
        }
        if let Err(e) = d.get_satisfaction_mall(&ds) {
            let _ = err_class(&e);
        }
    }
    match Descriptor::<DefiniteDescriptorKey>::from_str(s) {
        Err(e) => {
            if r2.is_ok() {
                Obs::ok("bitcoin-pk-only")
            } else {
                Obs::err(err_class(&e))
            }
        }
        Ok(d) => {
            post_desc(&d);
            post_definite(w, &d);
            Obs::ok(format!("{:?}", d.desc_type()))
        }
    }
}

fn run_concrete(_w: &RWorld, i: &Input) -> Obs {
    let s = match text_of(i) {
        Some(s) => s,
        None => return Obs::na("input-kind"),
    };
    if let Err(e) = Concrete::<DescriptorPublicKey>::from_str(s) {
        let _ = err_class(&e);
    }
    match Concrete::<String>::from_str(s) {
        Err(e) => Obs::err(err_class(&e)),
        Ok(p) => {
            post_concrete(&p, s.len() < 400);
            Obs::ok("parsed")
        }
    }
}

pub fn post_concrete(p: &Concrete<String>, compile: bool) {
    let _ = p.to_string();
    let _ = format!("{:?}", p);
    if let Err(e) = p.is_valid() {
        let _ = err_class(&e);
    }
    if let Err(e) = p.check_timelocks() {
        let _ = err_class(&e);
    }
    if let Err(e) = p.check_duplicate_keys() {
        let _ = err_class(&e);
    }
    let _ = p.is_safe_nonmalleable();
    let _ = p.keys().len();
    match p.lift() {
        Ok(s) => {
            let _ = s.to_string();
            let _ = s.clone().normalized();
            let _ = s.n_keys();
            let _ = s.minimum_n_keys();
        }
        Err(e) => {
            let _ = err_class(&e);
        }
    }
    let c = p.clone();
    let _ = c == *p;
    let _ = c.cmp(p);
    if compile && p.keys().len() <= 12 {
        if let Err(e) = p.compile::<Segwitv0>() {
            let _ = err_class(&e);
        }
        if let Err(e) = p.compile::<Tap>() {
            let _ = err_class(&e);
        }
        if let Err(e) = p.compile::<Legacy>() {
            let _ = err_class(&e);
        }
        if let Err(e) = p.compile_tr(Some("UNSPENDABLE".to_string())) {
            let _ = err_class(&e);
        }
        if let Err(e) = p.compile_to_descriptor::<Segwitv0>(miniscript::policy::concrete::DescriptorCtx::Wsh) {
            let _ = err_class(&e);
        }
    }
}

fn run_semantic(_w: &RWorld, i: &Input) -> Obs {
    let s = match text_of(i) {
        Some(s) => s,
        None => return Obs::na("input-kind"),
    };
    if let Err(e) = Semantic::<DescriptorPublicKey>::from_str(s) {
        let _ = err_class(&e);
    }
    match Semantic::<String>::from_str(s) {
        Err(e) => Obs::err(err_class(&e)),
        Ok(p) => {
            post_semantic(&p);
            Obs::ok("parsed")
        }
    }
}

pub fn post_semantic(p: &Semantic<String>) {
    let _ = p.to_string();
    let _ = format!("{:?}", p);
    let n = p.clone().normalized();
    let _ = n.to_string();
    let _ = p.n_keys();
    let _ = p.minimum_n_keys();
    let _ = p.relative_timelocks();
    let _ = p.absolute_timelocks();
    let _ = p.clone().at_age(bitcoin::relative::LockTime::from_height(10));
    let _ = p.clone().at_lock_time(bitcoin::absolute::LockTime::from_consensus(100));
    let _ = p.clone().sorted();
    let _ = p.is_trivial() || p.is_unsatisfiable();
    let c = p.clone();
    let _ = c == *p;
    let _ = c.cmp(p);
    if p.n_keys() <= 8 && p.to_string().len() < 600 {
        let _ = p.clone().entails(n);
    }
}

fn run_dpk(w: &RWorld, i: &Input) -> Obs {
    let s = match text_of(i) {
        Some(s) => s,
        None => return Obs::na("input-kind"),
    };
    match DescriptorPublicKey::from_str(s) {
        Err(e) => Obs::err(err_class(&e)),
        Ok(k) => {
            let _ = k.to_string();
            let _ = format!("{:?}", k);
            let _ = k.master_fingerprint();
            let _ = k.full_derivation_path();
            let _ = k.full_derivation_paths();
            let _ = k.derivation_path();
            let _ = k.derivation_paths();
            let _ = k.has_wildcard();
            let _ = k.wildcard();
            let _ = k.has_hardened_step();
            let _ = k.xkey_network();
            let mp = k.is_multipath();
            for s in k.clone().into_single_keys().iter().take(4) {
                let _ = s.to_string();
            }
            if !mp {
                for idx in [0u32, 0x7fff_ffff, 0x8000_0000] {
                    match k.clone().at_derivation_index(idx) {
                        Ok(d) => {
                            if !k.has_hardened_step() {
                                let _ = d.derive_public_key(&w.secp);
                            }
                            let _ = d.full_derivation_paths();
                        }
                        Err(e) => {
                            let _ = err_class(&e);
                        }
                    }
                }
            }
            use miniscript::MiniscriptKey;
            let _ = k.is_uncompressed();
            let _ = k.is_x_only_key();
            let _ = k.num_der_paths();
            let a = miniscript::plan::Assets::new().add(k.clone());
            let _ = a.keys.len();
            Obs::ok(if mp { "multipath" } else { "single" })
        }
    }
}

fn run_dsk(w: &RWorld, i: &Input) -> Obs {
    let s = match text_of(i) {
        Some(s) => s,
        None => return Obs::na("input-kind"),
    };
    match DescriptorSecretKey::from_str(s) {
        Err(e) => Obs::err(err_class(&e)),
        Ok(k) => {
            let _ = k.to_string();
            let _ = format!("{:?}", k);
            match k.to_public(&w.secp) {
                Ok(p) => {
                    let _ = p.to_string();
                }
                Err(e) => {
                    let _ = err_class(&e);
                }
            }
            let mp = k.is_multipath();
            for s in k.into_single_keys().iter().take(4) {
                let _ = s.to_string();
            }
            Obs::ok(if mp { "multipath" } else { "single" })
        }
    }
}

fn run_ddk(w: &RWorld, i: &Input) -> Obs {
    let s = match text_of(i) {
        Some(s) => s,
        None => return Obs::na("input-kind"),
    };
    match DefiniteDescriptorKey::from_str(s) {
        Err(e) => Obs::err(err_class(&e)),
        Ok(k) => {
            let _ = k.to_string();
            let _ = k.master_fingerprint();
            let _ = k.full_derivation_path();
            let _ = k.full_derivation_paths();
            let _ = k.derive_public_key(&w.secp);
            use miniscript::ToPublicKey;
            let _ = k.to_public_key();
            Obs::ok("definite")
        }
    }
}

fn run_wpol(_w: &RWorld, i: &Input) -> Obs {
    let s = match text_of(i) {
        Some(s) => s,
        None => return Obs::na("input-kind"),
    };
    match WalletPolicy::from_str(s) {
        Err(e) => Obs::err(err_class(&e)),
        Ok(p) => {
            let _ = p.to_string();
            let _ = format!("{:?}", p);
            let mut q = p.clone();
            if let Err(e) = q.set_key_info(&[]) {
                let _ = err_class(&e);
            }
            match p.into_descriptor() {
                Ok(d) => {
                    let _ = d.to_string();
                    Obs::ok("full")
                }
                Err(e) => Obs::ok(format!("template:{}", err_class(&e))),
            }
        }
    }
}

fn run_tree(_w: &RWorld, i: &Input) -> Obs {
    let s = match text_of(i) {
        Some(s) => s,
        None => return Obs::na("input-kind"),
    };
    match miniscript::expression::Tree::from_str(s) {
        Err(e) => Obs::err(err_class(&e)),
        Ok(t) => {
            let root = t.root();
            let mut n = 0usize;
            for node in root.pre_order_iter() {
                let _ = node.name();
                let _ = node.n_children();
                let _ = node.children().count();
                n += 1;
            }
            let _ = root.rtl_post_order_iter().count();
            let _ = miniscript::expression::parse_num(root.name());
            Obs::ok(format!("nodes~{}", n.next_power_of_two()))
        }
    }
}

fn g_ms0(w: &RWorld, r: &mut Rng, i: u64) -> (Input, &'static str) { gen_text(w, r, i, Fam::Ms(0)) }
fn g_ms1(w: &RWorld, r: &mut Rng, i: u64) -> (Input, &'static str) { gen_text(w, r, i, Fam::Ms(1)) }
fn g_ms2(w: &RWorld, r: &mut Rng, i: u64) -> (Input, &'static str) { gen_text(w, r, i, Fam::Ms(2)) }
fn g_ms3(w: &RWorld, r: &mut Rng, i: u64) -> (Input, &'static str) { gen_text(w, r, i, Fam::Ms(3)) }
fn g_desc(w: &RWorld, r: &mut Rng, i: u64) -> (Input, &'static str) { gen_text(w, r, i, Fam::Desc) }
fn g_conc(w: &RWorld, r: &mut Rng, i: u64) -> (Input, &'static str) { gen_text(w, r, i, Fam::Conc) }
fn g_sem(w: &RWorld, r: &mut Rng, i: u64) -> (Input, &'static str) { gen_text(w, r, i, Fam::Sem) }
fn g_key(w: &RWorld, r: &mut Rng, i: u64) -> (Input, &'static str) {
    if i >= N_STRESS && r.chance(1, 3) {
        return (Input::Text(w.damaged_key(r)), "damaged-key");
    }
    gen_text(w, r, i, Fam::Key)
}
fn g_dsk(w: &RWorld, r: &mut Rng, i: u64) -> (Input, &'static str) {
    if i < N_STRESS || r.chance(1, 3) {
        return g_key(w, r, i);
    }
    let base = w.dsk[r.below(w.dsk.len() as u64) as usize].clone();
    if r.chance(1, 6) {
        return (Input::Text(base), "valid");
    }
    let (t, l) = gen::mutate_text(w, r, &base);
    (Input::Text(t), l)
}
fn g_ddk(w: &RWorld, r: &mut Rng, i: u64) -> (Input, &'static str) {
    if i < N_STRESS || r.chance(1, 2) {
        return g_key(w, r, i);
    }
    let base = w.ddk[r.below(w.ddk.len() as u64) as usize].clone();
    if r.chance(1, 6) {
        return (Input::Text(base), "valid");
    }
    let (t, l) = gen::mutate_text(w, r, &base);
    (Input::Text(t), l)
}
fn g_wpol(w: &RWorld, r: &mut Rng, i: u64) -> (Input, &'static str) { gen_text(w, r, i, Fam::Wpol) }

pub static CLASSES: &[Class] = &[
    Class { name: "str.tree", entry: "expression::Tree::from_str", quick: 1200, thorough: 12000, chunk: 300, gen: g_desc, run: run_tree },
    Class { name: "str.ms.bare", entry: "Miniscript<_,BareCtx>::{from_str,from_str_insane,from_str_with_validation_params}", quick: 900, thorough: 9000, chunk: 150, gen: g_ms0, run: run_ms::<BareCtx> },
    Class { name: "str.ms.legacy", entry: "Miniscript<_,Legacy>::{from_str,from_str_insane,from_str_with_validation_params}", quick: 900, thorough: 9000, chunk: 150, gen: g_ms1, run: run_ms::<Legacy> },
    Class { name: "str.ms.segwitv0", entry: "Miniscript<_,Segwitv0>::{from_str,from_str_insane,from_str_with_validation_params}", quick: 1500, thorough: 15000, chunk: 150, gen: g_ms2, run: run_ms::<Segwitv0> },
    Class { name: "str.ms.tap", entry: "Miniscript<_,Tap>::{from_str,from_str_insane,from_str_with_validation_params}", quick: 1500, thorough: 15000, chunk: 150, gen: g_ms3, run: run_ms::<Tap> },
    Class { name: "str.desc.dpk", entry: "Descriptor<DescriptorPublicKey>::{from_str,parse_descriptor}", quick: 2000, thorough: 20000, chunk: 150, gen: g_desc, run: run_desc_dpk },
    Class { name: "str.desc.string", entry: "Descriptor<String>::from_str", quick: 1200, thorough: 12000, chunk: 200, gen: g_desc, run: run_desc_string },
    Class { name: "str.desc.definite", entry: "Descriptor<DefiniteDescriptorKey>::from_str, Descriptor<bitcoin::PublicKey>::from_str", quick: 1200, thorough: 12000, chunk: 200, gen: g_desc, run: run_desc_def },
    Class { name: "str.policy.concrete", entry: "policy::Concrete::from_str", quick: 1500, thorough: 15000, chunk: 150, gen: g_conc, run: run_concrete },
    Class { name: "str.policy.semantic", entry: "policy::Semantic::from_str", quick: 1500, thorough: 15000, chunk: 200, gen: g_sem, run: run_semantic },
    Class { name: "str.key.public", entry: "DescriptorPublicKey::from_str", quick: 2500, thorough: 25000, chunk: 400, gen: g_key, run: run_dpk },
    Class { name: "str.key.secret", entry: "DescriptorSecretKey::from_str", quick: 1500, thorough: 15000, chunk: 400, gen: g_dsk, run: run_dsk },
    Class { name: "str.key.definite", entry: "DefiniteDescriptorKey::from_str", quick: 1500, thorough: 15000, chunk: 400, gen: g_ddk, run: run_ddk },
    Class { name: "str.wallet_policy", entry: "WalletPolicy::from_str", quick: 1500, thorough: 15000, chunk: 200, gen: g_wpol, run: run_wpol },
    Class { name: "bytes.decode.bare", entry: "Miniscript<_,BareCtx>::{decode,decode_consensus,decode_with_validation_params}, lex", quick: 1500, thorough: 15000, chunk: 300, gen: bin::g_script0, run: bin::run_decode::<BareCtx> },
    Class { name: "bytes.decode.legacy", entry: "Miniscript<_,Legacy>::{decode,decode_consensus,decode_with_validation_params}, lex", quick: 1500, thorough: 15000, chunk: 300, gen: bin::g_script1, run: bin::run_decode::<Legacy> },
    Class { name: "bytes.decode.segwitv0", entry: "Miniscript<_,Segwitv0>::{decode,decode_consensus,decode_with_validation_params}, lex", quick: 3000, thorough: 30000, chunk: 300, gen: bin::g_script2, run: bin::run_decode::<Segwitv0> },
    Class { name: "bytes.decode.tap", entry: "Miniscript<_,Tap>::{decode,decode_consensus,decode_with_validation_params}, lex", quick: 3000, thorough: 30000, chunk: 300, gen: bin::g_script3, run: bin::run_decode_tap },
    Class { name: "interp", entry: "Interpreter::from_txdata + iter / iter_assume_sigs / inferred_descriptor", quick: 20000, thorough: 80000, chunk: 400, gen: bin::g_interp, run: bin::run_interp },
    Class { name: "psbt", entry: "PsbtExt::{finalize_mut,finalize_mall_mut,finalize_inp_mut,update_input_with_descriptor,update_output_with_descriptor,sighash_msg,extract}", quick: 3500, thorough: 30000, chunk: 250, gen: bin::g_psbt, run: bin::run_psbt },
    Class { name: "plan", entry: "Descriptor::{plan,into_plan,plan_mall,into_plan_mall} with Assets; Plan::{satisfy,update_psbt_input}", quick: 2500, thorough: 25000, chunk: 250, gen: bin::g_plan, run: bin::run_plan },
    Class { name: "value.policy", entry: "Concrete constructors (And/Or/Thresh) -> lift, compile, normalized, is_valid", quick: 2000, thorough: 20000, chunk: 250, gen: bin::g_pol, run: bin::run_pol },
    Class { name: "value.cmp", entry: "Miniscript/Terminal ==, Ord::cmp, Hash on generated pairs incl. neighbours", quick: 3000, thorough: 30000, chunk: 500, gen: bin::g_pair, run: bin::run_pair },
    Class { name: "sat", entry: "Miniscript::{satisfy,satisfy_malleable,build_template,build_template_mall}, Descriptor::{get_satisfaction,get_satisfaction_mall} on parse-accepted insane scripts", quick: 3000, thorough: 30000, chunk: 400, gen: bin::g_sat, run: bin::run_sat },
];
