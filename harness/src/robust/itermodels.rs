//! `robust iters <seed>`: observations of the REAL iterators of iter/tree.rs (through the public
//! types that implement TreeLike: Miniscript and the concrete Policy) and of the REAL taproot tree
//! builder (through Tr::from_str), printed as a Coq file (coq/Tables/RobustIterCasesGen.v) that
//! Tables/RobustIterCasesCheck.v compares with the models inside Coq by vm_compute.
//!
//! The tree handed to Coq is obtained by the harness's OWN recursion over the enum (never through
//! TreeLike); labels are structural hashes of the subtree, so a yielded node identifies itself.
use crate::ast::Rng;
use miniscript::iter::TreeLike;
use miniscript::policy::concrete::Policy;
use miniscript::{Miniscript, ScriptContext, Terminal, Threshold};
use std::fmt::Write;
use std::panic::{catch_unwind, AssertUnwindSafe};
use std::str::FromStr;
use std::sync::Arc;

fn fnv(parts: &[u64], s: &str) -> u64 {
    let mut h: u64 = 0xcbf29ce484222325;
    let mut eat = |b: u8| {
        h ^= b as u64;
        h = h.wrapping_mul(0x100000001b3);
    };
    for p in parts {
        for b in p.to_le_bytes() {
            eat(b);
        }
    }
    for b in s.bytes() {
        eat(b);
    }
    h & 0xffff_ffff_ffff
}

// ---------------------------------------------------------------- Miniscript
fn mkids<Ctx: ScriptContext>(m: &Miniscript<String, Ctx>) -> (u64, Vec<&Miniscript<String, Ctx>>) {
    use Terminal as T;
    match &m.node {
        T::Alt(a) => (1, vec![a]),
        T::Swap(a) => (2, vec![a]),
        T::Check(a) => (3, vec![a]),
        T::DupIf(a) => (4, vec![a]),
        T::Verify(a) => (5, vec![a]),
        T::NonZero(a) => (6, vec![a]),
        T::ZeroNotEqual(a) => (7, vec![a]),
        T::AndV(a, b) => (8, vec![a, b]),
        T::AndB(a, b) => (9, vec![a, b]),
        T::OrB(a, b) => (10, vec![a, b]),
        T::OrD(a, b) => (11, vec![a, b]),
        T::OrC(a, b) => (12, vec![a, b]),
        T::OrI(a, b) => (13, vec![a, b]),
        T::AndOr(a, b, c) => (14, vec![a, b, c]),
        T::Thresh(th) => (15 + 100 * th.k() as u64, th.iter().map(|c| c.as_ref()).collect()),
        _ => (0, vec![]),
    }
}
fn mlabel<Ctx: ScriptContext>(m: &Miniscript<String, Ctx>) -> u64 {
    let (tag, kids) = mkids(m);
    if kids.is_empty() {
        return fnv(&[tag], &m.to_string());
    }
    let mut parts = vec![tag];
    parts.extend(kids.iter().map(|k| mlabel(*k)));
    fnv(&parts, "")
}
fn mtree<Ctx: ScriptContext>(m: &Miniscript<String, Ctx>) -> String {
    let (_, kids) = mkids(m);
    format!("RNode {} [{}]", mlabel(m), kids.iter().map(|k| mtree(*k)).collect::<Vec<_>>().join("; "))
}

// ---------------------------------------------------------------- concrete Policy (any arity, built by value)
fn pkids(p: &Policy<String>) -> (u64, Vec<&Policy<String>>) {
    match p {
        Policy::And(v) => (1, v.iter().map(|a| a.as_ref()).collect()),
        Policy::Or(v) => (2, v.iter().map(|a| a.1.as_ref()).collect()),
        Policy::Thresh(t) => (3 + 100 * t.k() as u64, t.iter().map(|a| a.as_ref()).collect()),
        _ => (0, vec![]),
    }
}
fn plabel(p: &Policy<String>) -> u64 {
    let (tag, kids) = pkids(p);
    match p {
        Policy::Key(k) => fnv(&[10], k),
        Policy::Trivial => fnv(&[11], ""),
        Policy::Unsatisfiable => fnv(&[12], ""),
        _ => {
            let mut parts = vec![tag];
            parts.extend(kids.iter().map(|k| plabel(k)));
            fnv(&parts, "")
        }
    }
}
fn ptree(p: &Policy<String>) -> String {
    let (_, kids) = pkids(p);
    format!("RNode {} [{}]", plabel(p), kids.iter().map(|k| ptree(k)).collect::<Vec<_>>().join("; "))
}
fn pdesc(p: &Policy<String>) -> String {
    let kids = |v: Vec<&Policy<String>>| v.iter().map(|k| pdesc(k)).collect::<Vec<_>>().join(",");
    match p {
        Policy::And(_) => format!("And[{}]", kids(pkids(p).1)),
        Policy::Or(_) => format!("Or[{}]", kids(pkids(p).1)),
        Policy::Thresh(t) => format!("Thresh{}[{}]", t.k(), kids(pkids(p).1)),
        Policy::Key(k) => k.clone(),
        Policy::Trivial => "1".into(),
        _ => "0".into(),
    }
}
fn gen_policy(r: &mut Rng, depth: u32, ctr: &mut u32) -> Policy<String> {
    if depth == 0 || r.chance(1, 4) {
        *ctr += 1;
        return match r.below(8) {
            0 => Policy::Trivial,
            1 => Policy::Unsatisfiable,
            _ => Policy::Key(format!("K{}", *ctr)),
        };
    }
    // arities 1..=9, with a bias to small ones
    let n = if r.chance(1, 5) { 5 + r.below(5) as usize } else { 1 + r.below(4) as usize };
    let kids: Vec<Arc<Policy<String>>> = (0..n).map(|_| Arc::new(gen_policy(r, depth - 1, ctr))).collect();
    match r.below(3) {
        0 => Policy::And(kids),
        1 => Policy::Or(kids.into_iter().map(|k| (1 + r.below(3) as usize, k)).collect()),
        _ => {
            let k = 1 + r.below(n as u64) as usize;
            Policy::Thresh(Threshold::new(k, kids).expect("1 <= k <= n"))
        }
    }
}

fn items(v: &[(u64, usize, Vec<usize>)]) -> String {
    v.iter()
        .map(|(l, i, c)| format!("({}, {}, [{}])", l, i, c.iter().map(|x| x.to_string()).collect::<Vec<_>>().join("; ")))
        .collect::<Vec<_>>()
        .join("; ")
}
fn nums(v: &[u64]) -> String { v.iter().map(|x| x.to_string()).collect::<Vec<_>>().join("; ") }

fn row(tree: String, pre: Vec<u64>, post: Vec<(u64, usize, Vec<usize>)>, rtl: Vec<(u64, usize, Vec<usize>)>, verbose: Vec<(u64, usize, usize, bool)>) -> String {
    // the verbose pre-order is reduced to what the model can say about it: the first yields
    // (n_children_yielded = 0) in order with their indices must be the pre-order enumeration
    let first: Vec<String> = verbose.iter().filter(|v| v.2 == 0).map(|v| format!("({}, {})", v.0, v.1)).collect();
    format!("({}, ([{}], [{}], [{}], [{}], {}))", tree, nums(&pre), items(&post), items(&rtl), first.join("; "), verbose.len())
}

fn ms_row<Ctx: ScriptContext>(m: &Miniscript<String, Ctx>) -> String {
    row(
        mtree(m),
        m.pre_order_iter().map(mlabel).collect(),
        m.post_order_iter().map(|it| (mlabel(it.node), it.index, it.child_indices)).collect(),
        m.rtl_post_order_iter().map(|it| (mlabel(it.node), it.index, it.child_indices)).collect(),
        m.verbose_pre_order_iter().map(|it| (mlabel(it.node), it.index, it.n_children_yielded, it.is_complete)).collect(),
    )
}
fn pol_row(p: &Policy<String>) -> String {
    row(
        ptree(p),
        p.pre_order_iter().map(plabel).collect(),
        p.post_order_iter().map(|it| (plabel(it.node), it.index, it.child_indices)).collect(),
        p.rtl_post_order_iter().map(|it| (plabel(it.node), it.index, it.child_indices)).collect(),
        p.verbose_pre_order_iter().map(|it| (plabel(it.node), it.index, it.n_children_yielded, it.is_complete)).collect(),
    )
}

// ---------------------------------------------------------------- taproot tree shapes
#[derive(Clone)]
enum Shape {
    L,
    B(Box<Shape>, Box<Shape>),
}
fn shape_coq(s: &Shape) -> String {
    // iterative along the spines would be nicer; depth stays below 140
    match s {
        Shape::L => "TL".to_string(),
        Shape::B(a, b) => format!("(TB {} {})", shape_coq(a), shape_coq(b)),
    }
}
fn shape_text(s: &Shape, ctr: &mut u32, out: &mut String) {
    match s {
        Shape::L => {
            *ctr += 1;
            let _ = write!(out, "pk(K{})", *ctr);
        }
        Shape::B(a, b) => {
            out.push('{');
            shape_text(a, ctr, out);
            out.push(',');
            shape_text(b, ctr, out);
            out.push('}');
        }
    }
}
fn b(a: Shape, c: Shape) -> Shape { Shape::B(Box::new(a), Box::new(c)) }
/// chain of `d` branches; `dir(i)` says whether level i continues to the left; `bottom` sits at depth d
fn chain(d: usize, dir: &dyn Fn(usize) -> bool, bottom: Shape) -> Shape {
    let mut s = bottom;
    for i in (0..d).rev() {
        s = if dir(i) { b(s, Shape::L) } else { b(Shape::L, s) };
    }
    s
}
fn all_shapes(leaves: usize) -> Vec<Shape> {
    if leaves == 1 {
        return vec![Shape::L];
    }
    let mut v = Vec::new();
    for l in 1..leaves {
        for a in all_shapes(l) {
            for c in all_shapes(leaves - l) {
                v.push(b(a.clone(), c));
            }
        }
    }
    v
}
fn gen_shape(r: &mut Rng, depth: u32) -> Shape {
    if depth == 0 || r.chance(1, 3) {
        Shape::L
    } else {
        b(gen_shape(r, depth - 1), gen_shape(r, depth - 1))
    }
}
fn tap_row(s: &Shape) -> (String, String) {
    let mut text = String::from("tr(KI,");
    let mut ctr = 0;
    shape_text(s, &mut ctr, &mut text);
    text.push(')');
    let r = catch_unwind(AssertUnwindSafe(|| {
        miniscript::descriptor::Tr::<String>::from_str(&text).map(|tr| match tr.tap_tree() {
            Some(t) => t.leaves().map(|l| l.depth() as u64).collect::<Vec<u64>>(),
            None => vec![],
        })
    }));
    let (code, depths) = match r {
        Ok(Ok(d)) => (1, d),
        Ok(Err(_)) => (0, vec![]),
        Err(_) => (2, vec![]),
    };
    (format!("({}, ({}, [{}]))", shape_coq(s), code, nums(&depths)), text)
}

pub fn run(args: &[String]) {
    let seed: u64 = args.first().and_then(|s| s.parse().ok()).unwrap_or(1);
    let mut o = String::new();
    o.push_str("(* generated by `verif-harness robust iters` from the compiled library; do not edit *)\n");
    o.push_str("From Coq Require Import List NArith.\nFrom Verif Require Import RobustModel RobustTapTreeModel.\nImport ListNotations.\nLocal Open Scope N_scope.\n");
    let chunk = |o: &mut String, name: &str, ty: &str, rows: &[String]| {
        let mut parts = Vec::new();
        for (ci, c) in rows.chunks(200).enumerate() {
            let _ = writeln!(o, "Definition {}_p{} : list {} := [{}].", name, ci, ty, c.join("; "));
            parts.push(format!("{}_p{}", name, ci));
        }
        if parts.is_empty() {
            let _ = writeln!(o, "Definition {} : list {} := [].", name, ty);
        } else {
            let _ = writeln!(o, "Definition {} : list {} := {}.", name, ty, parts.join(" ++ "));
        }
    };

    // ---- 1. iterators
    let mut irow: Vec<String> = Vec::new();
    let fixed = [
        "pk(A)",
        "and_v(v:pk(A),pk(B))",
        "andor(pk(A),pk(B),pk(C))",
        "andor(pk(A),or_i(and_v(v:pk(B),older(5)),pk(C)),and_v(v:pk(D),after(9)))",
        "thresh(2,pk(A),s:pk(B),s:pk(C),sdv:older(7),a:and_v(v:pk(D),older(3)))",
        "or_d(multi(2,A,B,C),and_v(v:thresh(1,pkh(D),a:pkh(E)),older(10)))",
        "thresh(3,c:pk_k(A),sc:pk_k(B),sc:pk_k(C),sc:pk_k(D),sc:pk_k(E),sc:pk_k(F),sc:pk_k(G))",
        "or_b(pk(A),a:or_b(pk(B),a:or_b(pk(C),a:thresh(1,pk(D),a:pk(E)))))",
    ];
    for t in fixed {
        if let Ok(m) = Miniscript::<String, miniscript::Segwitv0>::from_str_insane(t) {
            eprintln!("ITER {} Miniscript<String,Segwitv0> {}", irow.len(), t);
            irow.push(ms_row(&m));
        }
    }
    let w = crate::ast::World::new();
    for sd in 0..24u64 {
        // generated, typed miniscripts (the generator's key type is converted through the text form)
        let mut g = crate::ast::Gen::new(&w, seed.wrapping_mul(977) + 9000 + sd, crate::ast::CtxInfo { tap: false, legacy_like: false, n_keys: 6 });
        if let Some(m) = g.gen::<miniscript::Segwitv0>(crate::ast::B::B, 1 + (sd % 5) as u32) {
            if let Ok(ms) = Miniscript::<String, miniscript::Segwitv0>::from_str_insane(&m.to_string()) {
                eprintln!("ITER {} Miniscript<String,Segwitv0> {}", irow.len(), ms);
                irow.push(ms_row(&ms));
            }
        }
    }
    let n_ms = irow.len();
    let mut r = Rng(seed ^ 0x17e5_a11c);
    for i in 0..40u32 {
        let mut ctr = 0;
        let p = gen_policy(&mut r, 1 + i % 4, &mut ctr);
        eprintln!("ITER {} concrete::Policy<String> {}", irow.len(), pdesc(&p).chars().take(400).collect::<String>());
        irow.push(pol_row(&p));
    }
    // wide and deep by value: 40 children; a chain 40 deep
    let mut ctr = 0;
    let wide = Policy::And((0..40).map(|_| Arc::new(gen_policy(&mut r, 1, &mut ctr))).collect());
    eprintln!("ITER {} concrete::Policy<String> And of 40 generated children", irow.len());
    irow.push(pol_row(&wide));
    let mut deep = Policy::Key("Z".to_string());
    for i in 0..40 {
        deep = if i % 2 == 0 { Policy::And(vec![Arc::new(deep)]) } else { Policy::Or(vec![(1, Arc::new(deep)), (1, Arc::new(Policy::Trivial))]) };
    }
    eprintln!("ITER {} concrete::Policy<String> And[Or[..]] chain 40 deep", irow.len());
    irow.push(pol_row(&deep));
    chunk(&mut o, "iter_rows", "(rtree * (list N * list (N * N * list N) * list (N * N * list N) * list (N * N) * N))", &irow);

    // ---- 2. taproot tree builder through Tr::from_str
    let mut shapes: Vec<Shape> = Vec::new();
    for n in 1..=4 {
        shapes.extend(all_shapes(n));
    }
    for d in [1usize, 2, 7, 127, 128, 129, 130] {
        shapes.push(chain(d, &|_| true, Shape::L));
        shapes.push(chain(d, &|_| false, Shape::L));
        shapes.push(chain(d, &|i| i % 2 == 0, Shape::L));
        shapes.push(chain(d, &|i| i % 3 == 0, b(Shape::L, Shape::L)));
        shapes.push(chain(d, &|_| false, b(b(Shape::L, Shape::L), Shape::L)));
        shapes.push(chain(d, &|_| true, b(Shape::L, b(Shape::L, Shape::L))));
    }
    // several complete pairs at the deepest level (the complete_128 flag is set and cleared repeatedly)
    fn full(k: u32) -> Shape { if k == 0 { Shape::L } else { b(full(k - 1), full(k - 1)) } }
    for d in [124usize, 125, 126, 127] {
        for k in [2u32, 3] {
            shapes.push(chain(d, &|_| false, full(k)));
            shapes.push(chain(d, &|i| i % 2 == 1, b(full(k), full(k - 1))));
        }
    }
    for i in 0..40u32 {
        shapes.push(gen_shape(&mut r, 2 + i % 7));
    }
    for i in 0..8usize {
        // a random subtree under a chain that ends near the limit
        let d = 120 + (r.below(10) as usize);
        let bottom = gen_shape(&mut r, 1 + (i % 8) as u32);
        let bits = r.next();
        shapes.push(chain(d, &move |j| (bits >> (j % 64)) & 1 == 1, bottom));
    }
    let mut trow: Vec<String> = Vec::new();
    for (i, s) in shapes.iter().enumerate() {
        let (row, text) = tap_row(s);
        eprintln!("TAP {} {}", i, text);
        trow.push(row);
    }
    chunk(&mut o, "tap_rows", "(tshape * (N * list N))", &trow);
    print!("{}", o);
    eprintln!("ITERS iter={} (miniscript {}, policy {}) tap={}", irow.len(), n_ms, irow.len() - n_ms, trow.len());
}
