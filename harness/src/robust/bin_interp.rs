// ------------------------------------------------------------------ interpreter
// (included into bin.rs)
use bitcoin::taproot::{LeafVersion, TaprootBuilder};
use bitcoin::{absolute, Sequence, Witness};
use miniscript::{DefiniteDescriptorKey, Descriptor, Interpreter, Satisfier, ToPublicKey};
use std::str::FromStr;

/// Satisfier with well-formed (not valid) signatures for a subset of the world's keys.
pub struct DummySat<'a> {
    pub w: &'a RWorld,
    pub keys: u32,
    pub pre: u32,
    pub lt: u32,
    pub seq: u32,
    /// x-only keys whose Schnorr signatures must be 65 bytes (explicit sighash type)
    pub big: Vec<[u8; 32]>,
}
impl<'a> DummySat<'a> {
    fn idx<Pk: ToPublicKey>(&self, pk: &Pk) -> Option<usize> {
        let x = pk.to_x_only_pubkey();
        (0..crate::ast::N_KEYS).find(|i| self.w.w.pks[*i].inner.x_only_public_key().0 == x)
    }
    fn has<Pk: ToPublicKey>(&self, pk: &Pk) -> bool {
        match self.idx(pk) {
            Some(i) => self.keys & (1 << i) != 0,
            None => self.keys & 0x8000_0000 != 0,
        }
    }
    pub fn ecdsa(&self) -> bitcoin::ecdsa::Signature {
        let msg = bitcoin::secp256k1::Message::from_digest([7u8; 32]);
        let sig = self.w.secp.sign_ecdsa(&msg, &self.w.w.sks[0]);
        bitcoin::ecdsa::Signature { signature: sig, sighash_type: bitcoin::EcdsaSighashType::All }
    }
    pub fn schnorr(&self) -> bitcoin::taproot::Signature {
        let msg = bitcoin::secp256k1::Message::from_digest([7u8; 32]);
        let kp = bitcoin::secp256k1::Keypair::from_secret_key(&self.w.secp, &self.w.w.sks[0]);
        let sig = self.w.secp.sign_schnorr_no_aux_rand(&msg, &kp);
        bitcoin::taproot::Signature { signature: sig, sighash_type: bitcoin::TapSighashType::Default }
    }
    fn schnorr_for<Pk: ToPublicKey>(&self, pk: &Pk) -> bitcoin::taproot::Signature {
        let mut s = self.schnorr();
        if self.big.contains(&pk.to_x_only_pubkey().serialize()) {
            s.sighash_type = bitcoin::TapSighashType::All;
        }
        s
    }
    fn preimage(&self, j: usize) -> Option<[u8; 32]> {
        if self.pre & (1 << j) != 0 {
            Some(self.w.w.preimages[j])
        } else {
            None
        }
    }
}
impl<'a, Pk> Satisfier<Pk> for DummySat<'a>
where
    Pk: miniscript::MiniscriptKey<
            Sha256 = bitcoin::hashes::sha256::Hash,
            Hash256 = miniscript::hash256::Hash,
            Ripemd160 = bitcoin::hashes::ripemd160::Hash,
            Hash160 = bitcoin::hashes::hash160::Hash,
        > + ToPublicKey,
{
    fn lookup_ecdsa_sig(&self, pk: &Pk) -> Option<bitcoin::ecdsa::Signature> {
        if self.has(pk) {
            Some(self.ecdsa())
        } else {
            None
        }
    }
    fn lookup_tap_key_spend_sig(&self, pk: &Pk) -> Option<bitcoin::taproot::Signature> {
        if self.has(pk) && self.keys & 0x4000_0000 != 0 {
            Some(self.schnorr_for(pk))
        } else {
            None
        }
    }
    fn lookup_tap_leaf_script_sig(&self, pk: &Pk, _lh: &bitcoin::TapLeafHash) -> Option<bitcoin::taproot::Signature> {
        if self.has(pk) {
            Some(self.schnorr_for(pk))
        } else {
            None
        }
    }
    fn lookup_raw_pkh_pk(&self, h: &bitcoin::hashes::hash160::Hash) -> Option<bitcoin::PublicKey> {
        (0..crate::ast::N_KEYS).map(|i| self.w.w.pks[i]).find(|p| p.pubkey_hash().to_raw_hash() == *h)
    }
    fn lookup_sha256(&self, h: &bitcoin::hashes::sha256::Hash) -> Option<[u8; 32]> {
        (0..crate::ast::N_PRE).find(|j| self.w.w.sha256_img(*j) == *h).and_then(|j| self.preimage(j))
    }
    fn lookup_hash256(&self, h: &miniscript::hash256::Hash) -> Option<[u8; 32]> {
        (0..crate::ast::N_PRE).find(|j| self.w.w.hash256_img(*j) == *h).and_then(|j| self.preimage(j))
    }
    fn lookup_ripemd160(&self, h: &bitcoin::hashes::ripemd160::Hash) -> Option<[u8; 32]> {
        (0..crate::ast::N_PRE).find(|j| self.w.w.ripemd160_img(*j) == *h).and_then(|j| self.preimage(j))
    }
    fn lookup_hash160(&self, h: &bitcoin::hashes::hash160::Hash) -> Option<[u8; 32]> {
        (0..crate::ast::N_PRE).find(|j| self.w.w.hash160_img(*j) == *h).and_then(|j| self.preimage(j))
    }
    fn check_older(&self, n: bitcoin::relative::LockTime) -> bool {
        <Sequence as Satisfier<Pk>>::check_older(&Sequence::from_consensus(self.seq), n)
    }
    fn check_after(&self, n: absolute::LockTime) -> bool {
        <absolute::LockTime as Satisfier<Pk>>::check_after(&absolute::LockTime::from_consensus(self.lt), n)
    }
}

fn definite_desc(w: &RWorld, rng: &mut Rng) -> Descriptor<DefiniteDescriptorKey> {
    for _ in 0..8 {
        let s = &w.desc[rng.below(w.desc.len() as u64) as usize];
        if let Ok(d) = Descriptor::<DefiniteDescriptorKey>::from_str(s) {
            return d;
        }
    }
    Descriptor::<DefiniteDescriptorKey>::from_str(&format!("wpkh({})", w.hexkey(0, false))).unwrap()
}

fn rand_wit_elem(w: &RWorld, rng: &mut Rng) -> Vec<u8> {
    let ds = DummySat { w, keys: !0, pre: !0, lt: 0, seq: 0, big: vec![] };
    match rng.below(14) {
        0 => vec![],
        1 => vec![1],
        2 => vec![0],
        3 => ds.ecdsa().to_vec(),
        4 => ds.schnorr().to_vec(),
        5 => w.w.key_bytes(rng.below(8) as usize, false),
        6 => w.w.key_bytes(rng.below(6) as usize, true),
        7 => w.w.preimages[rng.below(4) as usize].to_vec(),
        8 => gen::random_bytes(rng, 80),
        9 => vec![0x50; 1 + rng.below(40) as usize],
        10 => {
            let mut s = ds.ecdsa().to_vec();
            let n = s.len();
            s.truncate(rng.below(n as u64) as usize);
            s
        }
        11 => {
            let mut s = ds.schnorr().to_vec();
            s.push(rng.next() as u8);
            s
        }
        12 => vec![0x80],
        _ => vec![2],
    }
}

fn push_script(items: &[Vec<u8>]) -> Vec<u8> {
    let mut b = bitcoin::script::Builder::new();
    for it in items {
        let pb = bitcoin::script::PushBytesBuf::try_from(it.clone()).unwrap_or_default();
        b = b.push_slice(pb);
    }
    b.into_script().into_bytes()
}

/// (spk, scriptSig, witness) committing to an ARBITRARY script `s` in output type `kind`
fn commit_script(w: &RWorld, rng: &mut Rng, s: &[u8], kind: u64, stack: Vec<Vec<u8>>) -> (Vec<u8>, Vec<u8>, Vec<Vec<u8>>, &'static str) {
    let sc = ScriptBuf::from_bytes(s.to_vec());
    match kind {
        0 => {
            let mut wit = stack;
            wit.push(s.to_vec());
            (sc.to_p2wsh().into_bytes(), vec![], wit, "p2wsh(arbitrary)")
        }
        1 => {
            let inner = sc.to_p2wsh();
            let mut wit = stack;
            wit.push(s.to_vec());
            (inner.to_p2sh().into_bytes(), push_script(&[inner.clone().into_bytes()]), wit, "p2sh-p2wsh(arbitrary)")
        }
        2 => {
            let mut items = stack;
            items.push(s.to_vec());
            (sc.to_p2sh().into_bytes(), push_script(&items), vec![], "p2sh(arbitrary)")
        }
        3 => (s.to_vec(), push_script(&stack), vec![], "bare(arbitrary)"),
        _ => {
            let internal = w.w.pks[rng.below(6) as usize].inner.x_only_public_key().0;
            let other = ScriptBuf::from_bytes(vec![0x51]);
            let b = if rng.chance(1, 2) {
                TaprootBuilder::new().add_leaf(0, sc.clone())
            } else {
                TaprootBuilder::new().add_leaf(1, sc.clone()).and_then(|b| b.add_leaf(1, other))
            };
            let info = match b.ok().and_then(|b| b.finalize(&w.secp, internal).ok()) {
                Some(i) => i,
                None => return (vec![0x51, 0x20], vec![], stack, "p2tr(build-failed)"),
            };
            let cb = match info.control_block(&(sc.clone(), LeafVersion::TapScript)) {
                Some(c) => c.serialize(),
                None => vec![0xc0],
            };
            let spk = ScriptBuf::new_p2tr_tweaked(info.output_key());
            let mut wit = stack;
            wit.push(s.to_vec());
            wit.push(cb);
            (spk.into_bytes(), vec![], wit, "p2tr(arbitrary leaf)")
        }
    }
}

/// stacks per directed script: 85 position-wise (lengths 0..3 over 4 kinds) + 36 homogeneous
/// (lengths 4..9 over 6 kinds) through the native output type, + 3 x 42 homogeneous (lengths 0..6)
/// through the other output types
pub const SHORT_PER: u64 = 85 + 36 + 3 * 42;

fn wit_kind(w: &RWorld, tap: bool, kind: usize, seq: u32, lt: u32) -> Vec<u8> {
    let ds = DummySat { w, keys: !0, pre: !0, lt, seq, big: vec![] };
    match kind {
        0 => vec![],
        1 => vec![1],
        2 => vec![2, 3, 5, 7],
        3 => {
            if tap {
                ds.schnorr().to_vec()
            } else {
                ds.ecdsa().to_vec()
            }
        }
        4 => w.w.key_bytes(0, tap),
        _ => w.w.preimages[0].to_vec(),
    }
}

/// (script, witness stack below the script, output kind) number `r` for directed script `si`
pub fn short_case(w: &RWorld, si: usize, r: usize, seq: u32, lt: u32) -> (Vec<u8>, Vec<Vec<u8>>, u64) {
    let n0 = w.directed[0].len();
    let (tap, sc) = if si < n0 { (false, w.directed[0][si].1.clone()) } else { (true, w.directed[1][(si - n0) % w.directed[1].len().max(1)].1.clone()) };
    let native = if tap { 4u64 } else { 0 };
    let (kinds, kind): (Vec<usize>, u64) = if r < 85 {
        // position-wise: lengths 0 (1), 1 (4), 2 (16), 3 (64)
        let (len, mut code) = if r < 1 { (0, 0) } else if r < 5 { (1, r - 1) } else if r < 21 { (2, r - 5) } else { (3, r - 21) };
        let mut v = Vec::new();
        for _ in 0..len {
            v.push(code % 4);
            code /= 4;
        }
        (v, native)
    } else if r < 121 {
        let q = r - 85;
        (vec![q % 6; 4 + q / 6], native)
    } else {
        let q = r - 121;
        let other = [1u64, 2, 3][q / 42];
        let q = q % 42;
        (vec![q % 6; q / 6], if tap { 4 } else { other })
    };
    let stack = kinds.into_iter().map(|k| wit_kind(w, tap, k, seq, lt)).collect();
    (sc, stack, kind)
}

pub fn g_interp(w: &RWorld, rng: &mut Rng, idx: u64) -> (Input, &'static str) {
    let seq = *pick(rng, &[0u32, 1, 10, 0xffff, 0x400001, 0x80000000, 0xfffffffe, 0xffffffff]);
    let lt = *pick(rng, &[0u32, 1, 100, 499_999_999, 500_000_000, 0xffffffff]);
    // fixed stress part
    let n_deep = (N_DEEP_SHAPES * 3 + 2) as u64;
    if (12 + n_deep..12 + n_deep + 24).contains(&idx) {
        // a key hash in the script resolved by an UNCOMPRESSED key on the stack (p2wsh, p2sh-p2wsh, p2sh)
        let j = (idx - 12 - n_deep) as usize;
        let (u, form, kind) = (6 + j % 2, (j / 2) % 4, (j / 8) as u64 % 3);
        let sc = pkh_script(w, u, form);
        let ds = DummySat { w, keys: !0, pre: !0, lt, seq, big: vec![] };
        let sig = ds.ecdsa().to_vec();
        let ukey = w.w.pks[u].to_bytes();
        let stack: Vec<Vec<u8>> = match form {
            0 => vec![sig.clone(), ukey],
            1 => vec![sig.clone(), sig.clone(), ukey],
            2 => vec![sig.clone(), ukey, vec![]],
            _ => vec![sig.clone(), ukey, sig.clone()],
        };
        let (spk, ssig, wit, _) = commit_script(w, rng, &sc, kind, stack);
        return (Input::Interp { spk, sig: ssig, wit, seq, lt }, "raw-pkh-uncompressed-key");
    }
    if (12..12 + n_deep).contains(&idx) {
        // deep nesting through every child position, committed in an output (tapscript has no size limit)
        let j = (idx - 12) as usize;
        let (shape, depth, kind, ctx) = if j >= N_DEEP_SHAPES * 3 {
            (2 + (j - N_DEEP_SHAPES * 3), 100_000, 4u64, 3usize)
        } else {
            match j % 3 {
                0 => (j / 3, 403, 0u64, 2usize),
                1 => (j / 3, 1_000, 4, 3),
                _ => (j / 3, 10_000, 4, 3),
            }
        };
        let (sc, label) = deep_script(w, ctx, shape, depth);
        let ds = DummySat { w, keys: !0, pre: !0, lt, seq, big: vec![] };
        let stack = if shape == 3 { vec![ds.schnorr().to_vec()] } else { vec![] };
        let (spk, sig, wit, _) = commit_script(w, rng, &sc, kind, stack);
        return (Input::Interp { spk, sig, wit, seq, lt }, label);
    }
    // ---- large counts in front of NUMEQUAL / CHECKMULTISIG / EQUAL, committed in p2wsh, p2sh and p2tr
    let num_base = 12 + n_deep + 24;
    if idx >= num_base && idx < num_base + 3 * N_NUM_SCRIPTS as u64 {
        let j = (idx - num_base) as usize;
        let (kind, ctx) = [(0u64, 2usize), (2, 1), (4, 3)][j / N_NUM_SCRIPTS];
        let (sc, label) = num_script(w, ctx, j % N_NUM_SCRIPTS);
        let (spk, sig, wit, _) = commit_script(w, rng, &sc, kind, vec![vec![]]);
        return (Input::Interp { spk, sig, wit, seq, lt }, label);
    }
    // ---- SHORT and ragged witnesses per fragment kind (the dissatisfaction arms are where
    // `len - k` style underflows hide): every directed script x every stack of length 0..3 over
    // {empty, 01, junk, signature} in every position, and homogeneous stacks of length 4..9 over
    // {empty, 01, junk, signature, key, preimage}; then the homogeneous ones again through
    // p2sh-p2wsh, p2sh and bare
    let short_base = num_base + 3 * N_NUM_SCRIPTS as u64;
    let n_scripts = (w.directed[0].len() + w.directed[1].len()) as u64;
    if idx >= short_base && idx < short_base + n_scripts * SHORT_PER {
        let j = idx - short_base;
        let (si, r) = ((j / SHORT_PER) as usize, (j % SHORT_PER) as usize);
        let (sc, stack, kind) = short_case(w, si, r, seq, lt);
        let (spk, sig, wit, _) = commit_script(w, rng, &sc, kind, stack);
        return (Input::Interp { spk, sig, wit, seq, lt }, "short-witness");
    }
    if idx < 12 {
        let big: Vec<Vec<u8>> = (0..10_000).map(|_| vec![]).collect();
        let (spk, sig, wit, l): (Vec<u8>, Vec<u8>, Vec<Vec<u8>>, &'static str) = match idx {
            0 => (vec![], vec![], vec![], "all-empty"),
            1 => {
                let s = vec![0x51];
                let (a, b, c, _) = commit_script(w, rng, &s, 0, big);
                (a, b, c, "witness-1e4-items")
            }
            2 => {
                let (s, _) = stress_script(w, 2, 5);
                let (a, b, c, _) = commit_script(w, rng, &s, 0, vec![]);
                (a, b, c, "p2wsh-deep-or_i-400")
            }
            3 => {
                let (s, _) = stress_script(w, 2, 7);
                let (a, b, c, _) = commit_script(w, rng, &s, 0, vec![]);
                (a, b, c, "p2wsh-deep-or_i-5000")
            }
            4 => {
                let (s, _) = stress_script(w, 3, 7);
                let (a, b, c, _) = commit_script(w, rng, &s, 4, vec![]);
                (a, b, c, "p2tr-deep-or_i-5000")
            }
            5 => {
                let (s, _) = stress_script(w, 2, 1);
                let (a, b, c, _) = commit_script(w, rng, &s, 0, vec![]);
                (a, b, c, "p2wsh-if-1e4")
            }
            6 => (vec![0x51, 0x20].into_iter().chain([2u8; 32]).collect(), vec![], vec![vec![0x50; 10]], "p2tr-annex-only"),
            7 => (vec![0x51, 0x20].into_iter().chain([2u8; 32]).collect(), vec![], vec![vec![], vec![0xc0; 33 + 32 * 129]], "p2tr-cb-depth-129"),
            8 => (vec![0x00, 0x14].into_iter().chain([2u8; 20]).collect(), vec![], vec![vec![0; 73], vec![2; 33]], "p2wpkh-garbage"),
            9 => (vec![0x76, 0xa9, 0x14].into_iter().chain([2u8; 20]).chain([0x88, 0xac]).collect(), vec![0x4c], vec![], "p2pkh-truncated-sig"),
            10 => (vec![0xa9, 0x14].into_iter().chain([2u8; 20]).chain([0x87]).collect(), vec![], vec![], "p2sh-empty-sig"),
            _ => (vec![0x00, 0x20].into_iter().chain([2u8; 32]).collect(), vec![0x51], vec![], "p2wsh-nonempty-scriptsig"),
        };
        return (Input::Interp { spk, sig, wit, seq, lt }, l);
    }
    match rng.below(10) {
        0..=3 => {
            // valid triple from a descriptor (+ mutation)
            let d = definite_desc(w, rng);
            let ds = DummySat { w, keys: !0, pre: !0, lt, seq, big: vec![] };
            let (wit, sig) = match if rng.chance(1, 2) { d.get_satisfaction(&ds) } else { d.get_satisfaction_mall(&ds) } {
                Ok(x) => x,
                Err(_) => (vec![], d.unsigned_script_sig()),
            };
            let mut spk = d.script_pubkey().into_bytes();
            let mut sig = sig.into_bytes();
            let mut wit = wit;
            let m = rng.below(14);
            let label = match m {
                0 | 1 => "valid",
                2 => {
                    if !wit.is_empty() {
                        let i = rng.below(wit.len() as u64) as usize;
                        wit.remove(i);
                    }
                    "drop-wit-elem"
                }
                3 => {
                    if !wit.is_empty() {
                        let i = rng.below(wit.len() as u64) as usize;
                        let e = wit[i].clone();
                        wit.insert(i, e);
                    }
                    "dup-wit-elem"
                }
                4 => {
                    if !wit.is_empty() {
                        let i = rng.below(wit.len() as u64) as usize;
                        let n = wit[i].len();
                        wit[i].truncate(rng.below(n as u64 + 1) as usize);
                    }
                    "truncate-wit-elem"
                }
                5 => {
                    if !wit.is_empty() {
                        let i = rng.below(wit.len() as u64) as usize;
                        wit[i] = rand_wit_elem(w, rng);
                    } else {
                        wit.push(rand_wit_elem(w, rng));
                    }
                    "replace-wit-elem"
                }
                6 => {
                    if wit.len() > 1 {
                        let i = rng.below(wit.len() as u64) as usize;
                        let j = rng.below(wit.len() as u64) as usize;
                        wit.swap(i, j);
                    }
                    "swap-wit-elems"
                }
                7 => {
                    let n = sig.len();
                    sig.truncate(rng.below(n as u64 + 1) as usize);
                    "truncate-scriptsig"
                }
                8 => {
                    let (s2, _) = mutate_script(w, rng, 1, &sig);
                    sig = s2;
                    "mutate-scriptsig"
                }
                9 => {
                    spk = definite_desc(w, rng).script_pubkey().into_bytes();
                    "foreign-spk"
                }
                10 => {
                    let (s2, _) = mutate_script(w, rng, 0, &spk);
                    spk = s2;
                    "mutate-spk"
                }
                11 => {
                    wit.push(vec![0x50; 1 + rng.below(5) as usize]);
                    "append-annex"
                }
                12 => {
                    let i = rng.below(wit.len() as u64 + 1) as usize;
                    wit.insert(i, rand_wit_elem(w, rng));
                    "insert-wit-elem"
                }
                _ => {
                    wit.clear();
                    "clear-witness"
                }
            };
            (Input::Interp { spk, sig, wit, seq, lt }, label)
        }
        4 | 5 => {
            // a VALID generated script of the output type's context with a short / ragged witness:
            // fewer elements than it needs, each empty / 01 / junk / signature / key / preimage
            let ctx = *pick(rng, &[1usize, 2, 2, 3, 3]);
            let s = valid_script(w, rng, ctx);
            let n = rng.below(6);
            let homogeneous = rng.chance(1, 2);
            let k0 = rng.below(6) as usize;
            let stack: Vec<Vec<u8>> = (0..n).map(|_| wit_kind(w, ctx == 3, if homogeneous { k0 } else { rng.below(6) as usize }, seq, lt)).collect();
            let kind = match ctx {
                1 => 2,
                2 => *pick(rng, &[0u64, 0, 1]),
                _ => 4,
            };
            let (spk, sig, wit, _) = commit_script(w, rng, &s, kind, stack);
            (Input::Interp { spk, sig, wit, seq, lt }, "short-witness-generated")
        }
        6..=8 => {
            // arbitrary script committed in every output type, arbitrary stack
            let ctx = rng.below(4) as usize;
            let s = match gen_script(w, rng, 1000, ctx).0 {
                Input::Bytes(b) => b,
                _ => vec![],
            };
            let n = rng.below(7);
            let stack: Vec<Vec<u8>> = (0..n).map(|_| rand_wit_elem(w, rng)).collect();
            let kind = rng.below(5);
            let (spk, sig, wit, l) = commit_script(w, rng, &s, kind, stack);
            (Input::Interp { spk, sig, wit, seq, lt }, l)
        }
        _ => {
            let n = rng.below(5);
            let wit: Vec<Vec<u8>> = (0..n).map(|_| rand_wit_elem(w, rng)).collect();
            let spk = match rng.below(6) {
                0 => gen::random_bytes(rng, 40),
                1 => [vec![0x00, 0x14], gen::random_bytes(rng, 20)].concat(),
                2 => [vec![0x00, 0x20], gen::random_bytes(rng, 32)].concat(),
                3 => [vec![0x51, 0x20], gen::random_bytes(rng, 32)].concat(),
                4 => [vec![0xa9, 0x14], gen::random_bytes(rng, 20), vec![0x87]].concat(),
                _ => [vec![0x76, 0xa9, 0x14], gen::random_bytes(rng, 20), vec![0x88, 0xac]].concat(),
            };
            (Input::Interp { spk, sig: gen::random_bytes(rng, 40), wit, seq, lt }, "random-triple")
        }
    }
}

pub fn run_interp(w: &RWorld, i: &Input) -> Obs {
    let (spk, sig, wit, seq, lt) = match i {
        Input::Interp { spk, sig, wit, seq, lt } => (spk, sig, wit, *seq, *lt),
        _ => return Obs::na("input-kind"),
    };
    let spk = ScriptBuf::from_bytes(spk.clone());
    let sig = ScriptBuf::from_bytes(sig.clone());
    let witness = Witness::from_slice(wit);
    let interp = match Interpreter::from_txdata(&spk, &sig, &witness, Sequence::from_consensus(seq), absolute::LockTime::from_consensus(lt)) {
        Ok(i) => i,
        Err(e) => return Obs::err(format!("from_txdata:{}", err_class(&e))),
    };
    // ORACLE without a crash: the interpreter accepted (decoded) the committed script; its
    // IF/NOTIF nesting, counted on the bytes by the harness, is a lower bound of the depth of the
    // miniscript it holds, which must not exceed the documented limit
    {
        let b = spk.as_bytes();
        let mut w_items: Vec<&[u8]> = witness.iter().collect();
        if w_items.len() >= 2 && w_items.last().map(|x| x.first() == Some(&0x50)).unwrap_or(false) {
            w_items.pop();
        }
        let last_push = |s: &bitcoin::Script| -> Option<Vec<u8>> {
            s.instructions().filter_map(|i| i.ok()).filter_map(|i| i.push_bytes().map(|p| p.as_bytes().to_vec())).last()
        };
        let executed: Option<Vec<u8>> = if spk.is_p2wsh() {
            w_items.last().map(|x| x.to_vec())
        } else if spk.is_p2tr() {
            if w_items.len() >= 2 { Some(w_items[w_items.len() - 2].to_vec()) } else { None }
        } else if spk.is_p2sh() {
            match last_push(&sig) {
                Some(r) if bitcoin::Script::from_bytes(&r).is_p2wsh() => w_items.last().map(|x| x.to_vec()),
                r => r,
            }
        } else if spk.is_p2pkh() || spk.is_p2wpkh() || spk.is_p2pk() {
            None
        } else {
            Some(b.to_vec())
        };
        if let Some(sc) = executed {
            let d = if_depth(&sc);
            if d > super::DEPTH_LIMIT {
                panic!("VERIF-ORACLE depth guard bypassed: Interpreter::from_txdata accepted a script whose IF nesting is {} deep, limit {}", d, super::DEPTH_LIMIT);
            }
        }
    }
    let _ = interp.is_legacy();
    let _ = interp.is_segwit_v0();
    let _ = interp.is_taproot_v1_key_spend();
    let _ = interp.is_taproot_v1_script_spend();
    let _ = interp.sig_type();
    let _ = interp.inferred_descriptor_string();
    match interp.inferred_descriptor() {
        Ok(d) => super::depth_oracle_desc(&d, "Interpreter::inferred_descriptor"),
        Err(e) => {
            let _ = err_class(&e);
        }
    }
    let mut n = 0u64;
    let mut last_err = String::new();
    for item in interp.iter_assume_sigs() {
        n += 1;
        match item {
            Ok(c) => {
                let _ = format!("{:?}", c);
            }
            Err(e) => last_err = err_class(&e),
        }
        if n > 2_000_000 {
            panic!("interpreter iterator yields without end");
        }
    }
    // with real signature verification against a small transaction
    let tx = bitcoin::Transaction {
        version: bitcoin::transaction::Version::TWO,
        lock_time: absolute::LockTime::from_consensus(lt),
        input: vec![bitcoin::TxIn { previous_output: bitcoin::OutPoint::null(), script_sig: sig.clone(), sequence: Sequence::from_consensus(seq), witness: witness.clone() }],
        output: vec![bitcoin::TxOut { value: bitcoin::Amount::from_sat(1000), script_pubkey: spk.clone() }],
    };
    let utxo = bitcoin::TxOut { value: bitcoin::Amount::from_sat(2000), script_pubkey: spk.clone() };
    let utxos = [utxo.clone()];
    for (idx, prev) in [
        (0usize, bitcoin::sighash::Prevouts::All(&utxos)),
        (0usize, bitcoin::sighash::Prevouts::One(0, utxo.clone())),
        (1usize, bitcoin::sighash::Prevouts::All(&utxos)),
        (7usize, bitcoin::sighash::Prevouts::One(3, utxo.clone())),
    ] {
        for item in interp.iter(&w.secp, &tx, idx, &prev) {
            if let Err(e) = item {
                let _ = err_class(&e);
            }
        }
    }
    if last_err.is_empty() {
        Obs::ok(format!("accepted:{}", if n > 8 { 9 } else { n }))
    } else {
        Obs::err(format!("iter:{}", last_err))
    }
}
