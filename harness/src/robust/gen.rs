//! Inputs of the robustness engine: representation, one-line serialisation (replay format),
//! seeded generators per entry-point class and shrink candidates.
use super::ep::{Class, RWorld};
use crate::ast::Rng;

#[derive(Clone, Debug, PartialEq, Eq)]
pub enum Input {
    /// text for a parser
    Text(String),
    /// script bytes for the decoder
    Bytes(Vec<u8>),
    /// (spk, scriptSig, witness, sequence, locktime) for the interpreter
    Interp { spk: Vec<u8>, sig: Vec<u8>, wit: Vec<Vec<u8>>, seq: u32, lt: u32 },
    /// serialized PSBT + input index + descriptor text (for update_*_with_descriptor)
    Psbt { psbt: Vec<u8>, idx: usize, desc: String },
    /// descriptor text, derivation index, asset specification
    Plan { desc: String, idx: u32, assets: String },
    /// value-level policy in the constructor mini-language of ep.rs
    Pol(String),
    /// two miniscripts (text, parsed with everything allowed) for ==, cmp, hash
    Pair(String, String),
    /// miniscript text + context + asset masks for the satisfier
    Sat { ms: String, ctx: u8, keys: u32, pre: u32, lt: u32, seq: u32 },
}

pub fn hex(b: &[u8]) -> String {
    let mut s = String::with_capacity(b.len() * 2 + 1);
    for x in b {
        s.push_str(&format!("{:02x}", x));
    }
    if s.is_empty() {
        s.push('-');
    }
    s
}
pub fn unhex(h: &str) -> Option<Vec<u8>> {
    if h == "-" {
        return Some(vec![]);
    }
    if h.len() % 2 != 0 {
        return None;
    }
    let b = h.as_bytes();
    let v = |c: u8| -> Option<u8> {
        match c {
            b'0'..=b'9' => Some(c - b'0'),
            b'a'..=b'f' => Some(c - b'a' + 10),
            b'A'..=b'F' => Some(c - b'A' + 10),
            _ => None,
        }
    };
    let mut out = Vec::with_capacity(h.len() / 2);
    for i in (0..b.len()).step_by(2) {
        out.push(v(b[i])? * 16 + v(b[i + 1])?);
    }
    Some(out)
}
fn hs(s: &str) -> String { hex(s.as_bytes()) }
fn us(h: &str) -> Option<String> { String::from_utf8(unhex(h)?).ok() }

impl Input {
    /// size measure used by the shrinker
    pub fn len(&self) -> usize {
        match self {
            Input::Text(s) | Input::Pol(s) => s.len(),
            Input::Bytes(b) => b.len(),
            Input::Interp { spk, sig, wit, .. } => spk.len() + sig.len() + wit.iter().map(|w| w.len() + 1).sum::<usize>(),
            Input::Psbt { psbt, desc, .. } => psbt.len() + desc.len(),
            Input::Plan { desc, assets, .. } => desc.len() + assets.len(),
            Input::Pair(a, b) => a.len() + b.len(),
            Input::Sat { ms, keys, pre, .. } => ms.len() + (keys.count_ones() + pre.count_ones()) as usize,
        }
    }
    pub fn to_line(&self) -> String {
        match self {
            Input::Text(s) => format!("T {}", hs(s)),
            Input::Bytes(b) => format!("B {}", hex(b)),
            Input::Interp { spk, sig, wit, seq, lt } => {
                let w: Vec<String> = wit.iter().map(|x| hex(x)).collect();
                format!("I {} {} {} {} {}", hex(spk), hex(sig), seq, lt, if w.is_empty() { "_".to_string() } else { w.join(",") })
            }
            Input::Psbt { psbt, idx, desc } => format!("P {} {} {}", idx, hex(psbt), hs(desc)),
            Input::Plan { desc, idx, assets } => format!("L {} {} {}", idx, hs(desc), hs(assets)),
            Input::Pol(s) => format!("V {}", hs(s)),
            Input::Pair(a, b) => format!("C {} {}", hs(a), hs(b)),
            Input::Sat { ms, ctx, keys, pre, lt, seq } => format!("S {} {} {} {} {} {}", ctx, keys, pre, lt, seq, hs(ms)),
        }
    }
    pub fn parse(line: &str) -> Option<Input> {
        let p: Vec<&str> = line.split(' ').collect();
        match *p.first()? {
            "T" => Some(Input::Text(String::from_utf8_lossy(&unhex(p.get(1)?)?).to_string())),
            "B" => Some(Input::Bytes(unhex(p.get(1)?)?)),
            "I" => {
                let wit = if *p.get(5)? == "_" {
                    vec![]
                } else {
                    p[5].split(',').map(unhex).collect::<Option<Vec<_>>>()?
                };
                Some(Input::Interp { spk: unhex(p[1])?, sig: unhex(p[2])?, wit, seq: p[3].parse().ok()?, lt: p[4].parse().ok()? })
            }
            "P" => Some(Input::Psbt { idx: p.get(1)?.parse().ok()?, psbt: unhex(p.get(2)?)?, desc: us(p.get(3)?)? }),
            "L" => Some(Input::Plan { idx: p.get(1)?.parse().ok()?, desc: us(p.get(2)?)?, assets: us(p.get(3)?)? }),
            "V" => Some(Input::Pol(us(p.get(1)?)?)),
            "C" => Some(Input::Pair(us(p.get(1)?)?, us(p.get(2)?)?)),
            "S" => Some(Input::Sat {
                ctx: p.get(1)?.parse().ok()?,
                keys: p.get(2)?.parse().ok()?,
                pre: p.get(3)?.parse().ok()?,
                lt: p.get(4)?.parse().ok()?,
                seq: p.get(5)?.parse().ok()?,
                ms: us(p.get(6)?)?,
            }),
            _ => None,
        }
    }
}

// ------------------------------------------------------------------ shrinking
fn char_bounds(s: &str) -> Vec<usize> {
    let mut v: Vec<usize> = s.char_indices().map(|(i, _)| i).collect();
    v.push(s.len());
    v
}

/// runs of a repeated unit (1..=160 chars, at least 4 repetitions): (start, unit, reps) in chars
fn find_runs(chars: &[char]) -> Vec<(usize, usize, usize)> {
    let mut runs = Vec::new();
    let mut i = 0;
    while i < chars.len() {
        let mut found = None;
        for unit in 1..=160usize {
            if i + unit * 4 > chars.len() {
                break;
            }
            if chars[i] != chars[i + unit] {
                continue; // cheap rejection before comparing whole units
            }
            let mut reps = 1;
            while i + (reps + 1) * unit <= chars.len() && chars[i..i + unit] == chars[i + reps * unit..i + (reps + 1) * unit] {
                reps += 1;
            }
            if reps >= 4 {
                found = Some((unit, reps));
                break;
            }
        }
        match found {
            Some((unit, reps)) => {
                runs.push((i, unit, reps));
                i += unit * reps;
            }
            None => i += 1,
        }
    }
    runs
}

/// delete substrings (halves, quarters, ... single characters), halve runs of repetitions
/// (all runs at once first: that keeps nested shapes `open^n core close^n` balanced)
pub fn shrink_text(s: &str) -> Vec<String> {
    let mut out = Vec::new();
    let cb = char_bounds(s);
    let n = cb.len() - 1; // number of chars
    if n == 0 {
        return out;
    }
    let chars: Vec<char> = s.chars().collect();
    let runs = find_runs(&chars);
    if !runs.is_empty() {
        let rebuild = |sel: &dyn Fn(usize) -> bool, keep: &dyn Fn(usize) -> usize| -> String {
            let mut t = String::with_capacity(s.len());
            let mut pos = 0;
            for (ri, (st, unit, reps)) in runs.iter().enumerate() {
                t.extend(chars[pos..*st].iter());
                let k = if sel(ri) { keep(*reps) } else { *reps };
                t.extend(chars[*st..*st + k * unit].iter());
                pos = st + unit * reps;
            }
            t.extend(chars[pos..].iter());
            t
        };
        out.push(rebuild(&|_| true, &|r| r / 2));
        out.push(rebuild(&|_| true, &|r| (r * 3 / 4).max(1)));
        out.push(rebuild(&|_| true, &|r| r - 1));
        let mut order: Vec<usize> = (0..runs.len()).collect();
        order.sort_by_key(|i| std::cmp::Reverse(runs[*i].1 * runs[*i].2));
        for &ri in order.iter().take(6) {
            out.push(rebuild(&|j| j == ri, &|r| r / 2));
            out.push(rebuild(&|j| j == ri, &|r| r - 1));
        }
    }
    // delete blocks (for large inputs only the coarse levels: candidates are full copies)
    let min_size = if s.len() > 20_000 { n / 32 } else { 1 };
    let mut size = n.div_ceil(2);
    loop {
        let mut start = 0;
        let mut made = 0;
        while start < n && made < 64 {
            let end = (start + size).min(n);
            let mut t = String::with_capacity(s.len());
            t.push_str(&s[..cb[start]]);
            t.push_str(&s[cb[end]..]);
            out.push(t);
            start += size;
            made += 1;
        }
        if size <= min_size.max(1) {
            break;
        }
        size = size.div_ceil(2).max(1);
    }
    if s.len() > 20_000 {
        return out;
    }
    // delete a balanced "name(...)" keeping the inside, and delete an argument with its comma
    let b = s.as_bytes();
    let mut made = 0;
    for (i, &c) in b.iter().enumerate() {
        if (c == b'(' || c == b'{') && made < 40 {
            let mut d = 0i64;
            for (j, &e) in b.iter().enumerate().skip(i) {
                if e == b'(' || e == b'{' {
                    d += 1
                } else if e == b')' || e == b'}' {
                    d -= 1;
                    if d == 0 {
                        // find start of the name
                        let mut k = i;
                        while k > 0 && !matches!(b[k - 1], b'(' | b')' | b'{' | b'}' | b',') {
                            k -= 1;
                        }
                        if s.is_char_boundary(k) && s.is_char_boundary(i + 1) && s.is_char_boundary(j) {
                            out.push(format!("{}{}{}", &s[..k], &s[i + 1..j], &s[j + 1..]));
                            out.push(format!("{}{}", &s[..k], &s[j + 1..]));
                            made += 1;
                        }
                        break;
                    }
                }
            }
        }
    }
    out
}

pub fn shrink_bytes(b: &[u8]) -> Vec<Vec<u8>> {
    let mut out = Vec::new();
    let n = b.len();
    if n == 0 {
        return out;
    }
    let mut size = n.div_ceil(2);
    loop {
        let mut start = 0;
        let mut made = 0;
        while start < n && made < 64 {
            let end = (start + size).min(n);
            let mut t = b[..start].to_vec();
            t.extend_from_slice(&b[end..]);
            out.push(t);
            start += size;
            made += 1;
        }
        if size == 1 {
            break;
        }
        size = size.div_ceil(2);
    }
    out
}

pub fn shrink_candidates(i: &Input) -> Vec<Input> {
    match i {
        Input::Text(s) => shrink_text(s).into_iter().map(Input::Text).collect(),
        Input::Pol(s) => shrink_text(s).into_iter().map(Input::Pol).collect(),
        Input::Bytes(b) => shrink_bytes(b).into_iter().map(Input::Bytes).collect(),
        Input::Pair(a, b) => {
            let mut v: Vec<Input> = shrink_text(a).into_iter().map(|x| Input::Pair(x, b.clone())).collect();
            v.extend(shrink_text(b).into_iter().map(|x| Input::Pair(a.clone(), x)));
            v
        }
        Input::Interp { spk, sig, wit, seq, lt } => {
            let mut v = Vec::new();
            for k in 0..wit.len() {
                let mut w = wit.clone();
                w.remove(k);
                v.push(Input::Interp { spk: spk.clone(), sig: sig.clone(), wit: w, seq: *seq, lt: *lt });
            }
            for s2 in shrink_bytes(sig).into_iter().take(40) {
                v.push(Input::Interp { spk: spk.clone(), sig: s2, wit: wit.clone(), seq: *seq, lt: *lt });
            }
            for k in 0..wit.len() {
                for e in shrink_bytes(&wit[k]).into_iter().take(24) {
                    let mut w = wit.clone();
                    w[k] = e;
                    v.push(Input::Interp { spk: spk.clone(), sig: sig.clone(), wit: w, seq: *seq, lt: *lt });
                }
            }
            for s2 in shrink_bytes(spk).into_iter().take(40) {
                v.push(Input::Interp { spk: s2, sig: sig.clone(), wit: wit.clone(), seq: *seq, lt: *lt });
            }
            v
        }
        Input::Psbt { psbt, idx, desc } => {
            let mut v: Vec<Input> = super::ep::psbt_shrink(psbt).into_iter().map(|p| Input::Psbt { psbt: p, idx: *idx, desc: desc.clone() }).collect();
            if !desc.is_empty() {
                v.push(Input::Psbt { psbt: psbt.clone(), idx: *idx, desc: String::new() });
            }
            v
        }
        Input::Plan { desc, idx, assets } => {
            let mut v = Vec::new();
            // remove one asset item at a time
            let items: Vec<&str> = assets.split(';').filter(|x| !x.is_empty()).collect();
            for k in 0..items.len() {
                let mut it = items.clone();
                it.remove(k);
                v.push(Input::Plan { desc: desc.clone(), idx: *idx, assets: it.join(";") });
            }
            for d in shrink_text(desc).into_iter().take(200) {
                v.push(Input::Plan { desc: d, idx: *idx, assets: assets.clone() });
            }
            for k in 0..items.len() {
                for a in shrink_text(items[k]).into_iter().take(30) {
                    let mut it: Vec<String> = items.iter().map(|x| x.to_string()).collect();
                    it[k] = a;
                    v.push(Input::Plan { desc: desc.clone(), idx: *idx, assets: it.join(";") });
                }
            }
            v
        }
        Input::Sat { ms, ctx, keys, pre, lt, seq } => {
            let mut v = Vec::new();
            for b in 0..32 {
                if keys & (1 << b) != 0 {
                    v.push(Input::Sat { ms: ms.clone(), ctx: *ctx, keys: keys & !(1 << b), pre: *pre, lt: *lt, seq: *seq });
                }
                if pre & (1 << b) != 0 {
                    v.push(Input::Sat { ms: ms.clone(), ctx: *ctx, keys: *keys, pre: pre & !(1 << b), lt: *lt, seq: *seq });
                }
            }
            for m in shrink_text(ms).into_iter().take(300) {
                v.push(Input::Sat { ms: m, ctx: *ctx, keys: *keys, pre: *pre, lt: *lt, seq: *seq });
            }
            v
        }
    }
}

// ------------------------------------------------------------------ seeded generation
pub fn case_rng(class: &str, seed: u64, idx: u64) -> Rng {
    let mut h: u64 = 0xcbf29ce484222325;
    for b in class.bytes() {
        h ^= b as u64;
        h = h.wrapping_mul(0x100000001b3);
    }
    let mut r = Rng(seed ^ h.rotate_left(17) ^ idx.wrapping_mul(0x9E3779B97F4A7C15));
    r.next();
    r
}

/// Case `idx` of `class`: the first cases are the fixed corpus (known defects, stress
/// shapes), the rest is random. Returns the input and its input-class label.
pub fn gen_case(w: &RWorld, class: &Class, seed: u64, idx: u64) -> (Input, String) {
    let mut rng = case_rng(class.name, seed, idx);
    let (i, l) = (class.gen)(w, &mut rng, idx);
    (i, l.to_string())
}

// ---- text mutation toolbox (grammar-aware, near-valid) ----
pub const HUGE_NUMS: &[&str] = &[
    "0", "00", "01", "-1", "+1", "2147483647", "2147483648", "4294967295", "4294967296", "18446744073709551615",
    "18446744073709551616", "99999999999999999999999999999999999999", "1e9", "0x10", " 1", "1 ", "",
    "500000000", "499999999", "65535", "65536", "4194305", "1073741824",
];
pub const ODD_CHARS: &[&str] = &[
    "\u{e9}", "\u{20ac}", "\u{1F600}", "\0", "\n", "\t", "\r", "\u{7f}", "\u{1}", " ", "\u{a0}", "\u{202e}", "\u{feff}", "\\", "\"", "'", "`", "%", "$",
];
const STRUCT: &[&str] = &["(", ")", "{", "}", ",", ":", "@", "#", "/", "*", "[", "]", "<", ">", ";"];
pub const WRAPS: &[&str] = &[
    "a:", "s:", "c:", "d:", "v:", "j:", "n:", "t:", "l:", "u:", "aa:", "ss:", "vv:", "jj:", "nn:", "dd:", "cc:", "tv:", "asc:", "dv:", "x:", ":", "::", "a::",
    "asdvjntlu:",
];

fn struct_positions(s: &str, set: &[u8]) -> Vec<usize> {
    s.bytes().enumerate().filter(|(_, c)| set.contains(c)).map(|(i, _)| i).collect()
}
fn pick<'a, T>(rng: &mut Rng, v: &'a [T]) -> &'a T { &v[rng.below(v.len() as u64) as usize] }
fn rand_boundary(rng: &mut Rng, s: &str) -> usize {
    let cb = char_bounds(s);
    cb[rng.below(cb.len() as u64) as usize]
}
/// start positions of fragments: after '(' , ',' , '{' , ':' or at 0
fn frag_starts(s: &str) -> Vec<usize> {
    let mut v = vec![0];
    for (i, c) in s.bytes().enumerate() {
        if matches!(c, b'(' | b',' | b'{' | b':') && i + 1 <= s.len() {
            v.push(i + 1);
        }
    }
    v
}
/// spans of decimal numbers
fn number_spans(s: &str) -> Vec<(usize, usize)> {
    let b = s.as_bytes();
    let mut v = Vec::new();
    let mut i = 0;
    while i < b.len() {
        if b[i].is_ascii_digit() && (i == 0 || matches!(b[i - 1], b'(' | b',' | b'@' | b'/' | b'<' | b';')) {
            let mut j = i;
            while j < b.len() && b[j].is_ascii_digit() {
                j += 1;
            }
            if j - i <= 10 && (j == b.len() || matches!(b[j], b')' | b',' | b'@' | b'/' | b'>' | b';' | b'\'' | b'h')) {
                v.push((i, j));
            }
            i = j;
        } else {
            i += 1;
        }
    }
    v
}
/// spans of arguments (between separators at the same depth)
fn arg_spans(s: &str) -> Vec<(usize, usize)> {
    let b = s.as_bytes();
    let mut v = Vec::new();
    let mut stack: Vec<usize> = Vec::new(); // start of current arg per depth
    for (i, &c) in b.iter().enumerate() {
        match c {
            b'(' | b'{' => stack.push(i + 1),
            b',' => {
                if let Some(st) = stack.last_mut() {
                    v.push((*st, i));
                    *st = i + 1;
                }
            }
            b')' | b'}' => {
                if let Some(st) = stack.pop() {
                    v.push((st, i));
                }
            }
            _ => {}
        }
    }
    v
}

pub const TEXT_MUTS: &[&str] = &[
    "del-struct", "ins-struct", "empty-arg", "huge-num", "thresh-k", "dup-wrap", "odd-char", "truncate", "dup-substr", "swap-args",
    "del-arg", "case-flip", "splice-self", "checksum", "multipath", "odds", "key-edit", "byte-replace",
];

/// one near-valid edit of a valid string; returns the label of the edit actually applied
pub fn mutate_text(w: &RWorld, rng: &mut Rng, s: &str) -> (String, &'static str) {
    let which = TEXT_MUTS[rng.below(TEXT_MUTS.len() as u64) as usize];
    let r = mutate_text_with(w, rng, s, which);
    (r, which)
}

pub fn mutate_text_with(w: &RWorld, rng: &mut Rng, s: &str, which: &str) -> String {
    let mut t = s.to_string();
    match which {
        "del-struct" => {
            let p = struct_positions(s, b"(){},:@#/*[]<>;");
            if !p.is_empty() {
                let i = *pick(rng, &p);
                t.remove(i);
            }
        }
        "ins-struct" => {
            let i = rand_boundary(rng, s);
            let n = 1 + rng.below(3);
            let c = *pick(rng, STRUCT);
            for _ in 0..n {
                t.insert_str(i, c);
            }
        }
        "empty-arg" => {
            let a = arg_spans(s);
            if !a.is_empty() {
                let (x, y) = *pick(rng, &a);
                t = format!("{}{}", &s[..x], &s[y..]);
            }
        }
        "del-arg" => {
            let a = arg_spans(s);
            if !a.is_empty() {
                let (x, y) = *pick(rng, &a);
                let x2 = if x > 0 && s.as_bytes()[x - 1] == b',' { x - 1 } else { x };
                t = format!("{}{}", &s[..x2], &s[y..]);
            }
        }
        "swap-args" => {
            let a = arg_spans(s);
            if a.len() >= 2 {
                let (x1, y1) = *pick(rng, &a);
                let (x2, y2) = *pick(rng, &a);
                if y1 <= x2 {
                    t = format!("{}{}{}{}{}", &s[..x1], &s[x2..y2], &s[y1..x2], &s[x1..y1], &s[y2..]);
                }
            }
        }
        "huge-num" => {
            let n = number_spans(s);
            if !n.is_empty() {
                let (x, y) = *pick(rng, &n);
                t = format!("{}{}{}", &s[..x], pick(rng, HUGE_NUMS), &s[y..]);
            } else {
                let i = rand_boundary(rng, s);
                t.insert_str(i, *pick(rng, HUGE_NUMS));
            }
        }
        "thresh-k" => {
            // find "thresh(" / "multi(" / "multi_a(" / "sortedmulti(" ... and edit k
            let mut pos = Vec::new();
            for name in ["thresh(", "multi(", "multi_a(", "sortedmulti(", "sortedmulti_a("] {
                let mut from = 0;
                while let Some(i) = s[from..].find(name) {
                    pos.push(from + i + name.len());
                    from += i + name.len();
                }
            }
            if !pos.is_empty() {
                let x = *pick(rng, &pos);
                let y = s[x..].find([',', ')']).map(|d| x + d).unwrap_or(s.len());
                let nargs = s[x..].bytes().take_while(|c| *c != b')').filter(|c| *c == b',').count();
                let ks = ["0".to_string(), (nargs + 1).to_string(), nargs.to_string(), "".to_string(), "4294967295".to_string(),
                          "4294967296".to_string(), "21".to_string(), "1000".to_string(), "-1".to_string(), "01".to_string(), "k".to_string()];
                t = format!("{}{}{}", &s[..x], pick(rng, &ks), &s[y..]);
            }
        }
        "dup-wrap" => {
            let f = frag_starts(s);
            let i = *pick(rng, &f);
            if s.is_char_boundary(i) {
                t.insert_str(i, *pick(rng, WRAPS));
            }
        }
        "odd-char" => {
            let i = rand_boundary(rng, s);
            let c = *pick(rng, ODD_CHARS);
            if rng.chance(1, 2) || i >= s.len() {
                t.insert_str(i, c);
            } else {
                // replace the char at i
                let j = s[i..].chars().next().map(|ch| i + ch.len_utf8()).unwrap_or(i);
                t = format!("{}{}{}", &s[..i], c, &s[j..]);
            }
        }
        "truncate" => {
            let i = rand_boundary(rng, s);
            t.truncate(i);
        }
        "dup-substr" => {
            let i = rand_boundary(rng, s);
            let j = rand_boundary(rng, s);
            let (i, j) = (i.min(j), i.max(j));
            let sub = s[i..j].to_string();
            let k = 1 + rng.below(3);
            for _ in 0..k {
                t.insert_str(j, &sub);
            }
        }
        "case-flip" => {
            let i = rand_boundary(rng, s);
            let j = (i + 1 + rng.below(12) as usize).min(s.len());
            if s.is_char_boundary(j) {
                let mid: String = s[i..j].chars().map(|c| if c.is_ascii_lowercase() { c.to_ascii_uppercase() } else { c.to_ascii_lowercase() }).collect();
                t = format!("{}{}{}", &s[..i], mid, &s[j..]);
            }
        }
        "splice-self" => {
            let other = w.any_valid_text(rng);
            let i = rand_boundary(rng, s);
            let j = rand_boundary(rng, &other);
            t = format!("{}{}", &s[..i], &other[j..]);
        }
        "checksum" => {
            let body = s.split('#').next().unwrap_or("").to_string();
            let good = w.checksum(&body);
            let variants: Vec<String> = vec![
                format!("{}#", body),
                format!("{}#{}", body, good),
                format!("{}#{}", body, &good[..good.len().saturating_sub(1)]),
                format!("{}#{}q", body, good),
                format!("{}#{}", body, good.to_uppercase()),
                format!("{}##{}", body, good),
                format!("{}#{}#{}", body, good, good),
                format!("#{}{}", good, body),
                format!("{}#aaaaaaaa", body),
                format!("{}#{}", body, "\u{e9}bcdefg"),
                format!("{} #{}", body, good),
                format!("{}#{}", &body[..rand_boundary(rng, &body)], good),
                format!("{}#{} ", body, good),
                "#".to_string(),
                format!("#{}", good),
            ];
            t = pick(rng, &variants).clone();
        }
        "multipath" => {
            let forms = ["/<0;1>/*", "/<0;1;2>/*", "/<>/*", "/<0>/*", "/<0;>/*", "/<;1>/*", "/<0;1/*", "/0;1>/*", "/<0;1>/<2;3>/*", "/<0;0>/*",
                         "/<0h;1'>/*", "/<0;1>", "/<0;1>/*h", "/<4294967295;1>/*", "/<2147483648;1>/*", "/<0;1>/*/*", "/<<0;1>;2>/*", "/<0,1>/*", "/**", "/*'", "/*h/0"];
            let spots: Vec<usize> = s.match_indices("/*").map(|(i, _)| i).chain(s.match_indices("/0").map(|(i, _)| i)).collect();
            let f = *pick(rng, &forms);
            if !spots.is_empty() && rng.chance(3, 4) {
                let i = *pick(rng, &spots);
                t = format!("{}{}{}", &s[..i], f, &s[(i + 2).min(s.len())..]);
            } else {
                // after a key: before a ')' or ','
                let p = struct_positions(s, b"),");
                if !p.is_empty() {
                    let i = *pick(rng, &p);
                    t.insert_str(i, f);
                }
            }
        }
        "odds" => {
            let forms = ["0@", "@", "1@", "4294967296@", "18446744073709551615@", "18446744073709551616@", "-1@", "1@2@", "@@", "1.5@", " 1@", "01@", "9999999999@"];
            let at: Vec<usize> = s.match_indices('@').map(|(i, _)| i).collect();
            let f = *pick(rng, &forms);
            if !at.is_empty() && rng.chance(2, 3) {
                let i = *pick(rng, &at);
                let mut st = i;
                while st > 0 && s.as_bytes()[st - 1].is_ascii_digit() {
                    st -= 1;
                }
                t = format!("{}{}{}", &s[..st], f, &s[i + 1..]);
            } else {
                let fs = frag_starts(s);
                let i = *pick(rng, &fs);
                if s.is_char_boundary(i) {
                    t.insert_str(i, f);
                }
            }
        }
        "key-edit" => {
            // locate a long alphanumeric run (a key) and replace it by a damaged key expression
            let b = s.as_bytes();
            let mut runs = Vec::new();
            let mut i = 0;
            while i < b.len() {
                if b[i].is_ascii_alphanumeric() {
                    let mut j = i;
                    while j < b.len() && b[j].is_ascii_alphanumeric() {
                        j += 1;
                    }
                    if j - i >= 40 {
                        runs.push((i, j));
                    }
                    i = j;
                } else {
                    i += 1;
                }
            }
            let k = w.damaged_key(rng);
            if !runs.is_empty() {
                let (x, y) = *pick(rng, &runs);
                t = format!("{}{}{}", &s[..x], k, &s[y..]);
            } else {
                t = k;
            }
        }
        _ => {
            // byte-replace by a random printable / charset char
            if !s.is_empty() {
                let i = rand_boundary(rng, s);
                if i < s.len() {
                    let j = s[i..].chars().next().map(|ch| i + ch.len_utf8()).unwrap_or(i);
                    let c = (0x20 + rng.below(0x5f) as u8) as char;
                    t = format!("{}{}{}", &s[..i], c, &s[j..]);
                }
            }
        }
    }
    t
}

pub fn random_printable(rng: &mut Rng, maxlen: u64) -> String {
    let n = rng.below(maxlen + 1);
    (0..n).map(|_| (0x20 + rng.below(0x5f) as u8) as char).collect()
}
pub fn random_charset(rng: &mut Rng, maxlen: u64) -> String {
    const CS: &[u8] = b"0123456789()[],'/*abcdefgh@:$%{}IJKLMNOPQRSTUVWXYZ&+-.;<=>?!^_|~ijklmnopqrstuvwxyzABCDEFGH`#\"\\ ";
    let n = rng.below(maxlen + 1);
    (0..n).map(|_| CS[rng.below(CS.len() as u64) as usize] as char).collect()
}
pub fn random_bytes(rng: &mut Rng, maxlen: u64) -> Vec<u8> {
    let n = rng.below(maxlen + 1);
    (0..n).map(|_| rng.next() as u8).collect()
}
/// structural soup: names, parens, commas, numbers and keys glued at random
pub fn random_soup(w: &RWorld, rng: &mut Rng, names: &[&str]) -> String {
    let n = 1 + rng.below(30);
    let mut s = String::new();
    for _ in 0..n {
        match rng.below(10) {
            0 | 1 | 2 => s.push_str(*pick(rng, names)),
            3 => s.push('('),
            4 => s.push(')'),
            5 => s.push(','),
            6 => s.push_str(*pick(rng, HUGE_NUMS)),
            7 => s.push_str(&w.some_key_text(rng)),
            8 => s.push_str(*pick(rng, WRAPS)),
            _ => s.push_str(*pick(rng, STRUCT)),
        }
    }
    s
}
