// ------------------------------------------------------------------ planner
// (included into bin.rs)  Descriptor::{plan,into_plan,plan_mall,into_plan_mall} with adversarial Assets
use miniscript::plan::{Assets, CanSign, TaprootAvailableLeaves, TaprootCanSign};
use miniscript::DescriptorPublicKey;

/// asset specification -> Assets. Items separated by ';':
///  R:<fingerprint>:<path>:<flags>  raw (KeySource, CanSign); flags e=ecdsa k=key-spend s=script-spend(any) 1=single-leaf m=many d=sighash-default
///  K:<descriptor public key text>  through Assets::add
///  S/H/P/Q:<hex>                   sha256 / hash256 / ripemd160 / hash160 image available
///  A:<n>  O:<n>                    absolute / relative time lock
pub fn parse_assets(spec: &str) -> Assets {
    let mut a = Assets::new();
    for item in spec.split(';') {
        if item.len() < 2 {
            continue;
        }
        let (tag, rest) = item.split_at(2);
        match tag {
            "R:" => {
                let p: Vec<&str> = rest.split(':').collect();
                if p.len() < 3 {
                    continue;
                }
                let fp = match bitcoin::bip32::Fingerprint::from_str(p[0]) {
                    Ok(f) => f,
                    Err(_) => continue,
                };
                let path = match bitcoin::bip32::DerivationPath::from_str(p[1]) {
                    Ok(x) => x,
                    Err(_) => continue,
                };
                let f = p[2];
                let leaves = if f.contains('1') {
                    TaprootAvailableLeaves::Single(bitcoin::TapLeafHash::from_byte_array([1; 32]))
                } else if f.contains('m') {
                    TaprootAvailableLeaves::Many(vec![bitcoin::TapLeafHash::from_byte_array([1; 32]), bitcoin::TapLeafHash::from_byte_array([2; 32])])
                } else if f.contains('s') {
                    TaprootAvailableLeaves::Any
                } else {
                    TaprootAvailableLeaves::None
                };
                let cs = CanSign { ecdsa: f.contains('e'), taproot: TaprootCanSign { key_spend: f.contains('k'), script_spend: leaves, sighash_default: f.contains('d') } };
                a.keys.insert(((fp, path), cs));
            }
            "K:" => {
                if let Ok(k) = DescriptorPublicKey::from_str(rest) {
                    a = a.add(k);
                }
            }
            "S:" => {
                if let Ok(h) = bitcoin::hashes::sha256::Hash::from_str(rest) {
                    a = a.add(h);
                }
            }
            "H:" => {
                if let Ok(h) = miniscript::hash256::Hash::from_str(rest) {
                    a = a.add(h);
                }
            }
            "P:" => {
                if let Ok(h) = bitcoin::hashes::ripemd160::Hash::from_str(rest) {
                    a = a.add(h);
                }
            }
            "Q:" => {
                if let Ok(h) = bitcoin::hashes::hash160::Hash::from_str(rest) {
                    a = a.add(h);
                }
            }
            "A:" => {
                if let Ok(n) = rest.parse::<u32>() {
                    a = a.after(absolute::LockTime::from_consensus(n));
                }
            }
            "O:" => {
                if let Ok(n) = rest.parse::<u32>() {
                    if let Some(l) = Sequence::from_consensus(n).to_relative_lock_time() {
                        a = a.older(l);
                    }
                }
            }
            _ => {}
        }
    }
    a
}

fn plan_descs(w: &RWorld) -> Vec<String> {
    let k = |i: usize| w.hexkey(i, false);
    let x = |i: usize| w.hexkey(i, true);
    let fp = &w.fp[0];
    let sh = crate::ast::hex(w.w.sha256_img(0).as_ref());
    vec![
        format!("wpkh({})", k(0)),
        format!("pkh({})", k(1)),
        format!("pk({})", k(2)),
        format!("sh(wpkh({}))", k(3)),
        format!("tr({})", x(0)),
        format!("tr({},pk({}))", x(0), x(1)),
        format!("tr({},{{pk({}),multi_a(1,{},{})}})", x(0), x(1), x(2), x(3)),
        format!("wpkh([{}/84'/0'/0']{}/0/*)", fp, w.xpub[0]),
        format!("wpkh({}/0/*)", w.xpub[0]),
        format!("wpkh({})", w.xpub[1]),
        format!("wpkh([{}]{})", w.fp[1], w.xpub[1]),
        format!("wpkh([{}/1/2]{})", fp, k(0)),
        format!("wpkh([{}]{})", fp, k(0)),
        format!("tr([{}/86'/0'/0']{}/0/*,pk({}/1/*))", fp, w.xpub[0], w.xpub[1]),
        format!("wsh(multi(2,[{}/48'/0']{}/0/*,{}/1/*,{}))", fp, w.xpub[0], w.xpub[1], k(0)),
        format!("wsh(thresh(2,pk({}),s:pk({}/*),sln:older(144)))", k(0), w.xpub[2]),
        format!("wsh(or_d(pk({}),and_v(v:pkh({}/5),sha256({}))))", k(0), w.xpub[0], sh),
        format!("sh(wsh(and_v(v:pk({}/*),after(500000001))))", w.xpub[1]),
        format!("wsh(and_v(v:pk({}),and_v(v:after(100),older(4194305))))", k(1)),
        format!("sh(sortedmulti(1,{},{}/*))", k(0), w.xpub[3]),
        format!("wsh(andor(pk({}),older(65535),and_v(v:pk({}),after(499999999))))", k(0), k(1)),
        format!("tr({},{{and_v(v:pk({}/*),older(10)),{{pk({}),and_v(v:pk({}),sha256({}))}}}})", x(4), w.xpub[0], x(1), x(2), sh),
        format!("wsh(multi(1,{}/<0;1>/*,{}))", w.xpub[0], k(0)),
        format!("wpkh({}/1'/2h/*)", w.xpub[0]),
        // uncompressed keys (and key hashes of them) where the context allows them as text
        format!("pkh({})", w.w.pks[6]),
        format!("sh(pkh({}))", w.w.pks[7]),
        format!("sh(and_v(v:pkh({}),pk({})))", w.w.pks[6], k(0)),
        format!("sh(or_d(pk({}),pkh({})))", w.w.pks[7], w.w.pks[6]),
        format!("sh(multi(1,{},{}))", w.w.pks[6], k(1)),
        format!("pk({})", w.w.pks[7]),
    ]
}

fn path_variants(rng: &mut Rng, full: &str) -> String {
    // full like "m/84'/0'/0'/0/5" or "m"
    let comps: Vec<&str> = full.split('/').skip(1).filter(|c| !c.is_empty()).collect();
    let join = |c: &[&str]| if c.is_empty() { "m".to_string() } else { format!("m/{}", c.join("/")) };
    match rng.below(12) {
        0 => "m".to_string(),
        1 => join(&comps),
        2 => join(&comps[..comps.len().saturating_sub(1)]),
        3 => join(&comps[..comps.len().saturating_sub(2)]),
        4 => format!("{}/0", join(&comps)),
        5 => format!("{}/2147483647'", join(&comps)),
        6 => "m/1".to_string(),
        7 => format!("m{}", "/0".repeat(255)),
        8 => format!("m{}", "/1'".repeat(1 + rng.below(3000) as usize)),
        9 => format!("m{}", "/7".repeat(10_000)),
        10 => {
            let mut c: Vec<String> = comps.iter().map(|s| s.to_string()).collect();
            if !c.is_empty() {
                let i = rng.below(c.len() as u64) as usize;
                c[i] = if c[i].ends_with('\'') { c[i].trim_end_matches('\'').to_string() } else { format!("{}'", c[i]) };
            }
            if c.is_empty() { "m".into() } else { format!("m/{}", c.join("/")) }
        }
        _ => "m/2147483647'/2147483647'".to_string(),
    }
}

pub fn g_plan(w: &RWorld, rng: &mut Rng, idx: u64) -> (Input, &'static str) {
    let descs = plan_descs(w);
    // corpus: the known defect (DESIGN 10-f) first
    if idx == 0 {
        let k0 = DescriptorPublicKey::from_str(&w.hexkey(0, false)).unwrap();
        let assets = format!("K:[{}/1]{}/2", k0.master_fingerprint(), w.xpub[0]);
        return (Input::Plan { desc: descs[0].clone(), idx: 0, assets }, "known-10f-empty-path");
    }
    let desc = if idx < 1 + descs.len() as u64 { descs[(idx - 1) as usize].clone() } else if rng.chance(1, 4) { w.desc[rng.below(w.desc.len() as u64) as usize].clone() } else { pick(rng, &descs).clone() };
    let der = *pick(rng, &[0u32, 1, 5, 0x7fff_ffff]);
    let mut items: Vec<String> = Vec::new();
    let mut label = "fingerprint-collision";
    if let Ok(d) = Descriptor::<DescriptorPublicKey>::from_str(&desc) {
        let keys: Vec<DescriptorPublicKey> = d.iter_pk().collect();
        for k in keys.iter() {
            if rng.chance(1, 5) {
                continue;
            }
            let fp = k.master_fingerprint();
            let full = match k.clone().into_single_keys().first().and_then(|s| s.clone().at_derivation_index(der).ok()).and_then(|dk| dk.full_derivation_path()) {
                Some(p) => format!("m/{}", p).replace("m/m", "m").trim_end_matches('/').to_string(),
                None => "m".to_string(),
            };
            let n = 1 + rng.below(2);
            for _ in 0..n {
                let flags = *pick(rng, &["eksd", "e", "k", "s", "ks", "e1", "em", "", "ekd", "es"]);
                match rng.below(5) {
                    0 => items.push(format!("K:{}", k)),
                    1 => {
                        // a DIFFERENT key carrying the same fingerprint as origin
                        let p = path_variants(rng, &full);
                        let p = p.trim_start_matches('m');
                        items.push(format!("K:[{}{}]{}/{}", fp, p, w.xpub[rng.below(3) as usize], rng.below(3)));
                        label = "colliding-origin-key";
                    }
                    _ => items.push(format!("R:{}:{}:{}", fp, path_variants(rng, &full), flags)),
                }
            }
        }
    } else {
        label = "unparsable-descriptor";
    }
    if rng.chance(1, 6) {
        items.push(format!("R:{}:m:eksd", w.fp[rng.below(4) as usize]));
    }
    for j in 0..4usize {
        if rng.chance(1, 3) {
            items.push(format!("S:{}", crate::ast::hex(w.w.sha256_img(j).as_ref())));
            items.push(format!("Q:{}", crate::ast::hex(w.w.hash160_img(j).as_ref())));
        }
    }
    if rng.chance(1, 2) {
        items.push(format!("A:{}", pick(rng, &[0u32, 1, 100, 499_999_999, 500_000_000, 500_000_001, 0xffff_ffff])));
    }
    if rng.chance(1, 2) {
        items.push(format!("O:{}", pick(rng, &[0u32, 1, 10, 144, 65535, 0x40_0000, 0x40_0001, 0x40_ffff, 0x8000_0000, 0xffff_ffff])));
    }
    if rng.chance(1, 10) {
        label = "absurd-many-keys";
        for i in 0..2000u32 {
            items.push(format!("R:{:08x}:m/{}:e", i, i));
        }
    }
    (Input::Plan { desc, idx: der, assets: items.join(";") }, label)
}

pub fn run_plan(w: &RWorld, i: &Input) -> Obs {
    let (desc, der, spec) = match i {
        Input::Plan { desc, idx, assets } => (desc, *idx, assets),
        _ => return Obs::na("input-kind"),
    };
    let d: Descriptor<DefiniteDescriptorKey> = match Descriptor::<DefiniteDescriptorKey>::from_str(desc) {
        Ok(d) => d,
        Err(_) => match Descriptor::<DescriptorPublicKey>::from_str(desc) {
            Ok(d) => {
                let single = match d.clone().into_single_descriptors() {
                    Ok(v) => v.into_iter().next().unwrap_or(d),
                    Err(_) => d,
                };
                match single.at_derivation_index(der) {
                    Ok(dd) => dd,
                    Err(e) => return Obs::na(format!("derive:{}", err_class(&e))),
                }
            }
            Err(e) => return Obs::na(format!("parse:{}", err_class(&e))),
        },
    };
    let assets = parse_assets(spec);
    let mut got = 0;
    #[allow(deprecated)]
    let plans = [d.clone().into_plan(&assets), d.clone().into_plan_mall(&assets), d.clone().plan(&assets), d.clone().plan_mall(&assets)];
    let mut ds = DummySat { w, keys: !0, pre: !0, lt: 0xffff_ffff, seq: 0xffff, big: vec![] };
    for p in plans.into_iter() {
        match p {
            Ok(plan) => {
                got += 1;
                // the satisfier has to honour the signature sizes the plan was made for
                ds.big = plan
                    .witness_template()
                    .iter()
                    .filter_map(|ph| match ph {
                        miniscript::miniscript::satisfy::Placeholder::SchnorrSigPk(pk, _, 65) => Some(pk.to_x_only_pubkey().serialize()),
                        _ => None,
                    })
                    .collect();
                let _ = plan.witness_template().len();
                let _ = plan.witness_version();
                let _ = plan.satisfaction_weight();
                let _ = plan.scriptsig_size();
                let _ = plan.witness_size();
                let _ = plan.absolute_timelock;
                let _ = plan.relative_timelock;
                let mut inp = bitcoin::psbt::Input::default();
                plan.update_psbt_input(&mut inp);
                if let Err(e) = plan.satisfy(&ds) {
                    let _ = err_class(&e);
                }
            }
            Err(back) => {
                let _ = back.desc_type();
            }
        }
    }
    // the logging provider wrapper goes through the same code
    let lp = miniscript::plan::LoggerAssetProvider(&assets);
    if d.clone().into_plan(&lp).is_ok() {
        got += 1;
    }
    if got > 0 {
        Obs::ok(format!("plans:{}", got))
    } else {
        Obs::err("no-plan")
    }
}
