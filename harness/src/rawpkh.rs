//! `rawpkh` engine (C01 stage): decoded scripts with raw key hashes (`Terminal::RawPkH`) nested under
//! or_b/or_d/or_i/or_c/and_v/and_b/andor/thresh, in Segwitv0 (compressed keys) and Legacy (compressed and
//! uncompressed keys), satisfied in both modes through a satisfier whose THREE lookups are driven by
//! independent masks: `lookup_ecdsa_sig` (sigs), `lookup_raw_pkh_pk` (rpk), `lookup_raw_pkh_ecdsa_sig` (rsig).
//! Output: Coq source (definitions of RawPkhCasesGen.v) — the decoded AST, the implementation's script
//! bytes, its template (`build_template[_mall]`: witness class, placeholders, has_sig, locks) and its
//! completed witness (`satisfy[_malleable]`), plus oracle tables computed with bitcoin/secp256k1 only
//! (key bytes, hash160, which (key, signature) pairs verify).
use crate::ast::{Rng, World, N_KEYS};
use bitcoin::hashes::{hash160, sha256, Hash};
use bitcoin::secp256k1::Message;
use bitcoin::sighash::EcdsaSighashType;
use miniscript::miniscript::satisfy::{Placeholder, Witness};
use miniscript::miniscript::ScriptContext;
use miniscript::{Legacy, Miniscript, Satisfier, Segwitv0, Terminal};
use std::fmt::Write as _;
use std::panic::{catch_unwind, AssertUnwindSafe};
use std::str::FromStr;

type Pk = bitcoin::PublicKey;

struct Sat<'a> {
    w: &'a World,
    sigs: &'a [bitcoin::ecdsa::Signature],
    m_sig: u32,
    m_rpk: u32,
    m_rsig: u32,
    pre: bool,
    after_ok: bool,
    older_ok: bool,
}

impl<'a> Sat<'a> {
    fn idx(&self, pk: &Pk) -> Option<usize> { self.w.pks.iter().position(|p| p == pk) }
    fn by_hash(&self, h: &hash160::Hash) -> Option<usize> {
        self.w.pks.iter().position(|p| hash160::Hash::hash(&p.to_bytes()) == *h)
    }
}

impl<'a> Satisfier<Pk> for Sat<'a> {
    fn lookup_ecdsa_sig(&self, pk: &Pk) -> Option<bitcoin::ecdsa::Signature> {
        let i = self.idx(pk)?;
        if self.m_sig & (1 << i) != 0 { Some(self.sigs[i]) } else { None }
    }
    fn lookup_raw_pkh_pk(&self, h: &hash160::Hash) -> Option<Pk> {
        let i = self.by_hash(h)?;
        if self.m_rpk & (1 << i) != 0 { Some(self.w.pks[i]) } else { None }
    }
    fn lookup_raw_pkh_ecdsa_sig(&self, h: &hash160::Hash) -> Option<(Pk, bitcoin::ecdsa::Signature)> {
        let i = self.by_hash(h)?;
        if self.m_rsig & (1 << i) != 0 { Some((self.w.pks[i], self.sigs[i])) } else { None }
    }
    fn lookup_sha256(&self, h: &sha256::Hash) -> Option<[u8; 32]> {
        if self.pre && self.w.sha256_img(0) == *h { Some(self.w.preimages[0]) } else { None }
    }
    fn check_older(&self, _: bitcoin::relative::LockTime) -> bool { self.older_ok }
    fn check_after(&self, _: bitcoin::absolute::LockTime) -> bool { self.after_ok }
}

fn coq_bytes(b: &[u8]) -> String {
    let v: Vec<String> = b.iter().map(|x| x.to_string()).collect();
    format!("[{}]", v.join(";"))
}

fn coq_ms<Ctx: ScriptContext>(w: &World, t: &Terminal<Pk, Ctx>) -> String {
    let k = |pk: &Pk| w.pks.iter().position(|p| p == pk).map(|i| i.to_string()).unwrap_or("999".into());
    let ks = |v: &[Pk]| v.iter().map(|p| k(p)).collect::<Vec<_>>().join(";");
    match t {
        Terminal::True => "MTrue".into(),
        Terminal::False => "MFalse".into(),
        Terminal::PkK(p) => format!("(MPkK {})", k(p)),
        Terminal::PkH(p) => format!("(MPkH {})", k(p)),
        Terminal::RawPkH(h) => format!("(MRawPkH {})", coq_bytes(h.as_byte_array())),
        Terminal::After(n) => format!("(MAfter {})", n.to_consensus_u32()),
        Terminal::Older(n) => format!("(MOlder {})", n.to_consensus_u32()),
        Terminal::Sha256(h) => format!("(MSha256 {})", coq_bytes(h.as_byte_array())),
        Terminal::Hash256(h) => format!("(MHash256 {})", coq_bytes(h.as_byte_array())),
        Terminal::Ripemd160(h) => format!("(MRipemd160 {})", coq_bytes(h.as_byte_array())),
        Terminal::Hash160(h) => format!("(MHash160 {})", coq_bytes(h.as_byte_array())),
        Terminal::Alt(x) => format!("(MAlt {})", coq_ms(w, &x.node)),
        Terminal::Swap(x) => format!("(MSwap {})", coq_ms(w, &x.node)),
        Terminal::Check(x) => format!("(MCheck {})", coq_ms(w, &x.node)),
        Terminal::DupIf(x) => format!("(MDupIf {})", coq_ms(w, &x.node)),
        Terminal::Verify(x) => format!("(MVerify {})", coq_ms(w, &x.node)),
        Terminal::NonZero(x) => format!("(MNonZero {})", coq_ms(w, &x.node)),
        Terminal::ZeroNotEqual(x) => format!("(MZeroNotEqual {})", coq_ms(w, &x.node)),
        Terminal::AndV(x, y) => format!("(MAndV {} {})", coq_ms(w, &x.node), coq_ms(w, &y.node)),
        Terminal::AndB(x, y) => format!("(MAndB {} {})", coq_ms(w, &x.node), coq_ms(w, &y.node)),
        Terminal::AndOr(a, b, c) => {
            format!("(MAndOr {} {} {})", coq_ms(w, &a.node), coq_ms(w, &b.node), coq_ms(w, &c.node))
        }
        Terminal::OrB(x, y) => format!("(MOrB {} {})", coq_ms(w, &x.node), coq_ms(w, &y.node)),
        Terminal::OrD(x, y) => format!("(MOrD {} {})", coq_ms(w, &x.node), coq_ms(w, &y.node)),
        Terminal::OrC(x, y) => format!("(MOrC {} {})", coq_ms(w, &x.node), coq_ms(w, &y.node)),
        Terminal::OrI(x, y) => format!("(MOrI {} {})", coq_ms(w, &x.node), coq_ms(w, &y.node)),
        Terminal::Thresh(th) => {
            let xs: Vec<String> = th.data().iter().map(|x| coq_ms(w, &x.node)).collect();
            format!("(MThresh {} [{}])", th.k(), xs.join(";"))
        }
        Terminal::Multi(th) => format!("(MMulti {} [{}])", th.k(), ks(th.data())),
        Terminal::SortedMulti(th) => format!("(MSortedMulti {} [{}])", th.k(), ks(th.data())),
        Terminal::MultiA(th) => format!("(MMultiA {} [{}])", th.k(), ks(th.data())),
        Terminal::SortedMultiA(th) => format!("(MSortedMultiA {} [{}])", th.k(), ks(th.data())),
    }
}

fn coq_ph(s: &Sat, p: &Placeholder<Pk>) -> String {
    let hk = |h: &hash160::Hash| s.by_hash(h).map(|i| i.to_string()).unwrap_or("999".into());
    match p {
        // the size recorded in the placeholder must be Ctx::pk_len of the key: checked by `L` below
        Placeholder::Pubkey(pk, n) => format!("(PhPubkey {}, {})", s.idx(pk).unwrap_or(999), n),
        Placeholder::PubkeyHash(h, n) => format!("(PhPubkey {}, {})", hk(h), n),
        Placeholder::EcdsaSigPk(pk) => format!("(PhSig {}, 73)", s.idx(pk).unwrap_or(999)),
        Placeholder::EcdsaSigPkHash(h) => format!("(PhSig {}, 73)", hk(h)),
        Placeholder::Sha256Preimage(h) => format!("(PhPre HSha256 {}, 33)", coq_bytes(h.as_byte_array())),
        Placeholder::HashDissatisfaction => "(PhHashDissat, 33)".into(),
        Placeholder::PushOne => "(PhPushOne, 2)".into(),
        Placeholder::PushZero => "(PhPushZero, 1)".into(),
        _ => "(PhPubkey 998, 0)".into(),
    }
}

fn opt<T: ToString>(o: Option<T>) -> String {
    match o {
        Some(x) => format!("(Some {})", x.to_string()),
        None => "None".into(),
    }
}

const TEMPLATES: &[&str] = &[
    "c:pk_h(A)",
    "or_d(c:pk_h(A),c:pk_k(B))",
    "or_d(c:pk_k(B),c:pk_h(A))",
    "or_b(c:pk_h(A),sc:pk_k(B))",
    "or_b(c:pk_k(B),ac:pk_h(A))",
    "or_b(c:pk_h(A),ac:pk_h(C))",
    "or_i(c:pk_h(A),c:pk_k(B))",
    "or_i(c:pk_h(A),c:pk_h(B))",
    "and_v(vc:pk_h(A),c:pk_k(B))",
    "and_v(vc:pk_k(B),c:pk_h(A))",
    "and_b(c:pk_h(A),ac:pk_h(B))",
    "andor(c:pk_h(A),c:pk_k(B),c:pk_k(C))",
    "andor(c:pk_k(B),c:pk_h(A),c:pk_h(C))",
    "andor(c:pk_h(A),c:pk_h(B),c:pk_h(C))",
    "thresh(2,c:pk_h(A),sc:pk_k(B),ac:pk_h(C))",
    "thresh(1,c:pk_h(A),ac:pk_h(B),sc:pk_k(C))",
    "thresh(2,c:pk_h(A),ac:pk_h(B),ac:pk_h(C))",
    "thresh(3,c:pk_h(A),ac:pk_h(B),sc:pk_k(C))",
    "or_d(c:pk_h(A),and_v(vc:pk_h(B),older(5)))",
    "or_i(and_v(vc:pk_h(A),after(100)),c:pk_h(B))",
    "and_v(or_c(c:pk_h(A),vc:pk_k(B)),c:pk_k(C))",
    "or_d(c:pk_h(A),and_v(v:sha256(H),c:pk_k(B)))",
    "andor(c:pk_h(A),older(5),c:pk_h(B))",
    "or_d(dvc:pk_h(A),c:pk_h(B))",
    "or_b(jc:pk_h(A),ac:pk_h(B))",
    "thresh(2,c:pk_h(A),a:or_i(c:pk_h(B),0),sc:pk_k(C))",
];

const TRIPLES: &[(usize, usize, usize)] = &[(0, 1, 2), (3, 4, 5), (5, 2, 0), (6, 1, 7), (2, 6, 3), (7, 0, 6)];

fn one<Ctx: ScriptContext<Key = Pk>>(
    w: &World,
    sigs: &[bitcoin::ecdsa::Signature],
    rng: &mut Rng,
    ctxname: &str,
    tpl: &str,
    tr: (usize, usize, usize),
    out: &mut String,
    stats: &mut (u64, u64, u64),
) -> bool {
    let src = tpl
        .replace("(A)", &format!("({})", w.pks[tr.0]))
        .replace("(B)", &format!("({})", w.pks[tr.1]))
        .replace("(C)", &format!("({})", w.pks[tr.2]))
        .replace("(H)", &format!("({})", w.sha256_img(0)));
    // encoded from a Legacy source (allows uncompressed keys), decoded without context checks
    let m0 = match Miniscript::<Pk, Legacy>::from_str_insane(&src) {
        Ok(m) => m,
        Err(_) => return false,
    };
    let script = m0.encode();
    let d = match Miniscript::<Pk, Ctx>::decode_consensus(&script) {
        Ok(d) => d,
        Err(_) => return false,
    };
    let nraw = d.iter().filter(|x| matches!(x.node, Terminal::RawPkH(_))).count();
    if nraw == 0 {
        return false;
    }
    let full: u32 = (1 << N_KEYS) - 1;
    let r1 = rng.next() as u32 & full;
    let r2 = rng.next() as u32 & full;
    let r3 = rng.next() as u32 & full;
    let r4 = rng.next() as u32 & full;
    // (sigs, rpk, rsig)
    let masks: [(u32, u32, u32); 7] = [
        (full, full, full),
        (full, 0, 0),
        (r1, full, r1),
        (0, full, 0),
        (r2, r3, r3 & r2),
        (r2, r3, r4),
        (r4, 0, full),
    ];
    let mut runs = Vec::new();
    for (ai, &(ms_, mp, mr)) in masks.iter().enumerate() {
        for mall in [false, true] {
            let s = Sat {
                w,
                sigs,
                m_sig: ms_,
                m_rpk: mp,
                m_rsig: mr,
                pre: ai % 2 == 0,
                after_ok: ai % 3 != 1,
                older_ok: ai % 3 != 2,
            };
            let tplr = catch_unwind(AssertUnwindSafe(|| if mall { d.build_template_mall(&s) } else { d.build_template(&s) }));
            let satr = catch_unwind(AssertUnwindSafe(|| if mall { d.satisfy_malleable(&s) } else { d.satisfy(&s) }));
            let (tpl_s, wit_s) = match (tplr, satr) {
                (Ok(t), Ok(r)) => {
                    let st = match &t.stack {
                        Witness::Stack(v) => {
                            format!("(XStack [{}])", v.iter().map(|p| coq_ph(&s, p)).collect::<Vec<_>>().join(";"))
                        }
                        Witness::Unavailable => "XUnavailable".into(),
                        Witness::Impossible => "XImpossible".into(),
                    };
                    let a = opt(t.absolute_timelock.map(|x| x.to_consensus_u32()));
                    let rl = opt(t.relative_timelock.map(|x| x.to_consensus_u32()));
                    let wit = match r {
                        Ok(items) => {
                            stats.0 += 1;
                            format!("(Some [{}])", items.iter().map(|i| coq_bytes(i)).collect::<Vec<_>>().join(";"))
                        }
                        Err(_) => {
                            stats.1 += 1;
                            "None".into()
                        }
                    };
                    (format!("{} {} {} {}", st, t.has_sig, a, rl), wit)
                }
                _ => {
                    stats.2 += 1;
                    ("XPanic false None None".to_string(), "None".to_string())
                }
            };
            runs.push(format!(
                "mkRun {} {} {} {} {} {} {} {} {}",
                ms_, mp, mr, s.pre, s.after_ok, s.older_ok, mall, tpl_s, wit_s
            ));
        }
    }
    writeln!(
        out,
        "  mkRCase {} {} {} {} {}\n    [{}]",
        ctxname,
        coq_ms(w, &d.node),
        d.ty.mall.signed,
        nraw,
        coq_bytes(script.as_bytes()),
        runs.join(";\n     ")
    )
    .unwrap();
    true
}

pub fn run(args: &[String]) {
    let seed: u64 = args.first().and_then(|s| s.parse().ok()).unwrap_or(1);
    let w = World::new();
    let mut rng = Rng(seed ^ 0x7261_7770_6b68);
    let msg = Message::from_digest([7u8; 32]);
    let sigs: Vec<bitcoin::ecdsa::Signature> = (0..N_KEYS)
        .map(|i| bitcoin::ecdsa::Signature { signature: w.secp.sign_ecdsa(&msg, &w.sks[i]), sighash_type: EcdsaSighashType::All })
        .collect();
    // oracle tables: key bytes, hash160 of them, the signature bytes; which (key, sig) pairs verify (secp256k1)
    println!("Definition rk_keys : list (bytes * bytes * bytes) := [");
    let rows: Vec<String> = (0..N_KEYS)
        .map(|i| {
            let kb = w.pks[i].to_bytes();
            format!("  ({}, {}, {})", coq_bytes(&kb), coq_bytes(hash160::Hash::hash(&kb).as_byte_array()), coq_bytes(&sigs[i].to_vec()))
        })
        .collect();
    println!("{}].", rows.join(";\n"));
    let mut pairs = Vec::new();
    for i in 0..N_KEYS {
        for j in 0..N_KEYS {
            if w.secp.verify_ecdsa(&msg, &sigs[j].signature, &w.pks[i].inner).is_ok() {
                pairs.push(format!("({},{})", i, j));
            }
        }
    }
    println!("Definition rk_valid : list (N * N) := [{}].", pairs.join(";"));
    println!(
        "Definition rk_pre : bytes * bytes := ({}, {}).",
        coq_bytes(&w.preimages[0]),
        coq_bytes(sha256::Hash::hash(&w.preimages[0]).as_byte_array())
    );
    let mut chunks: Vec<String> = Vec::new();
    let mut cur = String::new();
    let mut n_in = 0usize;
    let mut total = 0usize;
    let mut stats = (0u64, 0u64, 0u64);
    let mut hist = std::collections::BTreeMap::<String, u64>::new();
    for tpl in TEMPLATES {
        for &tr in TRIPLES {
            let unc = tr.0 >= 6 || tr.1 >= 6 || tr.2 >= 6;
            for ctx in 0..2 {
                if ctx == 0 && unc {
                    continue; // an uncompressed key cannot spend a v0 witness program
                }
                let mut s = String::new();
                let ok = if ctx == 0 {
                    one::<Segwitv0>(&w, &sigs, &mut rng, "CSegwit", tpl, tr, &mut s, &mut stats)
                } else {
                    one::<Legacy>(&w, &sigs, &mut rng, "CLegacy", tpl, tr, &mut s, &mut stats)
                };
                if ok {
                    if n_in > 0 {
                        cur.push_str(";\n");
                    }
                    cur.push_str(s.trim_end());
                    n_in += 1;
                    total += 1;
                    *hist.entry(format!("{}/{}", if ctx == 0 { "segwitv0" } else { "legacy" }, if unc { "uncompressed" } else { "compressed" })).or_insert(0) += 1;
                    if n_in == 40 {
                        chunks.push(std::mem::take(&mut cur));
                        n_in = 0;
                    }
                } else {
                    println!("(* SKIP {} {:?} ctx={} *)", tpl, tr, ctx);
                }
            }
        }
    }
    if n_in > 0 {
        chunks.push(cur);
    }
    for (i, c) in chunks.iter().enumerate() {
        println!("Definition rk_cases_{} : list rcase := [\n{}].", i, c);
    }
    let names: Vec<String> = (0..chunks.len()).map(|i| format!("rk_cases_{}", i)).collect();
    println!("Definition rk_cases : list (list rcase) := [{}].", names.join("; "));
    println!(
        "(* SUMMARY scripts={} runs={} sat_ok={} sat_err={} panics={} hist={:?} *)",
        total,
        total * 14,
        stats.0,
        stats.1,
        stats.2,
        hist
    );
}
