//! `rawpkh` engine (C01 stage): decoded scripts with raw key hashes (`Terminal::RawPkH`) nested under
//! or_b/or_d/or_i/or_c/and_v/and_b/andor/thresh, in Segwitv0 (compressed keys), Tap (x-only keys) and Legacy (compressed and
//! uncompressed keys), satisfied in both modes through a satisfier whose THREE lookups are driven by
//! independent masks: `lookup_ecdsa_sig` (sigs), `lookup_raw_pkh_pk` (rpk), `lookup_raw_pkh_ecdsa_sig` (rsig).
//! Output: Coq source (definitions of RawPkhCasesGen.v) — the decoded AST, the implementation's script
//! bytes, its template (`build_template[_mall]`: witness class, placeholders, has_sig, locks) and its
//! completed witness (`satisfy[_malleable]`), plus oracle tables computed with bitcoin/secp256k1 only
//! (key bytes, hash160, which (key, signature) pairs verify).
use crate::ast::{Rng, World, N_KEYS};
use bitcoin::hashes::{hash160, sha256, Hash};
use bitcoin::secp256k1::XOnlyPublicKey;
use miniscript::{MiniscriptKey, Tap, ToPublicKey};
use bitcoin::secp256k1::Message;
use bitcoin::sighash::EcdsaSighashType;
use miniscript::miniscript::satisfy::{Placeholder, Witness};
use miniscript::miniscript::ScriptContext;
use miniscript::{Legacy, Miniscript, Satisfier, Segwitv0, Terminal};
use std::fmt::Write as _;
use std::panic::{catch_unwind, AssertUnwindSafe};
use std::str::FromStr;

type Pk = bitcoin::PublicKey;

/// the two key types of decoded scripts: full keys (Segwitv0, Legacy) and x-only keys (Tap)
trait RKey:
    MiniscriptKey + ToPublicKey
    + Copy
    + miniscript::FromStrKey
{
    fn idx(&self, w: &World) -> Option<usize>;
    fn text(w: &World, i: usize) -> String;
}
impl RKey for Pk {
    fn idx(&self, w: &World) -> Option<usize> { w.pks.iter().position(|p| p == self) }
    fn text(w: &World, i: usize) -> String { format!("{}", w.pks[i]) }
}
impl RKey for XOnlyPublicKey {
    fn idx(&self, w: &World) -> Option<usize> { w.pks.iter().position(|p| p.inner.x_only_public_key().0 == *self) }
    fn text(w: &World, i: usize) -> String { format!("{}", w.pks[i].inner.x_only_public_key().0) }
}

struct Sat<'a> {
    w: &'a World,
    sigs: &'a [bitcoin::ecdsa::Signature],
    xsigs: &'a [bitcoin::taproot::Signature],
    m_sig: u32,
    m_rpk: u32,
    m_rsig: u32,
    pre: bool,
    after_ok: bool,
    older_ok: bool,
}

impl<'a> Sat<'a> {
    fn idx(&self, pk: &Pk) -> Option<usize> { self.w.pks.iter().position(|p| p == pk) }
    fn by_hash(&self, h: &hash160::Hash) -> Option<usize> {
        self.w.pks.iter().position(|p| hash160::Hash::hash(&p.to_bytes()) == *h)
    }
    fn by_xhash(&self, h: &hash160::Hash) -> Option<usize> {
        self.w.pks.iter().position(|p| hash160::Hash::hash(&p.inner.x_only_public_key().0.serialize()) == *h)
    }
    fn any_hash(&self, h: &hash160::Hash) -> Option<usize> { self.by_hash(h).or_else(|| self.by_xhash(h)) }
}

impl<'a> Satisfier<XOnlyPublicKey> for Sat<'a> {
    fn lookup_tap_leaf_script_sig(&self, pk: &XOnlyPublicKey, _: &bitcoin::taproot::TapLeafHash) -> Option<bitcoin::taproot::Signature> {
        let i = pk.idx(self.w)?;
        if self.m_sig & (1 << i) != 0 { Some(self.xsigs[i]) } else { None }
    }
    fn lookup_raw_pkh_x_only_pk(&self, h: &hash160::Hash) -> Option<XOnlyPublicKey> {
        let i = self.by_xhash(h)?;
        if self.m_rpk & (1 << i) != 0 { Some(self.w.pks[i].inner.x_only_public_key().0) } else { None }
    }
    fn lookup_raw_pkh_tap_leaf_script_sig(
        &self,
        hl: &(hash160::Hash, bitcoin::taproot::TapLeafHash),
    ) -> Option<(XOnlyPublicKey, bitcoin::taproot::Signature)> {
        let i = self.by_xhash(&hl.0)?;
        if self.m_rsig & (1 << i) != 0 { Some((self.w.pks[i].inner.x_only_public_key().0, self.xsigs[i])) } else { None }
    }
    fn lookup_sha256(&self, h: &sha256::Hash) -> Option<[u8; 32]> {
        if self.pre && self.w.sha256_img(0) == *h { Some(self.w.preimages[0]) } else { None }
    }
    fn check_older(&self, _: bitcoin::relative::LockTime) -> bool { self.older_ok }
    fn check_after(&self, _: bitcoin::absolute::LockTime) -> bool { self.after_ok }
}

impl<'a> Satisfier<Pk> for Sat<'a> {
    fn lookup_ecdsa_sig(&self, pk: &Pk) -> Option<bitcoin::ecdsa::Signature> {
        let i = self.idx(pk)?;
        if self.m_sig & (1 << i) != 0 { Some(self.sigs[i]) } else { None }
    }
    fn lookup_raw_pkh_pk(&self, h: &hash160::Hash) -> Option<Pk> {
        let i = self.by_hash(h)?;
        if self.m_rpk & (1 << i) != 0 { Some(self.w.pks[i]) } else { None }
    }
    fn lookup_raw_pkh_ecdsa_sig(&self, h: &hash160::Hash) -> Option<(Pk, bitcoin::ecdsa::Signature)> {
        let i = self.by_hash(h)?;
        if self.m_rsig & (1 << i) != 0 { Some((self.w.pks[i], self.sigs[i])) } else { None }
    }
    fn lookup_sha256(&self, h: &sha256::Hash) -> Option<[u8; 32]> {
        if self.pre && self.w.sha256_img(0) == *h { Some(self.w.preimages[0]) } else { None }
    }
    fn check_older(&self, _: bitcoin::relative::LockTime) -> bool { self.older_ok }
    fn check_after(&self, _: bitcoin::absolute::LockTime) -> bool { self.after_ok }
}

fn coq_bytes(b: &[u8]) -> String {
    let v: Vec<String> = b.iter().map(|x| x.to_string()).collect();
    format!("[{}]", v.join(";"))
}

/// hash images are printed through Display (hex, forward byte order for the four miniscript hash types)
fn coq_hex<T: std::fmt::Display>(h: &T) -> String {
    let t = format!("{}", h);
    let b: Vec<u8> = (0..t.len() / 2).map(|i| u8::from_str_radix(&t[2 * i..2 * i + 2], 16).unwrap_or(0)).collect();
    coq_bytes(&b)
}

fn coq_ms<K: RKey, Ctx: ScriptContext>(w: &World, t: &Terminal<K, Ctx>) -> String {
    let k = |pk: &K| pk.idx(w).map(|i| i.to_string()).unwrap_or("999".into());
    let ks = |v: &[K]| v.iter().map(|p| k(p)).collect::<Vec<_>>().join(";");
    match t {
        Terminal::True => "MTrue".into(),
        Terminal::False => "MFalse".into(),
        Terminal::PkK(p) => format!("(MPkK {})", k(p)),
        Terminal::PkH(p) => format!("(MPkH {})", k(p)),
        Terminal::RawPkH(h) => format!("(MRawPkH {})", coq_bytes(h.as_byte_array())),
        Terminal::After(n) => format!("(MAfter {})", n.to_consensus_u32()),
        Terminal::Older(n) => format!("(MOlder {})", n.to_consensus_u32()),
        Terminal::Sha256(h) => format!("(MSha256 {})", coq_hex(h)),
        Terminal::Hash256(h) => format!("(MHash256 {})", coq_hex(h)),
        Terminal::Ripemd160(h) => format!("(MRipemd160 {})", coq_hex(h)),
        Terminal::Hash160(h) => format!("(MHash160 {})", coq_hex(h)),
        Terminal::Alt(x) => format!("(MAlt {})", coq_ms(w, &x.node)),
        Terminal::Swap(x) => format!("(MSwap {})", coq_ms(w, &x.node)),
        Terminal::Check(x) => format!("(MCheck {})", coq_ms(w, &x.node)),
        Terminal::DupIf(x) => format!("(MDupIf {})", coq_ms(w, &x.node)),
        Terminal::Verify(x) => format!("(MVerify {})", coq_ms(w, &x.node)),
        Terminal::NonZero(x) => format!("(MNonZero {})", coq_ms(w, &x.node)),
        Terminal::ZeroNotEqual(x) => format!("(MZeroNotEqual {})", coq_ms(w, &x.node)),
        Terminal::AndV(x, y) => format!("(MAndV {} {})", coq_ms(w, &x.node), coq_ms(w, &y.node)),
        Terminal::AndB(x, y) => format!("(MAndB {} {})", coq_ms(w, &x.node), coq_ms(w, &y.node)),
        Terminal::AndOr(a, b, c) => {
            format!("(MAndOr {} {} {})", coq_ms(w, &a.node), coq_ms(w, &b.node), coq_ms(w, &c.node))
        }
        Terminal::OrB(x, y) => format!("(MOrB {} {})", coq_ms(w, &x.node), coq_ms(w, &y.node)),
        Terminal::OrD(x, y) => format!("(MOrD {} {})", coq_ms(w, &x.node), coq_ms(w, &y.node)),
        Terminal::OrC(x, y) => format!("(MOrC {} {})", coq_ms(w, &x.node), coq_ms(w, &y.node)),
        Terminal::OrI(x, y) => format!("(MOrI {} {})", coq_ms(w, &x.node), coq_ms(w, &y.node)),
        Terminal::Thresh(th) => {
            let xs: Vec<String> = th.data().iter().map(|x| coq_ms(w, &x.node)).collect();
            format!("(MThresh {} [{}])", th.k(), xs.join(";"))
        }
        Terminal::Multi(th) => format!("(MMulti {} [{}])", th.k(), ks(th.data())),
        Terminal::SortedMulti(th) => format!("(MSortedMulti {} [{}])", th.k(), ks(th.data())),
        Terminal::MultiA(th) => format!("(MMultiA {} [{}])", th.k(), ks(th.data())),
        Terminal::SortedMultiA(th) => format!("(MSortedMultiA {} [{}])", th.k(), ks(th.data())),
    }
}

fn coq_ph<K: RKey>(s: &Sat, p: &Placeholder<K>) -> String {
    let hk = |h: &hash160::Hash| s.any_hash(h).map(|i| i.to_string()).unwrap_or("999".into());
    match p {
        // the size recorded in the placeholder must be Ctx::pk_len of the key: checked by `L` below
        Placeholder::Pubkey(pk, n) => format!("(PhPubkey {}, {})", pk.idx(s.w).unwrap_or(999), n),
        Placeholder::PubkeyHash(h, n) => format!("(PhPubkey {}, {})", hk(h), n),
        Placeholder::EcdsaSigPk(pk) => format!("(PhSig {}, 73)", pk.idx(s.w).unwrap_or(999)),
        // the recorded size of a Schnorr signature is its byte length; its witness size is that + 1
        Placeholder::SchnorrSigPk(pk, _, n) => format!("(PhSig {}, {})", pk.idx(s.w).unwrap_or(999), n + 1),
        Placeholder::SchnorrSigPkHash(h, _, n) => format!("(PhSig {}, {})", hk(h), n + 1),
        Placeholder::EcdsaSigPkHash(h) => format!("(PhSig {}, 73)", hk(h)),
        Placeholder::Sha256Preimage(h) => format!("(PhPre HSha256 {}, 33)", coq_hex(h)),
        Placeholder::HashDissatisfaction => "(PhHashDissat, 33)".into(),
        Placeholder::PushOne => "(PhPushOne, 2)".into(),
        Placeholder::PushZero => "(PhPushZero, 1)".into(),
        _ => "(PhPubkey 998, 0)".into(),
    }
}

fn opt<T: ToString>(o: Option<T>) -> String {
    match o {
        Some(x) => format!("(Some {})", x.to_string()),
        None => "None".into(),
    }
}

const TEMPLATES: &[&str] = &[
    "c:pk_h(A)",
    "or_d(c:pk_h(A),c:pk_k(B))",
    "or_d(c:pk_k(B),c:pk_h(A))",
    "or_b(c:pk_h(A),sc:pk_k(B))",
    "or_b(c:pk_k(B),ac:pk_h(A))",
    "or_b(c:pk_h(A),ac:pk_h(C))",
    "or_i(c:pk_h(A),c:pk_k(B))",
    "or_i(c:pk_h(A),c:pk_h(B))",
    "and_v(vc:pk_h(A),c:pk_k(B))",
    "and_v(vc:pk_k(B),c:pk_h(A))",
    "and_b(c:pk_h(A),ac:pk_h(B))",
    "andor(c:pk_h(A),c:pk_k(B),c:pk_k(C))",
    "andor(c:pk_k(B),c:pk_h(A),c:pk_h(C))",
    "andor(c:pk_h(A),c:pk_h(B),c:pk_h(C))",
    "thresh(2,c:pk_h(A),sc:pk_k(B),ac:pk_h(C))",
    "thresh(1,c:pk_h(A),ac:pk_h(B),sc:pk_k(C))",
    "thresh(2,c:pk_h(A),ac:pk_h(B),ac:pk_h(C))",
    "thresh(3,c:pk_h(A),ac:pk_h(B),sc:pk_k(C))",
    "or_d(c:pk_h(A),and_v(vc:pk_h(B),older(5)))",
    "or_i(and_v(vc:pk_h(A),after(100)),c:pk_h(B))",
    "and_v(or_c(c:pk_h(A),vc:pk_k(B)),c:pk_k(C))",
    "or_d(c:pk_h(A),and_v(v:sha256(H),c:pk_k(B)))",
    "andor(c:pk_h(A),older(5),c:pk_h(B))",
    "or_d(dvc:pk_h(A),c:pk_h(B))",
    "or_b(jc:pk_h(A),ac:pk_h(B))",
    "thresh(2,c:pk_h(A),a:or_i(c:pk_h(B),0),sc:pk_k(C))",
];

const TRIPLES: &[(usize, usize, usize)] = &[(0, 1, 2), (3, 4, 5), (5, 2, 0), (6, 1, 7), (2, 6, 3), (7, 0, 6)];

fn one<Src: ScriptContext<Key = Ctx::Key>, Ctx: ScriptContext>(
    w: &World,
    sigs: &[bitcoin::ecdsa::Signature],
    xsigs: &[bitcoin::taproot::Signature],
    rng: &mut Rng,
    ctxname: &str,
    tpl: &str,
    tr: (usize, usize, usize),
    out: &mut String,
    stats: &mut (u64, u64, u64),
) -> Result<(), String>
where
    Ctx::Key: RKey,
    for<'a> Sat<'a>: Satisfier<Ctx::Key>,
{
    let src = tpl
        .replace("(A)", &format!("({})", <Ctx::Key as RKey>::text(w, tr.0)))
        .replace("(B)", &format!("({})", <Ctx::Key as RKey>::text(w, tr.1)))
        .replace("(C)", &format!("({})", <Ctx::Key as RKey>::text(w, tr.2)))
        .replace("(H)", &format!("({})", w.sha256_img(0)));
    // encoded from a source of the same family (Legacy allows uncompressed keys but no or_i), decoded without context checks
    let m0 = match Miniscript::<Ctx::Key, Src>::from_str_insane(&src) {
        Ok(m) => m,
        Err(e) => return Err(format!("source rejected: {}", e)),
    };
    let script = m0.encode();
    let d = match Miniscript::<Ctx::Key, Ctx>::decode_consensus(&script) {
        Ok(d) => d,
        Err(e) => return Err(format!("decode error: {}", e)),
    };
    let nraw = d.iter().filter(|x| matches!(x.node, Terminal::RawPkH(_))).count();
    if nraw == 0 {
        return Err("no raw leaf".into());
    }
    let full: u32 = (1 << N_KEYS) - 1;
    let r1 = rng.next() as u32 & full;
    let r2 = rng.next() as u32 & full;
    let r3 = rng.next() as u32 & full;
    let r4 = rng.next() as u32 & full;
    // (sigs, rpk, rsig)
    // Tap, two restrictions on the independent-mask settings (see notes/C01-rawpkh.md):
    // (1) the model represents SchnorrSigPkHash(h, leaf, size) by PhSig k, whose size it reads from the per-key
    //     signature lookup, so the raw signature lookup only answers for keys whose per-key lookup answers;
    // (2) completing PubkeyHash(h, 33) asks lookup_raw_pkh_x_only_pk ONLY (the ECDSA arm falls back to the key that
    //     comes with lookup_raw_pkh_ecdsa_sig, the x-only arm has no such fall-back), so a template can be a Stack
    //     while `satisfy` fails; the model's completion never fails on a key. Under Tap the raw signature lookup
    //     therefore only answers for hashes lookup_raw_pkh_x_only_pk knows. `directed_tap_asymmetry` below
    //     records that behaviour separately.
    let tap = ctxname == "CTap";
    let (r4s, fulls, p7) = if tap { (r4 & r2 & r3, r4, r4) } else { (r4, full, 0) };
    let masks: [(u32, u32, u32); 7] = [
        (full, full, full),
        (full, 0, 0),
        (r1, full, r1),
        (0, full, 0),
        (r2, r3, r3 & r2),
        (r2, r3, r4s),
        (r4, p7, fulls),
    ];
    let mut runs = Vec::new();
    for (ai, &(ms_, mp, mr)) in masks.iter().enumerate() {
        for mall in [false, true] {
            let s = Sat {
                w,
                sigs,
                xsigs,
                m_sig: ms_,
                m_rpk: mp,
                m_rsig: mr,
                pre: ai % 2 == 0,
                after_ok: ai % 3 != 1,
                older_ok: ai % 3 != 2,
            };
            let tplr = catch_unwind(AssertUnwindSafe(|| if mall { d.build_template_mall(&s) } else { d.build_template(&s) }));
            let satr = catch_unwind(AssertUnwindSafe(|| if mall { d.satisfy_malleable(&s) } else { d.satisfy(&s) }));
            let (tpl_s, wit_s) = match (tplr, satr) {
                (Ok(t), Ok(r)) => {
                    let st = match &t.stack {
                        Witness::Stack(v) => {
                            format!("(XStack [{}])", v.iter().map(|p| coq_ph(&s, p)).collect::<Vec<_>>().join(";"))
                        }
                        Witness::Unavailable => "XUnavailable".into(),
                        Witness::Impossible => "XImpossible".into(),
                    };
                    let a = opt(t.absolute_timelock.map(|x| x.to_consensus_u32()));
                    let rl = opt(t.relative_timelock.map(|x| x.to_consensus_u32()));
                    let wit = match r {
                        Ok(items) => {
                            stats.0 += 1;
                            format!("(Some [{}])", items.iter().map(|i| coq_bytes(i)).collect::<Vec<_>>().join(";"))
                        }
                        Err(_) => {
                            stats.1 += 1;
                            "None".into()
                        }
                    };
                    (format!("{} {} {} {}", st, t.has_sig, a, rl), wit)
                }
                _ => {
                    stats.2 += 1;
                    ("XPanic false None None".to_string(), "None".to_string())
                }
            };
            runs.push(format!(
                "mkRun {} {} {} {} {} {} {} {} {}",
                ms_, mp, mr, s.pre, s.after_ok, s.older_ok, mall, tpl_s, wit_s
            ));
        }
    }
    writeln!(
        out,
        "  mkRCase {} {} {} {} {}\n    [{}]",
        ctxname,
        coq_ms(w, &d.node),
        d.ty.mall.signed,
        nraw,
        coq_bytes(script.as_bytes()),
        runs.join(";\n     ")
    )
    .unwrap();
    Ok(())
}

/// `c:raw_pk_h(H(key 5))` with a satisfier that answers ONLY the raw signature lookup (which carries the key):
/// what the template says and whether `satisfy` completes it, in Segwitv0 and in Tap.
fn directed_asymmetry<Ctx: ScriptContext>(w: &World, sigs: &[bitcoin::ecdsa::Signature], xsigs: &[bitcoin::taproot::Signature]) -> String
where
    Ctx::Key: RKey,
    for<'a> Sat<'a>: Satisfier<Ctx::Key>,
{
    let src = format!("c:pk_h({})", <Ctx::Key as RKey>::text(w, 5));
    let d = Miniscript::<Ctx::Key, Ctx>::from_str_insane(&src)
        .ok()
        .and_then(|m| Miniscript::<Ctx::Key, Ctx>::decode_consensus(&m.encode()).ok());
    match d {
        None => "NA".into(),
        Some(d) => {
            let s = Sat { w, sigs, xsigs, m_sig: 0, m_rpk: 0, m_rsig: 1 << 5, pre: false, after_ok: false, older_ok: false };
            let t = match d.build_template(&s).stack {
                Witness::Stack(v) => format!("Stack{}", v.len()),
                Witness::Unavailable => "Unavailable".into(),
                Witness::Impossible => "Impossible".into(),
            };
            let r = match d.satisfy(&s) {
                Ok(v) => format!("OK{}", v.len()),
                Err(_) => "ERR".into(),
            };
            format!("template={} satisfy={}", t, r)
        }
    }
}

pub fn run(args: &[String]) {
    let seed: u64 = args.first().and_then(|s| s.parse().ok()).unwrap_or(1);
    let w = World::new();
    let mut rng = Rng(seed ^ 0x7261_7770_6b68);
    let msg = Message::from_digest([7u8; 32]);
    let sigs: Vec<bitcoin::ecdsa::Signature> = (0..N_KEYS)
        .map(|i| bitcoin::ecdsa::Signature { signature: w.secp.sign_ecdsa(&msg, &w.sks[i]), sighash_type: EcdsaSighashType::All })
        .collect();
    // oracle tables: key bytes, hash160 of them, the signature bytes; which (key, sig) pairs verify (secp256k1)
    println!("Definition rk_keys : list (bytes * bytes * bytes) := [");
    let rows: Vec<String> = (0..N_KEYS)
        .map(|i| {
            let kb = w.pks[i].to_bytes();
            format!("  ({}, {}, {})", coq_bytes(&kb), coq_bytes(hash160::Hash::hash(&kb).as_byte_array()), coq_bytes(&sigs[i].to_vec()))
        })
        .collect();
    println!("{}].", rows.join(";\n"));
    let mut pairs = Vec::new();
    for i in 0..N_KEYS {
        for j in 0..N_KEYS {
            if w.secp.verify_ecdsa(&msg, &sigs[j].signature, &w.pks[i].inner).is_ok() {
                pairs.push(format!("({},{})", i, j));
            }
        }
    }
    println!("Definition rk_valid : list (N * N) := [{}].", pairs.join(";"));
    println!(
        "Definition rk_pre : bytes * bytes := ({}, {}).",
        coq_bytes(&w.preimages[0]),
        coq_bytes(sha256::Hash::hash(&w.preimages[0]).as_byte_array())
    );
    // x-only tables for Tap: key bytes, hash160 of them, Schnorr signature (default sighash type: 64 bytes)
    let kps: Vec<bitcoin::secp256k1::Keypair> =
        (0..N_KEYS).map(|i| bitcoin::secp256k1::Keypair::from_secret_key(&w.secp, &w.sks[i])).collect();
    let xsigs: Vec<bitcoin::taproot::Signature> = (0..N_KEYS)
        .map(|i| bitcoin::taproot::Signature {
            signature: w.secp.sign_schnorr_no_aux_rand(&msg, &kps[i]),
            sighash_type: bitcoin::sighash::TapSighashType::Default,
        })
        .collect();
    println!("Definition rk_xkeys : list (bytes * bytes * bytes) := [");
    let rows: Vec<String> = (0..N_KEYS)
        .map(|i| {
            let kb = w.pks[i].inner.x_only_public_key().0.serialize();
            format!("  ({}, {}, {})", coq_bytes(&kb), coq_bytes(hash160::Hash::hash(&kb).as_byte_array()), coq_bytes(&xsigs[i].to_vec()))
        })
        .collect();
    println!("{}].", rows.join(";\n"));
    let mut xpairs = Vec::new();
    for i in 0..N_KEYS {
        for j in 0..N_KEYS {
            if w.secp.verify_schnorr(&xsigs[j].signature, &msg, &w.pks[i].inner.x_only_public_key().0).is_ok() {
                xpairs.push(format!("({},{})", i, j));
            }
        }
    }
    println!("Definition rk_xvalid : list (N * N) := [{}].", xpairs.join(";"));
    struct Acc {
        chunks: Vec<String>,
        cur: String,
        n_in: usize,
    }
    let mut accs = [Acc { chunks: vec![], cur: String::new(), n_in: 0 }, Acc { chunks: vec![], cur: String::new(), n_in: 0 }];
    let mut total = 0usize;
    let mut stats = (0u64, 0u64, 0u64);
    let mut hist = std::collections::BTreeMap::<String, u64>::new();
    for tpl in TEMPLATES {
        for &tr in TRIPLES {
            let unc = tr.0 >= 6 || tr.1 >= 6 || tr.2 >= 6;
            for ctx in 0..3 {
                if ctx == 0 && unc {
                    continue; // an uncompressed key cannot spend a v0 witness program
                }
                let mut s = String::new();
                let ok = match ctx {
                    0 => one::<Segwitv0, Segwitv0>(&w, &sigs, &xsigs, &mut rng, "CSegwit", tpl, tr, &mut s, &mut stats),
                    1 => one::<Legacy, Legacy>(&w, &sigs, &xsigs, &mut rng, "CLegacy", tpl, tr, &mut s, &mut stats),
                    _ => one::<Tap, Tap>(&w, &sigs, &xsigs, &mut rng, "CTap", tpl, tr, &mut s, &mut stats),
                };
                if let Err(why) = &ok {
                    println!("(* SKIP {} {:?} ctx={} : {} *)", tpl, tr, ctx, why.replace("*)", "* )"));
                }
                if ok.is_ok() {
                    let a = &mut accs[if ctx == 2 { 1 } else { 0 }];
                    if a.n_in > 0 {
                        a.cur.push_str(";\n");
                    }
                    a.cur.push_str(s.trim_end());
                    a.n_in += 1;
                    total += 1;
                    let cname = ["segwitv0", "legacy", "tap"][ctx];
                    *hist.entry(format!("{}/{}", cname, if ctx == 2 { "x-only" } else if unc { "uncompressed" } else { "compressed" })).or_insert(0) += 1;
                    if a.n_in == 40 {
                        a.chunks.push(std::mem::take(&mut a.cur));
                        a.n_in = 0;
                    }
                }
            }
        }
    }
    for (ai, a) in accs.iter_mut().enumerate() {
        if a.n_in > 0 {
            a.chunks.push(std::mem::take(&mut a.cur));
        }
        let pfx = if ai == 0 { "rk_cases" } else { "rk_tap_cases" };
        for (i, c) in a.chunks.iter().enumerate() {
            println!("Definition {}_{} : list rcase := [\n{}].", pfx, i, c);
        }
        let names: Vec<String> = (0..a.chunks.len()).map(|i| format!("{}_{}", pfx, i)).collect();
        println!("Definition {} : list (list rcase) := [{}].", pfx, names.join("; "));
    }
    println!(
        "(* OBS raw-sig-lookup-only segwitv0: {} ; tap: {} *)",
        directed_asymmetry::<Segwitv0>(&w, &sigs, &xsigs),
        directed_asymmetry::<Tap>(&w, &sigs, &xsigs)
    );
    println!(
        "(* SUMMARY scripts={} runs={} sat_ok={} sat_err={} panics={} hist={:?} *)",
        total,
        total * 14,
        stats.0,
        stats.1,
        stats.2,
        hist
    );
}
