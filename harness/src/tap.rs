//! C15 `tap` engine: Taproot outputs commit to exactly the described script tree.
//!
//! For every generated tree shape the REAL implementation is driven five ways (TapTree API,
//! string parser, Display -> FromStr, translate_pk with an injective key map, translation
//! from named keys) and everything it reports (leaves / depths / order, Merkle root, output
//! key, parity, control blocks, script_pubkey, printed brace structure) is judged by an
//! ORACLE written here over its own tree datatype `T`, following BIP341's recursive
//! definition and using `bitcoin::taproot` primitives only (never `miniscript`).
//!
//! stdout: coq/Tables/TapCasesGen.v (shapes as depth lists, leafH/branchH as tables of small
//! integer ids, the implementation's root id / path ids / parsed depth lists / tokens).
//! report file: JSON with oracle violations (each with a replayable case spec), histograms.
use std::cell::RefCell;
use std::collections::{BTreeMap, HashMap};
use std::fmt::Write as _;
use std::marker::PhantomData;
use std::panic::{catch_unwind, AssertUnwindSafe};
use std::str::FromStr;
use std::sync::Arc;

use bitcoin::hashes::{sha256, Hash};
use bitcoin::key::{TapTweak, TweakedPublicKey, XOnlyPublicKey};
use bitcoin::{Address, Network};
use bitcoin::opcodes::all as op;
use bitcoin::script::Builder;
use bitcoin::secp256k1::{self, Parity, Secp256k1, SecretKey};
use bitcoin::bip32::{ChildNumber, Xpriv, Xpub};
use bitcoin::taproot::{ControlBlock, LeafVersion, TapLeafHash, TapNodeHash, TaprootBuilder};
use bitcoin::ScriptBuf;
use miniscript::descriptor::{DerivationResult, TapTree};
use miniscript::DescriptorPublicKey;
use miniscript::{
    Descriptor, FromStrKey, Miniscript, MiniscriptKey, RelLockTime, Tap, Terminal, Threshold,
    ToPublicKey, Translator,
};

// ------------------------------------------------------------------ PRNG
pub struct Rng(u64);
impl Rng {
    pub fn new(seed: u64) -> Self { Rng(seed ^ 0xC15C_15C1_5C15_C15C) }
    pub fn next(&mut self) -> u64 {
        self.0 = self.0.wrapping_add(0x9E37_79B9_7F4A_7C15);
        let mut z = self.0;
        z = (z ^ (z >> 30)).wrapping_mul(0xBF58_476D_1CE4_E5B9);
        z = (z ^ (z >> 27)).wrapping_mul(0x94D0_49BB_1331_11EB);
        z ^ (z >> 31)
    }
    pub fn below(&mut self, n: usize) -> usize { (self.next() % (n as u64)) as usize }
}

// ------------------------------------------------------------------ own tree datatype
#[derive(Clone, Debug)]
enum T {
    L(usize),
    N(Box<T>, Box<T>),
}
fn node(a: T, b: T) -> T { T::N(Box::new(a), Box::new(b)) }

impl T {
    fn height(&self) -> usize {
        match self {
            T::L(_) => 0,
            T::N(a, b) => 1 + a.height().max(b.height()),
        }
    }
    fn n_leaves(&self) -> usize {
        match self {
            T::L(_) => 1,
            T::N(a, b) => a.n_leaves() + b.n_leaves(),
        }
    }
    /// number leaves 0.. in left-to-right order
    fn relabel(&mut self, next: &mut usize) {
        match self {
            T::L(i) => {
                *i = *next;
                *next += 1;
            }
            T::N(a, b) => {
                a.relabel(next);
                b.relabel(next);
            }
        }
    }
    fn shape_str(&self, out: &mut String) {
        match self {
            T::L(_) => out.push('L'),
            T::N(a, b) => {
                out.push('N');
                a.shape_str(out);
                b.shape_str(out);
            }
        }
    }
    fn from_shape(s: &[u8], pos: &mut usize) -> Option<T> {
        let c = *s.get(*pos)?;
        *pos += 1;
        match c {
            b'L' => Some(T::L(0)),
            b'N' => {
                let a = T::from_shape(s, pos)?;
                let b = T::from_shape(s, pos)?;
                Some(node(a, b))
            }
            _ => None,
        }
    }
    fn depths(&self, d: usize, out: &mut Vec<(usize, usize)>) {
        match self {
            T::L(i) => out.push((d, *i)),
            T::N(a, b) => {
                a.depths(d + 1, out);
                b.depths(d + 1, out);
            }
        }
    }
}

fn all_shapes(n: usize, memo: &mut Vec<Vec<T>>) -> Vec<T> {
    while memo.len() <= n {
        let m = memo.len();
        let mut v = Vec::new();
        if m == 1 {
            v.push(T::L(0));
        } else if m > 1 {
            for k in 1..m {
                for a in memo[k].clone() {
                    for b in &memo[m - k] {
                        v.push(node(a.clone(), b.clone()));
                    }
                }
            }
        }
        memo.push(v);
    }
    memo[n].clone()
}
fn chain(kind: usize, d: usize) -> T {
    // kind 0: left chain (deep part on the left), 1: right chain, 2: zig-zag
    let mut t = T::L(0);
    for lvl in 0..d {
        let deep_left = match kind {
            0 => true,
            1 => false,
            _ => lvl % 2 == 0,
        };
        t = if deep_left { node(t, T::L(0)) } else { node(T::L(0), t) };
    }
    t
}
fn full(h: usize) -> T { if h == 0 { T::L(0) } else { node(full(h - 1), full(h - 1)) } }
/// chain of depth d whose deepest position holds `tail`
fn chain_tail(kind: usize, d: usize, tail: T) -> T {
    let mut t = tail;
    for lvl in 0..d {
        let deep_left = match kind {
            0 => true,
            1 => false,
            _ => lvl % 2 == 0,
        };
        t = if deep_left { node(t, T::L(0)) } else { node(T::L(0), t) };
    }
    t
}
fn rand_shape(rng: &mut Rng, n: usize, mode: usize) -> T {
    if n == 1 {
        return T::L(0);
    }
    let k = match mode {
        0 => 1 + rng.below(n - 1),
        1 => 1 + rng.below(n - 1).min(rng.below(n - 1)).min(rng.below(n - 1)),
        2 => n - 1 - rng.below(n - 1).min(rng.below(n - 1)).min(rng.below(n - 1)),
        _ => (n / 2).max(1),
    };
    node(rand_shape(rng, k, mode), rand_shape(rng, n - k, mode))
}
fn spine_shape(rng: &mut Rng, depth: usize) -> T {
    let n0 = 2 + rng.below(3);
    let mut t = if rng.below(2) == 0 { T::L(0) } else { rand_shape(rng, n0, 0) };
    for _ in 0..depth {
        let ns = 2 + rng.below(2);
        let side = if rng.below(10) == 0 { rand_shape(rng, ns, 0) } else { T::L(0) };
        t = if rng.below(2) == 0 { node(t, side) } else { node(side, t) };
    }
    t
}

// ------------------------------------------------------------------ keys
thread_local! {
    static KEYS: RefCell<HashMap<usize, secp256k1::PublicKey>> = RefCell::new(HashMap::new());
    static REV: RefCell<HashMap<String, usize>> = RefCell::new(HashMap::new());
}
fn secp_pk(i: usize) -> secp256k1::PublicKey {
    KEYS.with(|k| {
        if let Some(p) = k.borrow().get(&i) {
            return *p;
        }
        let secp = Secp256k1::new();
        let h = sha256::Hash::hash(format!("verif-c15-key-{}", i).as_bytes());
        let sk = SecretKey::from_slice(h.as_byte_array()).expect("valid secret key");
        let p = secp256k1::PublicKey::from_secret_key(&secp, &sk);
        k.borrow_mut().insert(i, p);
        REV.with(|r| r.borrow_mut().insert(hex(&p.x_only_public_key().0.serialize()), i));
        p
    })
}
fn xonly(i: usize) -> XOnlyPublicKey { secp_pk(i).x_only_public_key().0 }
/// index of a key from its printed form (33-byte or 32-byte hex): the map is injective
fn idx_of(printed: &str) -> Option<usize> {
    if printed.len() < 64 {
        return None;
    }
    REV.with(|r| r.borrow().get(&printed[printed.len() - 64..]).copied())
}

pub trait HKey: MiniscriptKey + ToPublicKey + FromStrKey + Clone {
    const TAG: char;
    fn of(i: usize) -> Self;
}
impl HKey for bitcoin::PublicKey {
    const TAG: char = 'c';
    fn of(i: usize) -> Self { bitcoin::PublicKey::new(secp_pk(i)) }
}
impl HKey for XOnlyPublicKey {
    const TAG: char = 'x';
    fn of(i: usize) -> Self { xonly(i) }
}

struct Shift<Pk>(usize, PhantomData<Pk>);
impl<Pk: HKey> Translator<Pk> for Shift<Pk> {
    type TargetPk = Pk;
    type Error = String;
    fn pk(&mut self, pk: &Pk) -> Result<Pk, String> {
        let i = idx_of(&pk.to_string()).ok_or_else(|| format!("unknown key {}", pk))?;
        Ok(Pk::of(i + self.0))
    }
    fn sha256(&mut self, h: &Pk::Sha256) -> Result<Pk::Sha256, String> { Ok(h.clone()) }
    fn hash256(&mut self, h: &Pk::Hash256) -> Result<Pk::Hash256, String> { Ok(h.clone()) }
    fn ripemd160(&mut self, h: &Pk::Ripemd160) -> Result<Pk::Ripemd160, String> { Ok(h.clone()) }
    fn hash160(&mut self, h: &Pk::Hash160) -> Result<Pk::Hash160, String> { Ok(h.clone()) }
}
struct Names<Pk>(usize, PhantomData<Pk>);
impl<Pk: HKey> Translator<String> for Names<Pk> {
    type TargetPk = Pk;
    type Error = String;
    fn pk(&mut self, pk: &String) -> Result<Pk, String> {
        let i: usize = pk.trim_start_matches('K').parse().map_err(|_| format!("bad name {}", pk))?;
        Ok(Pk::of(i + self.0))
    }
    fn sha256(&mut self, _: &String) -> Result<Pk::Sha256, String> { Err("hash".into()) }
    fn hash256(&mut self, _: &String) -> Result<Pk::Hash256, String> { Err("hash".into()) }
    fn ripemd160(&mut self, _: &String) -> Result<Pk::Ripemd160, String> { Err("hash".into()) }
    fn hash160(&mut self, _: &String) -> Result<Pk::Hash160, String> { Err("hash".into()) }
}

// ------------------------------------------------------------------ leaves
#[derive(Clone, Copy, PartialEq, Eq, Hash, Debug)]
struct LeafSpec {
    kind: u8,
    k1: usize,
    k2: usize,
    n: u32,
}
const KIND_NAMES: [&str; 5] = ["pk", "and_v(v:pk,older)", "multi_a(1,2)", "and_v(v:pk,pk)", "or_d(pk,pk)"];

/// the leaf script, written directly with bitcoin's script builder (oracle side)
fn leaf_script(s: &LeafSpec, keyx: &dyn Fn(usize) -> XOnlyPublicKey) -> ScriptBuf {
    let a = keyx(s.k1);
    let b = keyx(s.k2);
    let bld = Builder::new();
    match s.kind {
        0 => bld.push_x_only_key(&a).push_opcode(op::OP_CHECKSIG),
        1 => bld
            .push_x_only_key(&a)
            .push_opcode(op::OP_CHECKSIGVERIFY)
            .push_int(s.n as i64)
            .push_opcode(op::OP_CSV),
        2 => bld
            .push_x_only_key(&a)
            .push_opcode(op::OP_CHECKSIG)
            .push_x_only_key(&b)
            .push_opcode(op::OP_CHECKSIGADD)
            .push_int(1)
            .push_opcode(op::OP_NUMEQUAL),
        3 => bld
            .push_x_only_key(&a)
            .push_opcode(op::OP_CHECKSIGVERIFY)
            .push_x_only_key(&b)
            .push_opcode(op::OP_CHECKSIG),
        _ => bld
            .push_x_only_key(&a)
            .push_opcode(op::OP_CHECKSIG)
            .push_opcode(op::OP_IFDUP)
            .push_opcode(op::OP_NOTIF)
            .push_x_only_key(&b)
            .push_opcode(op::OP_CHECKSIG)
            .push_opcode(op::OP_ENDIF),
    }
    .into_script()
}
fn leaf_string(s: &LeafSpec, key: &dyn Fn(usize) -> String) -> String {
    match s.kind {
        0 => format!("pk({})", key(s.k1)),
        1 => format!("and_v(v:pk({}),older({}))", key(s.k1), s.n),
        2 => format!("multi_a(1,{},{})", key(s.k1), key(s.k2)),
        3 => format!("and_v(v:pk({}),pk({}))", key(s.k1), key(s.k2)),
        _ => format!("or_d(pk({}),pk({}))", key(s.k1), key(s.k2)),
    }
}
/// the leaf as a Miniscript AST built bottom-up (independent of every string parser)
fn leaf_ms<Pk: MiniscriptKey>(s: &LeafSpec, of: &dyn Fn(usize) -> Pk) -> Miniscript<Pk, Tap> {
    let ms = |t: Terminal<Pk, Tap>| Arc::new(Miniscript::from_ast(t).expect("well-typed leaf"));
    let pk = |i: usize| ms(Terminal::Check(ms(Terminal::PkK(of(i)))));
    let vpk = |i: usize| ms(Terminal::Verify(pk(i)));
    let t = match s.kind {
        0 => Terminal::Check(ms(Terminal::PkK(of(s.k1)))),
        1 => Terminal::AndV(
            vpk(s.k1),
            ms(Terminal::Older(RelLockTime::from_height(s.n as u16).expect("nonzero height"))),
        ),
        2 => Terminal::MultiA(Threshold::new(1, vec![of(s.k1), of(s.k2)]).expect("threshold")),
        3 => Terminal::AndV(vpk(s.k1), pk(s.k2)),
        _ => Terminal::OrD(pk(s.k1), pk(s.k2)),
    };
    Miniscript::from_ast(t).expect("well-typed leaf")
}

// ------------------------------------------------------------------ cases
#[derive(Clone)]
struct Case {
    family: &'static str,
    ik: usize,
    kt: char,
    shape: T,
    leaves: Vec<LeafSpec>,
    to_coq: bool,
    /// build through the API with ONE Arc<Miniscript> per distinct leaf, cloned into every position
    share: bool,
}
impl Case {
    fn spec(&self) -> String {
        let mut sh = String::new();
        self.shape.shape_str(&mut sh);
        let lv: Vec<String> =
            self.leaves.iter().map(|l| format!("{}:{}:{}:{}", l.kind, l.k1, l.k2, l.n)).collect();
        format!("ik={};kt={};shape={};leaves={}{}", self.ik, self.kt, sh, lv.join(","), if self.share { ";share=1" } else { "" })
    }
    fn from_spec(s: &str) -> Option<Case> {
        let mut ik = None;
        let mut kt = 'c';
        let mut shape = None;
        let mut leaves = Vec::new();
        let mut share = false;
        for part in s.split(';') {
            let (k, v) = part.split_once('=')?;
            match k {
                "ik" => ik = v.parse().ok(),
                "kt" => kt = v.chars().next()?,
                "shape" => {
                    let mut pos = 0;
                    let mut t = T::from_shape(v.as_bytes(), &mut pos)?;
                    if pos != v.len() {
                        return None;
                    }
                    let mut n = 0;
                    t.relabel(&mut n);
                    shape = Some(t);
                }
                "leaves" => {
                    for l in v.split(',') {
                        let f: Vec<&str> = l.split(':').collect();
                        if f.len() != 4 {
                            return None;
                        }
                        leaves.push(LeafSpec {
                            kind: f[0].parse().ok()?,
                            k1: f[1].parse().ok()?,
                            k2: f[2].parse().ok()?,
                            n: f[3].parse().ok()?,
                        });
                    }
                }
                "share" => share = v == "1",
                _ => return None,
            }
        }
        let shape = shape?;
        if shape.n_leaves() != leaves.len() {
            return None;
        }
        Some(Case { family: "replay", ik: ik?, kt, shape, leaves, to_coq: true, share })
    }
    /// label of leaf i = index of the first leaf with the same spec (repeated leaves share a label)
    fn label(&self, i: usize) -> usize {
        self.leaves.iter().position(|l| *l == self.leaves[i]).unwrap()
    }
}

fn mk_case(family: &'static str, mut shape: T, ik: usize, kt: char, rng: &mut Rng, mixed: bool, to_coq: bool) -> Case {
    let mut n = 0;
    shape.relabel(&mut n);
    let mut leaves = Vec::with_capacity(n);
    for i in 0..n {
        let kind = if mixed { [0u8, 0, 1, 2, 3, 4][rng.below(6)] } else { 0 };
        let spec = LeafSpec { kind, k1: i + 1, k2: i + 301, n: 1 + (rng.below(40000) as u32) };
        if mixed && i > 0 && rng.below(12) == 0 {
            let j = rng.below(i);
            leaves.push(leaves[j]); // a repeated leaf
        } else {
            leaves.push(spec);
        }
    }
    Case { family, ik, kt, shape, leaves, to_coq, share: false }
}
/// a case whose leaves repeat according to `rep` (rep[i] <= i: position i holds the same leaf as
/// position rep[i]) and whose API build shares one Arc per distinct leaf
fn mk_shared(family: &'static str, shape: T, ik: usize, kt: char, rng: &mut Rng, rep: &[usize], to_coq: bool) -> Case {
    let mut c = mk_case(family, shape, ik, kt, rng, false, to_coq);
    for i in 0..c.leaves.len() {
        let kind = [0u8, 0, 1, 2, 3, 4][rng.below(6)];
        c.leaves[i].kind = kind;
    }
    for i in 0..c.leaves.len() {
        let r = rep[i];
        if r < i {
            c.leaves[i] = c.leaves[r];
        }
    }
    c.share = true;
    c
}

// ------------------------------------------------------------------ oracle (BIP341, bitcoin primitives only)
struct ExpLeaf {
    script: Vec<u8>,
    depth: usize,
    label: usize,
    lh: [u8; 32],
    path: Vec<[u8; 32]>,
}
struct Exp {
    leaves: Vec<ExpLeaf>,
    root: [u8; 32],
    internal: [u8; 32],
    okey: [u8; 32],
    parity: u8,
    spk: Vec<u8>,
    branches: Vec<([u8; 32], [u8; 32], [u8; 32])>,
    body: String, // printed form without checksum
}
fn oracle_rec(
    t: &T,
    depth: usize,
    case: &Case,
    keyx: &dyn Fn(usize) -> XOnlyPublicKey,
    leaves: &mut Vec<ExpLeaf>,
    branches: &mut Vec<([u8; 32], [u8; 32], [u8; 32])>,
) -> TapNodeHash {
    match t {
        T::L(i) => {
            let script = leaf_script(&case.leaves[*i], keyx);
            let lh = TapLeafHash::from_script(&script, LeafVersion::TapScript);
            leaves.push(ExpLeaf {
                script: script.to_bytes(),
                depth,
                label: case.label(*i),
                lh: lh.to_byte_array(),
                path: vec![],
            });
            TapNodeHash::from(lh)
        }
        T::N(a, b) => {
            let lo = leaves.len();
            let ha = oracle_rec(a, depth + 1, case, keyx, leaves, branches);
            let mid = leaves.len();
            let hb = oracle_rec(b, depth + 1, case, keyx, leaves, branches);
            let hi = leaves.len();
            for l in &mut leaves[lo..mid] {
                l.path.push(hb.to_byte_array());
            }
            for l in &mut leaves[mid..hi] {
                l.path.push(ha.to_byte_array());
            }
            let h = TapNodeHash::from_node_hashes(ha, hb);
            branches.push((ha.to_byte_array(), hb.to_byte_array(), h.to_byte_array()));
            h
        }
    }
}
fn tree_string(t: &T, case: &Case, key: &dyn Fn(usize) -> String) -> String {
    match t {
        T::L(i) => leaf_string(&case.leaves[*i], key),
        T::N(a, b) => format!("{{{},{}}}", tree_string(a, case, key), tree_string(b, case, key)),
    }
}
fn oracle<Pk: HKey>(case: &Case, shift: usize) -> Exp {
    oracle_k(case, &|i| xonly(i + shift), &|i| Pk::of(i + shift).to_string())
}
/// BIP341 over the harness's own tree, for an arbitrary assignment of keys to key indices
fn oracle_k(case: &Case, keyx: &dyn Fn(usize) -> XOnlyPublicKey, key: &dyn Fn(usize) -> String) -> Exp {
    let secp = Secp256k1::verification_only();
    let mut leaves = Vec::new();
    let mut branches = Vec::new();
    let root = oracle_rec(&case.shape, 0, case, keyx, &mut leaves, &mut branches);
    let internal = keyx(case.ik);
    let (okey, parity) = internal.tap_tweak(&secp, Some(root));
    let spk = Builder::new().push_opcode(op::OP_PUSHNUM_1).push_slice(okey.serialize()).into_script();
    let body = format!("tr({},{})", key(case.ik), tree_string(&case.shape, case, key));
    Exp {
        leaves,
        root: root.to_byte_array(),
        internal: internal.serialize(),
        okey: okey.serialize(),
        parity: if parity == Parity::Odd { 1 } else { 0 },
        spk: spk.to_bytes(),
        branches,
        body,
    }
}
/// second opinion on the oracle itself: rust-bitcoin's TaprootBuilder fed with the (depth, script)
/// sequence of the harness's tree must give the same root, output key and parity
fn taproot_builder_agrees(e: &Exp) -> bool {
    let secp = Secp256k1::verification_only();
    let mut b = TaprootBuilder::new();
    for l in &e.leaves {
        b = match b.add_leaf(l.depth as u8, ScriptBuf::from_bytes(l.script.clone())) {
            Ok(b) => b,
            Err(_) => return false,
        };
    }
    let internal = match XOnlyPublicKey::from_slice(&e.internal) {
        Ok(k) => k,
        Err(_) => return false,
    };
    match b.finalize(&secp, internal) {
        Ok(si) => {
            si.merkle_root().map(|r| r.to_byte_array()) == Some(e.root)
                && si.output_key().serialize() == e.okey
                && (if si.output_key_parity() == Parity::Odd { 1 } else { 0 }) == e.parity
        }
        Err(_) => false,
    }
}
fn exp_cb_bytes(e: &Exp, l: &ExpLeaf) -> Vec<u8> {
    let mut v = vec![0xc0 | e.parity];
    v.extend_from_slice(&e.internal);
    for h in &l.path {
        v.extend_from_slice(h);
    }
    v
}

// ------------------------------------------------------------------ observations of the implementation
struct ObsLeaf {
    script: Vec<u8>,
    depth: usize,
    lh: [u8; 32],
    cb: Vec<u8>,
    branch: Vec<[u8; 32]>,
}
struct Obs {
    tt_leaves: Vec<(Vec<u8>, usize)>, // TapTree::leaves (script, depth)
    si_leaves: Vec<ObsLeaf>,          // TrSpendInfo::leaves
    root: Option<[u8; 32]>,
    internal: [u8; 32],
    okey: [u8; 32],
    parity: u8,
    spk: Vec<u8>,
    printed: String,
    /// per network: Tr::address (script_pubkey, text), Descriptor::address (script_pubkey, text) or its error
    addrs: Vec<((Vec<u8>, String), Result<(Vec<u8>, String), String>)>,
    /// TrSpendInfo::to_tap_tree: Err(panic) | Ok(None) | Ok(Some((script, depth, is_tapscript, merkle branch)*, root)).
    /// rust-bitcoin's TapTree lists its leaves with the children of every branch ordered by HASH,
    /// not in DFS order, so the list is compared as a multiset (the merkle branches pin positions)
    tap_tree: Result<Option<(Vec<(Vec<u8>, usize, bool, Vec<u8>)>, [u8; 32])>, String>,
    /// leaves reached through iterator adapters (nth / skip / step_by / last / count / len) that
    /// disagree with plain iteration (seeded change C15-9: a specialised `nth`)
    iter_access: Vec<String>,
}
const NETS: [Network; 5] = [Network::Bitcoin, Network::Testnet, Network::Testnet4, Network::Signet, Network::Regtest];
/// the oracle's address for an output key: rust-bitcoin's own p2tr encoding of the already tweaked key
fn oracle_addr(okey: &[u8; 32], net: Network) -> Address {
    Address::p2tr_tweaked(TweakedPublicKey::dangerous_assume_tweaked(XOnlyPublicKey::from_slice(okey).expect("output key")), net)
}
/// address(network) must be the address of OP_1 <output key>, through Tr::address and Descriptor::address
fn addr_problems(o: &Obs, okey: &[u8; 32], spk: &[u8]) -> Vec<String> {
    let mut out = Vec::new();
    for (i, net) in NETS.iter().enumerate() {
        let want = oracle_addr(okey, *net);
        let (w_spk, w_txt) = (want.script_pubkey().to_bytes(), want.to_string());
        debug_assert_eq!(w_spk, spk);
        match o.addrs.get(i) {
            None => out.push(format!("no address observed for {:?}", net)),
            Some((a1, a2)) => {
                if a1.0 != spk || a1.1 != w_txt {
                    out.push(format!("Tr::address({:?}) = {} (script_pubkey {}) but the output key's address is {} (script_pubkey() = {})", net, a1.1, hex(&a1.0), w_txt, hex(spk)));
                }
                match a2 {
                    Ok(a2) if a2.0 == spk && a2.1 == w_txt => {}
                    other => out.push(format!("Descriptor::address({:?}) = {:?} but the output key's address is {} (script_pubkey() = {})", net, other.as_ref().map(|a| a.1.clone()), w_txt, hex(spk))),
                }
            }
        }
        if out.len() >= 2 {
            break;
        }
    }
    out
}
fn observe<Pk: MiniscriptKey + ToPublicKey>(d: &Descriptor<Pk>) -> Result<Obs, String> {
    catch_unwind(AssertUnwindSafe(|| {
        let tr = match d {
            Descriptor::Tr(tr) => tr,
            _ => panic!("not a tr descriptor"),
        };
        let tt_leaves = tr.leaves().map(|l| (l.compute_script().to_bytes(), l.depth() as usize)).collect();
        let si = tr.spend_info();
        let si_leaves = si
            .leaves()
            .map(|l| ObsLeaf {
                script: l.script().to_bytes(),
                depth: l.depth() as usize,
                lh: l.leaf_hash().to_byte_array(),
                cb: l.control_block().serialize(),
                branch: l.control_block().merkle_branch.as_slice().iter().map(|h| h.to_byte_array()).collect(),
            })
            .collect();
        let si_leaves: Vec<ObsLeaf> = si_leaves;
        let mut iter_access = Vec::new();
        {
            let same = |l: &miniscript::descriptor::TrSpendInfoIterItem<Pk>, o: &ObsLeaf| {
                l.script().to_bytes() == o.script && l.depth() as usize == o.depth && l.control_block().serialize() == o.cb
            };
            let n = si_leaves.len();
            if si.leaves().count() != n {
                iter_access.push(format!("leaves().count() = {} but plain iteration yields {}", si.leaves().count(), n));
            }
            for i in 0..n {
                match si.leaves().nth(i) {
                    Some(l) if same(&l, &si_leaves[i]) => {}
                    Some(l) => iter_access.push(format!("leaves().nth({}) has control block {} (depth {}), plain iteration gives {} (depth {})", i, hex(&l.control_block().serialize()), l.depth(), hex(&si_leaves[i].cb), si_leaves[i].depth)),
                    None => iter_access.push(format!("leaves().nth({}) = None, plain iteration has {} leaves", i, n)),
                }
                match si.leaves().skip(i).next() {
                    Some(l) if same(&l, &si_leaves[i]) => {}
                    _ => iter_access.push(format!("leaves().skip({}).next() differs from plain iteration", i)),
                }
                if iter_access.len() > 4 {
                    break;
                }
            }
            for step in [2usize, 3] {
                for (j, l) in si.leaves().step_by(step).enumerate() {
                    if j * step >= n || !same(&l, &si_leaves[j * step]) {
                        iter_access.push(format!("leaves().step_by({}) item {} differs from plain iteration", step, j));
                        break;
                    }
                }
            }
            match (si.leaves().last(), si_leaves.last()) {
                (Some(l), Some(o)) if same(&l, o) => {}
                (None, None) => {}
                _ => iter_access.push("leaves().last() differs from plain iteration".to_string()),
            }
            // interleaved: next, nth(1), next ...
            let mut it = si.leaves();
            let mut pos = 0usize;
            loop {
                let (item, at) = if pos % 3 == 1 { (it.nth(1), pos + 1) } else { (it.next(), pos) };
                match item {
                    Some(l) => {
                        if at >= n || !same(&l, &si_leaves[at]) {
                            iter_access.push(format!("mixed next()/nth(1) walk differs from plain iteration at leaf {}", at));
                            break;
                        }
                        pos = at + 1;
                    }
                    None => break,
                }
            }
        }
        Obs {
            iter_access,
            tt_leaves,
            si_leaves,
            root: si.merkle_root().map(|h| h.to_byte_array()),
            internal: si.internal_key().serialize(),
            okey: si.output_key().serialize(),
            parity: if si.output_key_parity() == Parity::Odd { 1 } else { 0 },
            spk: d.script_pubkey().to_bytes(),
            printed: d.to_string(),
            addrs: NETS
                .iter()
                .map(|net| {
                    let a1 = tr.address(*net);
                    let a2 = d.address(*net).map(|a| (a.script_pubkey().to_bytes(), a.to_string())).map_err(|e| format!("{:?}", e));
                    ((a1.script_pubkey().to_bytes(), a1.to_string()), a2)
                })
                .collect(),
            tap_tree: catch_unwind(AssertUnwindSafe(|| {
                si.to_tap_tree().map(|tt| {
                    let lv = tt
                        .script_leaves()
                        .map(|l| (l.script().to_bytes(), l.merkle_branch().len(), l.version() == LeafVersion::TapScript, l.merkle_branch().serialize()))
                        .collect::<Vec<_>>();
                    (lv, tt.root_hash().to_byte_array())
                })
            }))
            .map_err(|p| panic_msg(&p)),
        }
    }))
    .map_err(|p| panic_msg(&p))
}
fn panic_msg(p: &Box<dyn std::any::Any + Send>) -> String {
    if let Some(s) = p.downcast_ref::<&str>() {
        s.to_string()
    } else if let Some(s) = p.downcast_ref::<String>() {
        s.clone()
    } else {
        "panic".into()
    }
}

/// judge one observation against the oracle; returns (category, description) per discrepancy
fn judge(o: &Obs, e: &Exp) -> Vec<(&'static str, String)> {
    let secp = Secp256k1::verification_only();
    let mut out = Vec::new();
    let exp_dl: Vec<(usize, usize)> = e.leaves.iter().map(|l| (l.depth, l.label)).collect();
    let lab = |s: &Vec<u8>| e.leaves.iter().find(|l| &l.script == s).map(|l| l.label as i64).unwrap_or(-1);
    let tt: Vec<(usize, i64)> = o.tt_leaves.iter().map(|(s, d)| (*d, lab(s))).collect();
    if tt.len() != exp_dl.len() || tt.iter().zip(&exp_dl).any(|(a, b)| a.0 != b.0 || a.1 != b.1 as i64) {
        out.push(("leaves", format!("TapTree::leaves yields (depth,leaf) {:?}, the described tree has {:?}", short(&tt), short(&exp_dl))));
    }
    let si: Vec<(usize, i64)> = o.si_leaves.iter().map(|l| (l.depth, lab(&l.script))).collect();
    if si.len() != exp_dl.len() || si.iter().zip(&exp_dl).any(|(a, b)| a.0 != b.0 || a.1 != b.1 as i64) {
        out.push(("spend-info-leaves", format!("TrSpendInfo::leaves yields (depth,leaf) {:?}, the described tree has {:?}", short(&si), short(&exp_dl))));
    }
    if let Some(p) = o.iter_access.first() {
        out.push(("spend-info-iter-adapters", format!("{} ({} disagreement(s))", p, o.iter_access.len())));
    }
    if o.root != Some(e.root) {
        out.push(("root", format!("merkle_root {} but BIP341 root of the tree is {}", o.root.map(|r| hex(&r)).unwrap_or("None".into()), hex(&e.root))));
    }
    if o.internal != e.internal {
        out.push(("internal-key", format!("internal key {} expected {}", hex(&o.internal), hex(&e.internal))));
    }
    if o.okey != e.okey || o.parity != e.parity {
        out.push(("output-key", format!("output key {}/{} but tap_tweak(internal, root) = {}/{}", hex(&o.okey), o.parity, hex(&e.okey), e.parity)));
    }
    if o.spk != e.spk {
        out.push(("script-pubkey", format!("script_pubkey {} expected {}", hex(&o.spk), hex(&e.spk))));
    }
    let okey = XOnlyPublicKey::from_slice(&e.okey).expect("oracle output key");
    for (i, l) in o.si_leaves.iter().enumerate() {
        let el = match e.leaves.get(i) {
            Some(el) => el,
            None => break,
        };
        if l.lh != el.lh {
            out.push(("leaf-hash", format!("leaf {} leaf_hash {} expected {}", i, hex(&l.lh), hex(&el.lh))));
        }
        let want = exp_cb_bytes(e, el);
        if l.cb != want || l.branch != el.path {
            // judge the implementation's own control block with rust-bitcoin's verifier
            let verdict = match ControlBlock::decode(&l.cb) {
                Ok(cb) => cb.verify_taproot_commitment(&secp, okey, bitcoin::Script::from_bytes(&el.script)),
                Err(_) => false,
            };
            out.push(("control-block", format!(
                "leaf {} (depth {}): control block {} differs from BIP341 (parity,internal,path) {}; verify_taproot_commitment against the true output key = {}",
                i, el.depth, hex_short(&l.cb), hex_short(&want), verdict)));
            if out.len() > 12 {
                break;
            }
        }
    }
    for p in addr_problems(o, &e.okey, &e.spk) {
        out.push(("address", p));
    }
    match &o.tap_tree {
        Err(p) => out.push(("to-tap-tree", format!("TrSpendInfo::to_tap_tree panics: {}", p))),
        Ok(None) => out.push(("to-tap-tree", "TrSpendInfo::to_tap_tree returns None for a descriptor with a script tree".to_string())),
        Ok(Some((lv, root))) => {
            let mut got: Vec<(usize, i64)> = lv.iter().map(|(s, d, _, _)| (*d, lab(s))).collect();
            let mut want: Vec<(usize, i64)> = exp_dl.iter().map(|(d, l)| (*d, *l as i64)).collect();
            let mut got_full: Vec<(&Vec<u8>, usize, Vec<u8>)> = lv.iter().map(|(s, d, _, b)| (s, *d, b.clone())).collect();
            let mut want_full: Vec<(&Vec<u8>, usize, Vec<u8>)> = e.leaves.iter().map(|l| (&l.script, l.depth, l.path.concat())).collect();
            got.sort();
            want.sort();
            got_full.sort();
            want_full.sort();
            if got_full != want_full || lv.iter().any(|l| !l.2) {
                out.push(("to-tap-tree", format!("to_tap_tree has the (depth,leaf) multiset {:?} (all tapscript: {}, merkle branches equal BIP341 paths: {}), the described tree has {:?}",
                    short(&got), lv.iter().all(|l| l.2), got == want && got_full == want_full, short(&want))));
            }
            if *root != e.root {
                out.push(("to-tap-tree", format!("to_tap_tree root {} but BIP341 root of the tree is {}", hex(root), hex(&e.root))));
            }
        }
    }
    let body = o.printed.split('#').next().unwrap_or("");
    if body != e.body {
        out.push(("display", format!("printed {} expected {}", shorten(body), shorten(&e.body))));
    }
    out
}
fn short<A: std::fmt::Debug>(v: &[A]) -> String {
    if v.len() <= 24 {
        format!("{:?}", v)
    } else {
        format!("{:?}..(len {})", &v[..24], v.len())
    }
}
fn shorten(s: &str) -> String {
    if s.len() <= 400 {
        s.to_string()
    } else {
        format!("{}..(len {})", &s[..400], s.len())
    }
}
fn hex(b: &[u8]) -> String {
    let mut s = String::with_capacity(b.len() * 2);
    for x in b {
        write!(s, "{:02x}", x).unwrap();
    }
    s
}
fn hex_short(b: &[u8]) -> String {
    if b.len() <= 97 {
        hex(b)
    } else {
        format!("{}..({} bytes)", hex(&b[..97]), b.len())
    }
}

// ------------------------------------------------------------------ driving the implementation
fn err_class(e: &miniscript::Error) -> &'static str {
    match e {
        miniscript::Error::TapTreeDepthError(_) => "DepthError",
        _ => "OtherError",
    }
}
type ArcMap<Pk> = HashMap<usize, Arc<Miniscript<Pk, Tap>>>;
/// `arcs` (used when case.share): one allocation per distinct leaf, the SAME Arc cloned into
/// every position that holds that leaf, as a caller re-using a script value would do
fn api_tree<Pk: MiniscriptKey>(t: &T, case: &Case, of: &dyn Fn(usize) -> Pk, arcs: &mut ArcMap<Pk>) -> Result<TapTree<Pk>, &'static str> {
    match t {
        T::L(i) => {
            if case.share {
                let lab = case.label(*i);
                let a = arcs.entry(lab).or_insert_with(|| Arc::new(leaf_ms::<Pk>(&case.leaves[*i], of)));
                Ok(TapTree::leaf(Arc::clone(a)))
            } else {
                Ok(TapTree::leaf(Arc::new(leaf_ms::<Pk>(&case.leaves[*i], of))))
            }
        }
        T::N(a, b) => {
            let x = api_tree(a, case, of, arcs)?;
            let y = api_tree(b, case, of, arcs)?;
            TapTree::combine(x, y).map_err(|_| "DepthError")
        }
    }
}
/// Ok(descriptor) | Err(class) ; panics are class "Panic:<msg>"
fn build_api<Pk: HKey>(case: &Case) -> Result<Descriptor<Pk>, String> {
    catch_unwind(AssertUnwindSafe(|| {
        let tree = api_tree::<Pk>(&case.shape, case, &|i| Pk::of(i), &mut HashMap::new()).map_err(|c| c.to_string())?;
        Descriptor::new_tr(Pk::of(case.ik), Some(tree)).map_err(|e| err_class(&e).to_string())
    }))
    .unwrap_or_else(|p| Err(format!("Panic:{}", panic_msg(&p))))
}
fn parse_str<Pk: HKey>(s: &str) -> Result<Descriptor<Pk>, String> {
    catch_unwind(AssertUnwindSafe(|| Descriptor::<Pk>::from_str(s).map_err(|e| err_class(&e).to_string())))
        .unwrap_or_else(|p| Err(format!("Panic:{}", panic_msg(&p))))
}
fn class_code(r: &Result<(), String>) -> u64 {
    match r {
        Ok(()) => 0,
        Err(c) if c == "DepthError" => 1,
        Err(c) if c.starts_with("Panic") => 3,
        Err(_) => 2,
    }
}

// ------------------------------------------------------------------ Coq emission helpers
struct Ids {
    map: HashMap<[u8; 32], u64>,
    next: u64,
}
impl Ids {
    fn new() -> Self { Ids { map: HashMap::new(), next: 1 } }
    fn id(&mut self, h: &[u8; 32]) -> u64 {
        if let Some(i) = self.map.get(h) {
            return *i;
        }
        let i = self.next;
        self.next += 1;
        self.map.insert(*h, i);
        i
    }
    /// id of a hash produced by the implementation: unknown hashes get ids from 100000
    fn impl_id(&mut self, h: &[u8; 32]) -> u64 {
        if let Some(i) = self.map.get(h) {
            return *i;
        }
        if self.next < 100000 {
            self.next = 100000;
        }
        self.id(h)
    }
}
/// tokens of the tree part of a printed descriptor: 0 `{`, 1 `}`, 2 `,`, 3+label leaf (9999 unknown)
fn tokenize(printed: &str, leaf_labels: &HashMap<String, usize>) -> Vec<u64> {
    let body = printed.split('#').next().unwrap_or("");
    let start = match body.find(',') {
        Some(p) => p + 1,
        None => return vec![],
    };
    let end = body.len().saturating_sub(1); // final ')'
    let mut out = Vec::new();
    let mut cur = String::new();
    let mut round = 0usize;
    let flush = |cur: &mut String, out: &mut Vec<u64>| {
        if !cur.is_empty() {
            out.push(leaf_labels.get(cur.as_str()).map(|l| 3 + *l as u64).unwrap_or(9999));
            cur.clear();
        }
    };
    for ch in body[start..end].chars() {
        if round == 0 && (ch == '{' || ch == '}' || ch == ',') {
            flush(&mut cur, &mut out);
            out.push(match ch {
                '{' => 0,
                '}' => 1,
                _ => 2,
            });
        } else {
            if ch == '(' {
                round += 1;
            } else if ch == ')' {
                round = round.saturating_sub(1);
            }
            cur.push(ch);
        }
    }
    flush(&mut cur, &mut out);
    out
}

// ------------------------------------------------------------------ per-case run
#[derive(Default)]
struct Out {
    viol: Vec<(String, String, String)>, // key, what, case spec
    viol_count: BTreeMap<String, usize>,
    coq_ok: Vec<String>,
    coq_rej: Vec<String>,
    coq_bad: Vec<String>,
    coq_ok_specs: Vec<String>,
    coq_rej_specs: Vec<String>,
    coq_bad_specs: Vec<String>,
    fam: BTreeMap<String, usize>,
    leaves_hist: BTreeMap<String, usize>,
    depth_hist: BTreeMap<String, usize>,
    kind_hist: BTreeMap<String, usize>,
    kt_hist: BTreeMap<String, usize>,
    variants: usize,
    leaves_judged: usize,
    cbs_verified: usize,
    rejected: usize,
    samples: Vec<String>,
    distinct_shapes: std::collections::HashSet<String>,
    flagged: std::collections::HashSet<String>,
}
impl Out {
    fn violation(&mut self, key: &str, what: String, spec: &str) {
        self.flagged.insert(spec.to_string());
        let c = self.viol_count.entry(key.to_string()).or_insert(0);
        *c += 1;
        if *c <= 3 {
            self.viol.push((key.to_string(), what, spec.to_string()));
        }
    }
}
fn bucket(n: usize) -> String {
    match n {
        0..=9 => format!("{}", n),
        10..=16 => "10-16".into(),
        17..=32 => "17-32".into(),
        33..=64 => "33-64".into(),
        65..=96 => "65-96".into(),
        97..=126 => "97-126".into(),
        127 => "127".into(),
        128 => "128".into(),
        _ => "129+".into(),
    }
}

const SHIFT: usize = 5000;

fn run_case<Pk: HKey>(case: &Case, out: &mut Out) {
    let spec = case.spec();
    let h = case.shape.height();
    *out.fam.entry(case.family.to_string()).or_insert(0) += 1;
    *out.leaves_hist.entry(bucket(case.leaves.len())).or_insert(0) += 1;
    *out.depth_hist.entry(bucket(h)).or_insert(0) += 1;
    *out.kt_hist.entry(Pk::TAG.to_string()).or_insert(0) += 1;
    for l in &case.leaves {
        *out.kind_hist.entry(KIND_NAMES[l.kind as usize].to_string()).or_insert(0) += 1;
    }
    let mut sh = String::new();
    case.shape.shape_str(&mut sh);
    out.distinct_shapes.insert(sh);

    let key = |i: usize| Pk::of(i).to_string();
    let text = format!("tr({},{})", key(case.ik), tree_string(&case.shape, case, &key));
    let api = build_api::<Pk>(case);
    let parsed = parse_str::<Pk>(&text);
    let mut dl = Vec::new();
    case.shape.depths(0, &mut dl);
    let dl_l: Vec<(u64, u64)> = dl.iter().map(|(d, i)| (*d as u64, case.label(*i) as u64)).collect();

    if h > 128 {
        // must be rejected with the depth error, by both routes
        out.rejected += 1;
        let a = api.as_ref().map(|_| ()).map_err(|e| e.clone());
        let p = parsed.as_ref().map(|_| ()).map_err(|e| e.clone());
        if a != Err("DepthError".to_string()) {
            out.violation("oracle:depth-limit", format!("tree of height {} (> 128) built through TapTree::combine: {:?}, expected TapTreeDepthError", h, a), &spec);
        }
        if p != Err("DepthError".to_string()) {
            out.violation("oracle:depth-limit", format!("tree of height {} (> 128) parsed from text: {:?}, expected TapTreeDepthError", h, p), &spec);
        }
        if case.to_coq {
            let mut st = Vec::new();
            push_pairs(&mut st, &dl_l);
            st.extend([class_code(&a), class_code(&p)]);
            out.coq_rej.push(pack(&st));
            out.coq_rej_specs.push(spec);
        }
        return;
    }

    let e = oracle::<Pk>(case, 0);
    let e_shift = oracle::<Pk>(case, SHIFT);
    // oracle self-check: its own control blocks verify under rust-bitcoin
    {
        let secp = Secp256k1::verification_only();
        let okey = XOnlyPublicKey::from_slice(&e.okey).unwrap();
        let step = if e.leaves.len() > 40 { e.leaves.len() / 8 } else { 1 };
        for l in e.leaves.iter().step_by(step) {
            let cb = ControlBlock::decode(&exp_cb_bytes(&e, l)).expect("oracle control block decodes");
            if !cb.verify_taproot_commitment(&secp, okey, bitcoin::Script::from_bytes(&l.script)) {
                out.violation("oracle-self-check", "the harness oracle's own control block does not verify".into(), &spec);
            }
            out.cbs_verified += 1;
        }
        if !taproot_builder_agrees(&e) || !taproot_builder_agrees(&e_shift) {
            out.violation("oracle-self-check", "rust-bitcoin's TaprootBuilder disagrees with the harness oracle on root / output key".into(), &spec);
        }
    }

    let mut variants: Vec<(&'static str, Result<Descriptor<Pk>, String>, bool)> = Vec::new();
    let roundtrip = match &api {
        Ok(d) => {
            let s = catch_unwind(AssertUnwindSafe(|| d.to_string())).map_err(|p| format!("Panic:{}", panic_msg(&p)));
            match s {
                Ok(s) => parse_str::<Pk>(&s),
                Err(e) => Err(e),
            }
        }
        Err(e) => Err(e.clone()),
    };
    let translated = match &api {
        Ok(d) => catch_unwind(AssertUnwindSafe(|| {
            d.translate_pk(&mut Shift::<Pk>(SHIFT, PhantomData)).map_err(|e| format!("TranslateErr:{:?}", e))
        }))
        .unwrap_or_else(|p| Err(format!("Panic:{}", panic_msg(&p)))),
        Err(e) => Err(e.clone()),
    };
    let named = {
        let nm = |i: usize| format!("K{}", i);
        let s = format!("tr({},{})", nm(case.ik), tree_string(&case.shape, case, &nm));
        catch_unwind(AssertUnwindSafe(|| {
            let d = Descriptor::<String>::from_str(&s).map_err(|e| err_class(&e).to_string())?;
            d.translate_pk(&mut Names::<Pk>(SHIFT, PhantomData)).map_err(|e| format!("TranslateErr:{:?}", e))
        }))
        .unwrap_or_else(|p| Err(format!("Panic:{}", panic_msg(&p))))
    };
    if let (Ok(a), Ok(p)) = (&api, &parsed) {
        if a != p {
            out.violation("oracle:api-vs-parse", "descriptor built through the API != descriptor parsed from its text".into(), &spec);
        }
    }
    variants.push(("api", api, false));
    variants.push(("parsed", parsed, false));
    variants.push(("display-roundtrip", roundtrip, false));
    variants.push(("translated", translated, true));
    variants.push(("translated-from-names", named, true));

    let mut obs_all: Vec<Option<Obs>> = Vec::new();
    for (name, d, shifted) in &variants {
        out.variants += 1;
        let ex = if *shifted { &e_shift } else { &e };
        match d {
            Err(c) => {
                let key = if c.starts_with("Panic") { "oracle:panic" } else { "oracle:rejected-valid-tree" };
                out.violation(key, format!("[{}] tree of height {} with {} leaves: {}", name, h, case.leaves.len(), c), &spec);
                obs_all.push(None);
            }
            Ok(d) => match observe(d) {
                Err(p) => {
                    out.violation("oracle:panic", format!("[{}] panic while computing spend info / iterating: {}", name, p), &spec);
                    obs_all.push(None);
                }
                Ok(o) => {
                    out.leaves_judged += o.si_leaves.len();
                    for (cat, what) in judge(&o, ex) {
                        out.violation(&format!("oracle:{}", cat), format!("[{}] {}", name, what), &spec);
                    }
                    obs_all.push(Some(o));
                }
            },
        }
    }
    if out.samples.len() < 6 && (out.fam[case.family] % 97 == 1) {
        out.samples.push(format!(
            "{{\"family\":\"{}\",\"leaves\":{},\"height\":{},\"text\":\"{}\",\"merkle_root\":\"{}\",\"output_key\":\"{}\",\"parity\":{}}}",
            case.family, case.leaves.len(), h, shorten(&text).chars().take(160).collect::<String>(), hex(&e.root), hex(&e.okey), e.parity
        ));
    }

    if !case.to_coq {
        return;
    }
    // ---- tables for the model run inside Coq: one stream of 10-bit values per case,
    // [n, (depth,label)*n | n, (label,hid)*n | n, (a,b,r)*n | root | n, (label,depth,k,m,pre*m)*n
    //  | n, api (d,l)* | n, parsed (d,l)* | n, tokens* | n, translated (d,l)*]
    let mut ids = Ids::new();
    let mut st: Vec<u64> = Vec::new();
    push_pairs(&mut st, &dl_l);
    let mut leafh: Vec<(u64, u64)> = Vec::new();
    for l in &e.leaves {
        let id = ids.id(&l.lh);
        if !leafh.iter().any(|(lab, _)| *lab == l.label as u64) {
            leafh.push((l.label as u64, id));
        }
    }
    push_pairs(&mut st, &leafh);
    st.push(e.branches.len() as u64);
    for (a, b, r) in &e.branches {
        let (ia, ib) = (ids.id(a), ids.id(b));
        let ir = ids.id(r);
        st.extend([ia, ib, ir]);
    }
    let lab_of = |ex: &Exp, s: &Vec<u8>| ex.leaves.iter().find(|l| &l.script == s).map(|l| l.label as u64).unwrap_or(9999);
    match &obs_all[0] {
        Some(o) => {
            st.push(o.root.map(|r| ids.impl_id(&r)).unwrap_or(0));
            // each path is written as (number of trailing ids shared with the previous leaf's
            // path, the new leading ids): lossless, decoded inside Coq (TapCasesDefs.read_items)
            st.push(o.si_leaves.len() as u64);
            let mut prev: Vec<u64> = Vec::new();
            for l in &o.si_leaves {
                let p: Vec<u64> = l.branch.iter().map(|h| ids.impl_id(h)).collect();
                let mut k = 0;
                while k < p.len() && k < prev.len() && p[p.len() - 1 - k] == prev[prev.len() - 1 - k] {
                    k += 1;
                }
                st.extend([lab_of(&e, &l.script), l.depth as u64, k as u64, (p.len() - k) as u64]);
                st.extend(&p[..p.len() - k]);
                prev = p;
            }
        }
        None => st.extend([0, 0]),
    };
    let dl_of = |o: &Option<Obs>, ex: &Exp| -> Vec<(u64, u64)> {
        match o {
            Some(o) => o.tt_leaves.iter().map(|(s, d)| (*d as u64, lab_of(ex, s))).collect::<Vec<_>>(),
            None => vec![],
        }
    };
    let mut leaf_labels = HashMap::new();
    for (i, l) in case.leaves.iter().enumerate() {
        leaf_labels.entry(leaf_string(l, &key)).or_insert(case.label(i));
    }
    push_pairs(&mut st, &dl_of(&obs_all[0], &e));
    push_pairs(&mut st, &dl_of(&obs_all[1], &e));
    let toks = match &obs_all[0] {
        Some(o) => tokenize(&o.printed, &leaf_labels),
        None => vec![],
    };
    st.push(toks.len() as u64);
    st.extend(&toks);
    push_pairs(&mut st, &dl_of(&obs_all[3], &e_shift));
    let tt_dl: Vec<(u64, u64)> = match &obs_all[0] {
        Some(Obs { tap_tree: Ok(Some((lv, _))), .. }) => lv.iter().map(|(s, d, _, _)| (*d as u64, lab_of(&e, s))).collect(),
        _ => vec![],
    };
    push_pairs(&mut st, &tt_dl);
    if case.leaves.len() > 250 {
        return; // counts would not fit the 10-bit packing (never happens with the generators above)
    }
    out.coq_ok.push(pack(&st));
    out.coq_ok_specs.push(spec);
}
fn push_pairs(st: &mut Vec<u64>, v: &[(u64, u64)]) {
    st.push(v.len() as u64);
    for (a, b) in v {
        st.extend([*a, *b]);
    }
}
/// six 10-bit values per Uint63 literal; anything >= 1023 (unknown hash / leaf) becomes 1023
fn pack(st: &[u64]) -> String {
    let mut words = Vec::with_capacity(st.len() / 6 + 1);
    for ch in st.chunks(6) {
        let mut w: u64 = 0;
        for (k, v) in ch.iter().enumerate() {
            w |= (*v).min(1023) << (10 * k);
        }
        words.push(w.to_string());
    }
    format!("({}, [{}])", st.len(), words.join(";"))
}

// ------------------------------------------------------------------ wildcard xpub keys: derive_at_index / derived_descriptor
thread_local! {
    static DKEYS: RefCell<HashMap<(usize, u32), secp256k1::PublicKey>> = RefCell::new(HashMap::new());
}
fn xpub() -> Xpub {
    thread_local! { static XP: RefCell<Option<Xpub>> = RefCell::new(None); }
    if let Some(x) = XP.with(|x| *x.borrow()) {
        return x;
    }
    let x = xpub_compute();
    XP.with(|c| *c.borrow_mut() = Some(x));
    x
}
fn xpub_compute() -> Xpub {
    let secp = Secp256k1::new();
    let seed = sha256::Hash::hash(b"verif-c15-xpub-seed");
    let xprv = Xpriv::new_master(bitcoin::Network::Bitcoin, seed.as_byte_array()).expect("master key");
    Xpub::from_priv(&secp, &xprv)
}
/// key `xpub/i/j` computed with bitcoin::bip32 only (oracle side)
fn dkey(xp: &Xpub, i: usize, j: u32) -> secp256k1::PublicKey {
    DKEYS.with(|k| {
        if let Some(p) = k.borrow().get(&(i, j)) {
            return *p;
        }
        let secp = Secp256k1::verification_only();
        let path = [ChildNumber::Normal { index: i as u32 }, ChildNumber::Normal { index: j }];
        let p = xp.derive_pub(&secp, &path).expect("unhardened derivation").public_key;
        k.borrow_mut().insert((i, j), p);
        p
    })
}
fn dpk(xp: &Xpub, i: usize) -> DescriptorPublicKey {
    thread_local! { static DPKS: RefCell<HashMap<usize, DescriptorPublicKey>> = RefCell::new(HashMap::new()); }
    DPKS.with(|k| {
        k.borrow_mut()
            .entry(i)
            .or_insert_with(|| DescriptorPublicKey::from_str(&format!("{}/{}/*", xp, i)).expect("descriptor key"))
            .clone()
    })
}
/// PSBT OUTPUT update: `update_output_with_descriptor` must accept the descriptor for the output
/// OP_1 <oracle output key> and fill tap_internal_key / tap_tree with the described tree
fn psbt_output_problems(d: &Descriptor<miniscript::DefiniteDescriptorKey>, e: &Exp) -> Vec<String> {
    use miniscript::psbt::PsbtExt;
    let r = catch_unwind(AssertUnwindSafe(|| {
        let tx = bitcoin::Transaction {
            version: bitcoin::transaction::Version::TWO,
            lock_time: bitcoin::absolute::LockTime::ZERO,
            input: vec![bitcoin::TxIn::default()],
            output: vec![bitcoin::TxOut { value: bitcoin::Amount::from_sat(10_000), script_pubkey: ScriptBuf::from_bytes(e.spk.clone()) }],
        };
        let mut psbt = bitcoin::Psbt::from_unsigned_tx(tx).map_err(|e| format!("{:?}", e))?;
        psbt.update_output_with_descriptor(0, d).map_err(|e| format!("update_output_with_descriptor: {:?}", e))?;
        let o = &psbt.outputs[0];
        let mut out = Vec::new();
        if o.tap_internal_key.map(|k| k.serialize()) != Some(e.internal) {
            out.push(format!("tap_internal_key {:?} expected {}", o.tap_internal_key, hex(&e.internal)));
        }
        match &o.tap_tree {
            None => out.push("psbt output tap_tree not set".to_string()),
            Some(tt) => {
                let mut got: Vec<(Vec<u8>, usize)> = tt.script_leaves().map(|l| (l.script().to_bytes(), l.merkle_branch().len())).collect();
                let mut want: Vec<(Vec<u8>, usize)> = e.leaves.iter().map(|l| (l.script.clone(), l.depth)).collect();
                got.sort(); // rust-bitcoin orders the children of a branch by hash
                want.sort();
                if got != want || tt.root_hash().to_byte_array() != e.root {
                    out.push(format!("psbt output tap_tree has depths {:?} root {}, the described tree has depths {:?} root {}",
                        short(&got.iter().map(|g| g.1).collect::<Vec<_>>()), hex(&tt.root_hash().to_byte_array()),
                        short(&want.iter().map(|g| g.1).collect::<Vec<_>>()), hex(&e.root)));
                }
            }
        }
        Ok::<_, String>(out)
    }));
    match r {
        Ok(Ok(v)) => v,
        Ok(Err(e)) => vec![e],
        Err(p) => vec![format!("panic: {}", panic_msg(&p))],
    }
}
fn judge_variant<Pk: MiniscriptKey + ToPublicKey>(name: &str, d: Result<Descriptor<Pk>, String>, ex: &Exp, case: &Case, spec: &str, out: &mut Out) {
    out.variants += 1;
    match d {
        Err(c) => {
            let key = if c.starts_with("Panic") { "oracle:panic" } else { "oracle:rejected-valid-tree" };
            out.violation(key, format!("[{}] tree of height {} with {} leaves: {}", name, case.shape.height(), case.leaves.len(), c), spec);
        }
        Ok(d) => match observe(&d) {
            Err(p) => out.violation("oracle:panic", format!("[{}] panic while computing spend info / iterating: {}", name, p), spec),
            Ok(o) => {
                out.leaves_judged += o.si_leaves.len();
                for (cat, what) in judge(&o, ex) {
                    out.violation(&format!("oracle:{}", cat), format!("[{}] {}", name, what), spec);
                }
            }
        },
    }
}
/// the same tree over wildcard keys `xpub/i/*`, built through the API (sharing Arcs when
/// case.share) and parsed, then derived with derive_at_index and derived_descriptor; the
/// results are judged against BIP341 over the harness's tree with keys derived by bitcoin::bip32
fn run_dpk(case: &Case, out: &mut Out) {
    if case.shape.height() > 128 {
        return;
    }
    let spec = case.spec();
    let xp = xpub();
    *out.kt_hist.entry("xpub/i/*".to_string()).or_insert(0) += 1;
    let secp = Secp256k1::verification_only();
    let of = |i: usize| dpk(&xp, i);
    let built: Result<Descriptor<DescriptorPublicKey>, String> = catch_unwind(AssertUnwindSafe(|| {
        let tree = api_tree::<DescriptorPublicKey>(&case.shape, case, &of, &mut HashMap::new()).map_err(|c| c.to_string())?;
        Descriptor::new_tr(of(case.ik), Some(tree)).map_err(|e| err_class(&e).to_string())
    }))
    .unwrap_or_else(|p| Err(format!("Panic:{}", panic_msg(&p))));
    let text = format!("tr({},{})", of(case.ik), tree_string(&case.shape, case, &|i| of(i).to_string()));
    let parsed: Result<Descriptor<DescriptorPublicKey>, String> =
        catch_unwind(AssertUnwindSafe(|| Descriptor::<DescriptorPublicKey>::from_str(&text).map_err(|e| err_class(&e).to_string())))
            .unwrap_or_else(|p| Err(format!("Panic:{}", panic_msg(&p))));
    for (route, d) in [("api", built), ("parsed", parsed)] {
        let d = match d {
            Ok(d) => d,
            Err(c) => {
                out.violation("oracle:rejected-valid-tree", format!("[{} xpub keys] tree of height {}: {}", route, case.shape.height(), c), &spec);
                continue;
            }
        };
        let printed = catch_unwind(AssertUnwindSafe(|| d.to_string())).unwrap_or_default();
        if printed.split('#').next() != Some(text.as_str()) {
            out.violation("oracle:display", format!("[{} xpub keys] printed {} expected {}", route, shorten(&printed), shorten(&text)), &spec);
        }
        for j in [0u32, 9] {
            let keyx = |i: usize| dkey(&xp, i, j).x_only_public_key().0;
            let ex_def = oracle_k(case, &keyx, &|i| format!("{}/{}/{}", xp, i, j));
            let ex_pk = oracle_k(case, &keyx, &|i| bitcoin::PublicKey::new(dkey(&xp, i, j)).to_string());
            if !taproot_builder_agrees(&ex_def) {
                out.violation("oracle-self-check", "rust-bitcoin's TaprootBuilder disagrees with the harness oracle on root / output key".into(), &spec);
            }
            let r1 = catch_unwind(AssertUnwindSafe(|| match d.derive_at_index(j) {
                DerivationResult::Ok(x) => Ok(x),
                DerivationResult::WithoutWildcard(_) => Err("WithoutWildcard".to_string()),
                DerivationResult::Error(e) => Err(format!("DeriveError:{:?}", e)),
            }))
            .unwrap_or_else(|p| Err(format!("Panic:{}", panic_msg(&p))));
            if let (Ok(dd), 0, "api") = (&r1, j, route) {
                for p in psbt_output_problems(dd, &ex_def) {
                    out.violation("oracle:psbt-output-tap-tree", format!("[api+derive_at_index(0)] {}", p), &spec);
                }
            }
            judge_variant(&format!("{}+derive_at_index({})", route, j), r1, &ex_def, case, &spec, out);
            let r2 = catch_unwind(AssertUnwindSafe(|| d.derived_descriptor(&secp, j).map_err(|e| format!("DeriveError:{:?}", e))))
                .unwrap_or_else(|p| Err(format!("Panic:{}", panic_msg(&p))));
            judge_variant(&format!("{}+derived_descriptor({})", route, j), r2, &ex_pk, case, &spec, out);
        }
    }
}

// ------------------------------------------------------------------ malformed brace streams
#[derive(Clone)]
enum G {
    L(usize),
    G(Vec<G>),
}
fn g_of(t: &T) -> G {
    match t {
        T::L(i) => G::L(*i),
        T::N(a, b) => G::G(vec![g_of(a), g_of(b)]),
    }
}
fn g_string(g: &G, key: &dyn Fn(usize) -> String) -> String {
    match g {
        G::L(i) => format!("pk({})", key(*i + 1)),
        G::G(cs) => format!("{{{}}}", cs.iter().map(|c| g_string(c, key)).collect::<Vec<_>>().join(",")),
    }
}
fn g_tokens(g: &G, out: &mut Vec<u64>) {
    match g {
        G::L(i) => out.push(3 + *i as u64),
        G::G(cs) => {
            out.push(0);
            for (k, c) in cs.iter().enumerate() {
                if k > 0 {
                    out.push(2);
                }
                g_tokens(c, out);
            }
            out.push(1);
        }
    }
}
/// change the arity of the k-th group (pre-order) to 1 or 3
fn g_mutate(g: &mut G, k: &mut usize, to3: bool, fresh: usize) -> bool {
    if let G::G(cs) = g {
        if *k == 0 {
            if to3 {
                cs.push(G::L(fresh));
            } else {
                cs.pop();
            }
            return true;
        }
        *k -= 1;
        for c in cs.iter_mut() {
            if g_mutate(c, k, to3, fresh) {
                return true;
            }
        }
    }
    false
}
/// key-spend-only descriptors `tr(KEY)`: output key = tap_tweak(internal, None), no leaves
fn run_keyspend<Pk: HKey>(ik: usize, out: &mut Out) {
    let secp = Secp256k1::verification_only();
    let spec = format!("keyspend-only ik={} kt={}", ik, Pk::TAG);
    *out.fam.entry("keyspend-only".to_string()).or_insert(0) += 1;
    let internal = xonly(ik);
    let (okey, parity) = internal.tap_tweak(&secp, None);
    let spk = Builder::new().push_opcode(op::OP_PUSHNUM_1).push_slice(okey.serialize()).into_script();
    let text = format!("tr({})", Pk::of(ik));
    let api = catch_unwind(AssertUnwindSafe(|| Descriptor::<Pk>::new_tr(Pk::of(ik), None).map_err(|e| err_class(&e).to_string())))
        .unwrap_or_else(|p| Err(format!("Panic:{}", panic_msg(&p))));
    let parsed = parse_str::<Pk>(&text);
    for (name, d) in [("api", api), ("parsed", parsed)] {
        out.variants += 1;
        match d.and_then(|d| observe(&d)) {
            Err(c) => out.violation("oracle:keyspend-only", format!("[{}] {}: {}", name, text, c), &spec),
            Ok(o) => {
                let ok = o.root.is_none()
                    && o.tt_leaves.is_empty()
                    && o.si_leaves.is_empty()
                    && o.internal == internal.serialize()
                    && o.okey == okey.serialize()
                    && o.parity == (if parity == Parity::Odd { 1 } else { 0 })
                    && o.spk == spk.to_bytes()
                    && o.printed.split('#').next() == Some(text.as_str())
                    && matches!(o.tap_tree, Ok(None));
                for p in addr_problems(&o, &okey.serialize(), &spk.to_bytes()) {
                    out.violation("oracle:address", format!("[{}] {}: {}", name, text, p), &spec);
                }
                if !ok {
                    out.violation(
                        "oracle:keyspend-only",
                        format!("[{}] {}: output key {}/{} root {:?} leaves {} printed {}; expected tap_tweak(internal, None) = {}/{}", name, text,
                            hex(&o.okey), o.parity, o.root.map(|r| hex(&r)), o.si_leaves.len(), o.printed, hex(&okey.serialize()), if parity == Parity::Odd { 1 } else { 0 }),
                        &spec,
                    );
                }
            }
        }
    }
}
fn run_bad(out: &mut Out, memo: &mut Vec<Vec<T>>) {
    let key = |i: usize| bitcoin::PublicKey::of(i).to_string();
    let mut gs: Vec<G> = Vec::new();
    for n in 2..=4 {
        for mut t in all_shapes(n, memo) {
            let mut c = 0;
            t.relabel(&mut c);
            for k in 0..(n - 1) {
                for to3 in [false, true] {
                    let mut g = g_of(&t);
                    let mut kk = k;
                    g_mutate(&mut g, &mut kk, to3, 50);
                    gs.push(g);
                }
            }
        }
    }
    // arity error outside vs depth error inside, and the other way round
    for (depth, bad_at, to3) in [(129usize, 5usize, true), (130, 129, false), (129, 128, true), (128, 127, false), (128, 64, true)] {
        let mut t = chain(1, depth);
        let mut c = 0;
        t.relabel(&mut c);
        let mut g = g_of(&t);
        let mut kk = bad_at;
        g_mutate(&mut g, &mut kk, to3, 300);
        gs.push(g);
    }
    for g in gs {
        let s = format!("tr({},{})", key(1000), g_string(&g, &key));
        let r = parse_str::<bitcoin::PublicKey>(&s).map(|_| ());
        let mut toks = Vec::new();
        g_tokens(&g, &mut toks);
        let mut st = vec![toks.len() as u64];
        st.extend(&toks);
        st.push(class_code(&r));
        out.coq_bad.push(pack(&st));
        let sp: String = shorten(&s).chars().take(300).collect();
        out.coq_bad_specs.push(sp.clone());
        if r.is_ok() {
            out.violation("oracle:accepted-malformed", format!("a tap tree branch without exactly two children was accepted: {}", shorten(&s)), &sp);
        }
    }
}

// ------------------------------------------------------------------ entry
fn json_str(s: &str) -> String {
    let mut o = String::from("\"");
    for c in s.chars() {
        match c {
            '"' => o.push_str("\\\""),
            '\\' => o.push_str("\\\\"),
            '\n' => o.push_str("\\n"),
            c if (c as u32) < 0x20 => o.push(' '),
            c => o.push(c),
        }
    }
    o.push('"');
    o
}
fn json_hist(h: &BTreeMap<String, usize>) -> String {
    let p: Vec<String> = h.iter().map(|(k, v)| format!("{}:{}", json_str(k), v)).collect();
    format!("{{{}}}", p.join(","))
}
fn emit_chunked(w: &mut String, name: &str, ty: &str, items: &[String]) {
    for (i, it) in items.iter().enumerate() {
        writeln!(w, "Definition {}_{} : {} := {}.", name, i, ty, it).unwrap();
    }
    let mut chunks = Vec::new();
    for (c, ch) in (0..items.len()).collect::<Vec<_>>().chunks(200).enumerate() {
        let names: Vec<String> = ch.iter().map(|i| format!("{}_{}", name, i)).collect();
        writeln!(w, "Definition {}_chunk{} : list ({}) := [{}].", name, c, ty, names.join(";")).unwrap();
        chunks.push(format!("{}_chunk{}", name, c));
    }
    if chunks.is_empty() {
        writeln!(w, "Definition {} : list ({}) := [].", name, ty).unwrap();
    } else {
        writeln!(w, "Definition {} : list ({}) := {}.", name, ty, chunks.join(" ++ ")).unwrap();
    }
}

pub fn run(args: &[String]) {
    let seed: u64 = args.first().and_then(|s| s.parse().ok()).unwrap_or(1);
    let report = args.get(1).cloned().unwrap_or_else(|| "tap_report.json".into());
    let replay = args.iter().position(|a| a == "--case").and_then(|p| args.get(p + 1)).cloned();
    let thorough = std::env::var("VERIF_TIER").map(|t| t == "thorough").unwrap_or(false);
    std::panic::set_hook(Box::new(|_| {}));
    let mut rng = Rng::new(seed);
    let mut memo: Vec<Vec<T>> = Vec::new();
    let mut cases: Vec<Case> = Vec::new();
    let iks = [1000usize, 1001, 1002, 1003, 1004];
    let mut n_case = 0usize;
    let next_ik_kt = |n: &mut usize| {
        *n += 1;
        (iks[*n % iks.len()], if *n % 3 == 0 { 'x' } else { 'c' })
    };

    if let Some(spec) = &replay {
        match Case::from_spec(spec) {
            Some(c) => cases.push(c),
            None => {
                eprintln!("bad case spec");
                std::process::exit(2);
            }
        }
    } else {
        // 1. every binary tree shape with <= 8 (quick) / 9 (thorough) leaves
        let max_n = if thorough { 9 } else { 8 };
        for n in 1..=max_n {
            for t in all_shapes(n, &mut memo) {
                let (ik, kt) = next_ik_kt(&mut n_case);
                cases.push(mk_case("exhaustive", t, ik, kt, &mut rng, false, true));
            }
        }
        // 1b. the shapes with <= 6 leaves again with mixed leaf scripts and repeated leaves
        for n in 1..=6 {
            for t in all_shapes(n, &mut memo) {
                let (ik, kt) = next_ik_kt(&mut n_case);
                cases.push(mk_case("exhaustive-mixed", t, ik, kt, &mut rng, true, true));
            }
        }
        // 1c. SHARED ALLOCATIONS: every shape with 2..=6 leaves, built through the API with one
        // Arc<Miniscript> cloned into several positions: each DFS-adjacent pair (equal or different
        // depths), each pair at distance 2, all positions, alternating, disjoint pairs, random runs
        for n in 2..=6usize {
            for t in all_shapes(n, &mut memo) {
                let id: Vec<usize> = (0..n).collect();
                let mut pats: Vec<Vec<usize>> = Vec::new();
                for i in 0..n - 1 {
                    let mut r = id.clone();
                    r[i + 1] = i;
                    pats.push(r);
                }
                for i in 0..n.saturating_sub(2) {
                    let mut r = id.clone();
                    r[i + 2] = i;
                    pats.push(r);
                }
                pats.push(vec![0; n]);
                if n >= 3 {
                    pats.push((0..n).map(|i| i % 2).collect());
                    pats.push((0..n).map(|i| i - i % 2).collect());
                }
                for _ in 0..2 {
                    let mut r = id.clone();
                    for i in 1..n {
                        if rng.below(2) == 0 {
                            r[i] = r[i - 1];
                        }
                    }
                    pats.push(r);
                }
                for r in pats {
                    let (ik, kt) = next_ik_kt(&mut n_case);
                    cases.push(mk_shared("shared-arc", t.clone(), ik, kt, &mut rng, &r, true));
                }
            }
        }
        // 1d. random larger shapes with shared allocations (runs of adjacent repeats + far repeats)
        let n_sh = if thorough { 600 } else { 120 };
        for i in 0..n_sh {
            let n = 7 + rng.below(58);
            let t = rand_shape(&mut rng, n, i % 4);
            let mut r: Vec<usize> = (0..n).collect();
            for k in 1..n {
                let x = rng.below(20);
                if x < 7 {
                    r[k] = r[k - 1];
                } else if x < 9 {
                    r[k] = r[rng.below(k)];
                }
            }
            let (ik, kt) = next_ik_kt(&mut n_case);
            cases.push(mk_shared("shared-arc-random", t, ik, kt, &mut rng, &r, i < 40));
        }
        // 2. chains of every depth 1..=128 and 129 (rejection): left, right, zig-zag
        let coq_depths: Vec<usize> = if thorough {
            (1..=129).collect()
        } else {
            let mut v: Vec<usize> = (1..=12).collect();
            v.extend([31, 32, 33, 63, 64, 65, 96, 126, 127, 128, 129]);
            v
        };
        for d in 1..=129 {
            for kind in 0..3 {
                let (ik, kt) = next_ik_kt(&mut n_case);
                let fam = ["chain-left", "chain-right", "chain-zigzag"][kind];
                cases.push(mk_case(fam, chain(kind, d), ik, kt, &mut rng, false, coq_depths.contains(&d)));
            }
        }
        // 2b. chains ending in a full subtree: several leaf pairs at depth 127/128/129
        for kind in 0..3 {
            for (d, hh) in [(126usize, 2usize), (127, 1), (125, 3), (127, 2), (126, 3), (128, 1), (120, 3), (60, 4)] {
                let (ik, kt) = next_ik_kt(&mut n_case);
                cases.push(mk_case("chain-full-tail", chain_tail(kind, d, full(hh)), ik, kt, &mut rng, false, true));
            }
        }
        // 3. seeded random shapes up to 64 leaves
        let n_rand = if thorough { 1500 } else { 300 };
        for i in 0..n_rand {
            let n = 2 + rng.below(63);
            let mode = i % 4;
            let (ik, kt) = next_ik_kt(&mut n_case);
            let t = rand_shape(&mut rng, n, mode);
            cases.push(mk_case("random", t, ik, kt, &mut rng, true, true));
        }
        // 4. deep random spines with side subtrees, around the depth limit (some above it)
        let n_spine = if thorough { 200 } else { 60 };
        for i in 0..n_spine {
            let d = if i % 2 == 0 { 118 + rng.below(12) } else { 40 + rng.below(80) };
            let (ik, kt) = next_ik_kt(&mut n_case);
            let t = spine_shape(&mut rng, d);
            cases.push(mk_case("random-spine", t, ik, kt, &mut rng, i % 3 == 0, i % 4 == 0 || thorough));
        }
    }

    let mut out = Out::default();
    for (n, c) in cases.iter().enumerate() {
        if c.kt == 'x' {
            run_case::<XOnlyPublicKey>(c, &mut out);
        } else {
            run_case::<bitcoin::PublicKey>(c, &mut out);
        }
        // wildcard-key route (derive_at_index / derived_descriptor): every shared-allocation case
        // and a sample of the others
        if c.share || (n % 16 == 0 && c.leaves.len() <= 64) {
            run_dpk(c, &mut out);
        }
    }
    if replay.is_none() {
        run_bad(&mut out, &mut memo);
        for ik in iks {
            run_keyspend::<bitcoin::PublicKey>(ik, &mut out);
            run_keyspend::<XOnlyPublicKey>(ik, &mut out);
        }
    }

    // ---- Coq file
    let mut w = String::new();
    writeln!(w, "(* GENERATED by `verif-harness tap` from the compiled library; do not edit. *)").unwrap();
    writeln!(w, "From Coq Require Import List Uint63.\nImport ListNotations.\nOpen Scope uint63_scope.").unwrap();
    emit_chunked(&mut w, "tap_ok", "int * list int", &out.coq_ok);
    emit_chunked(&mut w, "tap_rej", "int * list int", &out.coq_rej);
    emit_chunked(&mut w, "tap_bad", "int * list int", &out.coq_bad);
    print!("{}", w);

    // ---- report
    let mut r = String::new();
    write!(r, "{{\"seed\":{},\"tier\":{},\"cases\":{},\"variants_observed\":{},\"leaves_judged\":{},\"oracle_cbs_verified\":{},\"rejected_cases\":{},\"distinct_shapes\":{},",
        seed, json_str(if thorough { "thorough" } else { "quick" }), cases.len(), out.variants, out.leaves_judged, out.cbs_verified, out.rejected, out.distinct_shapes.len()).unwrap();
    write!(r, "\"families\":{},\"leaves_hist\":{},\"height_hist\":{},\"leaf_kind_hist\":{},\"key_type_hist\":{},",
        json_hist(&out.fam), json_hist(&out.leaves_hist), json_hist(&out.depth_hist), json_hist(&out.kind_hist), json_hist(&out.kt_hist)).unwrap();
    write!(r, "\"coq_ok\":{},\"coq_rej\":{},\"coq_bad\":{},", out.coq_ok.len(), out.coq_rej.len(), out.coq_bad.len()).unwrap();
    let specs = |v: &Vec<String>| format!("[{}]", v.iter().map(|s| json_str(s)).collect::<Vec<_>>().join(","));
    write!(r, "\"coq_ok_specs\":{},\"coq_rej_specs\":{},\"coq_bad_specs\":{},", specs(&out.coq_ok_specs), specs(&out.coq_rej_specs), specs(&out.coq_bad_specs)).unwrap();
    write!(r, "\"samples\":[{}],", out.samples.join(",")).unwrap();
    let fl = |v: &Vec<String>| {
        let idx: Vec<String> = v.iter().enumerate().filter(|(_, s)| out.flagged.contains(*s)).map(|(i, _)| i.to_string()).collect();
        format!("[{}]", idx.join(","))
    };
    write!(r, "\"flagged_ok\":{},\"flagged_rej\":{},\"flagged_bad\":{},", fl(&out.coq_ok_specs), fl(&out.coq_rej_specs), fl(&out.coq_bad_specs)).unwrap();
    write!(r, "\"violation_counts\":{},", json_hist(&out.viol_count)).unwrap();
    let vs: Vec<String> = out
        .viol
        .iter()
        .map(|(k, w, s)| format!("{{\"key\":{},\"what\":{},\"case\":{}}}", json_str(k), json_str(w), json_str(s)))
        .collect();
    write!(r, "\"violations\":[{}]}}", vs.join(",")).unwrap();
    std::fs::write(&report, r).expect("write report");
    eprintln!("TAP cases={} variants={} violations={}", cases.len(), out.variants, out.viol_count.values().sum::<usize>());
}
