//! `psbt` engine (property C14): runs operation histories on real multi-input PSBTs through the
//! public PsbtExt API, prints after every operation a canonical abstraction of the
//! implementation state and the operation's result class, and judges the implementation's own
//! outputs with monitors and an oracle that do not depend on the Coq model.
//!
//! usage: verif-harness psbt <seed> [--only <case>] [--cases <n>]
#[path = "psbt_gen.rs"]
mod gen;
#[path = "psbt_oracle.rs"]
mod oracle;
#[path = "psbt_util.rs"]
mod util;

use bitcoin::consensus::encode::serialize;
use bitcoin::hashes::{hash160, ripemd160, sha256, sha256d, Hash};
use bitcoin::psbt::{self, raw, Psbt};
use bitcoin::secp256k1::{Secp256k1, VerifyOnly};
use bitcoin::sighash::{EcdsaSighashType, SighashCache};
use bitcoin::{ScriptBuf, Witness};
use gen::{base_psbt, make_case, make_pool, Case, Outer, Pool, OUTERS};
use miniscript::plan::Assets;
use miniscript::psbt::{Error as PErr, InputError, PsbtExt, UtxoUpdateError};
use miniscript::{interpreter, DescriptorPublicKey};
use std::collections::{BTreeMap, HashMap};
use std::panic::{catch_unwind, AssertUnwindSafe};
use std::str::FromStr;
use util::{dig, hex, Rng, J};

// ------------------------------------------------------------------ abstraction
fn pairs(v: Vec<(String, String)>) -> J { J::A(v.into_iter().map(|(a, b)| J::A(vec![J::S(a), J::S(b)])).collect()) }

fn abs_txout(o: &bitcoin::TxOut) -> J {
    J::obj(vec![("val", J::N(o.value.to_sat() as i64)), ("spk", J::S(dig("spk", o.script_pubkey.as_bytes())))])
}

fn wit_dig(w: &Witness) -> String {
    if w.is_empty() {
        "empty".to_string()
    } else {
        dig("wit", &serialize(w))
    }
}

fn abs_input(psbt: &Psbt, j: usize) -> J {
    let a = &psbt.inputs[j];
    let prev = psbt.unsigned_tx.input.get(j).map(|t| t.previous_output);
    let nw = match &a.non_witness_utxo {
        None => J::Null,
        Some(t) => {
            let ok = prev.map(|p| p.txid == t.compute_txid()).unwrap_or(false);
            let out = prev.and_then(|p| t.output.get(p.vout as usize)).map(abs_txout).unwrap_or(J::Null);
            J::obj(vec![("id", J::S(dig("tx", &serialize(t)))), ("ok", J::B(ok)), ("out", out)])
        }
    };
    let src = |fp: &bitcoin::bip32::Fingerprint, path: &bitcoin::bip32::DerivationPath| -> Vec<u8> {
        let mut v = fp.to_bytes().to_vec();
        v.extend_from_slice(path.to_string().as_bytes());
        v
    };
    J::obj(vec![
        ("nw", nw),
        ("w", a.witness_utxo.as_ref().map(abs_txout).unwrap_or(J::Null)),
        ("psigs", pairs(a.partial_sigs.iter().map(|(k, s)| (dig("pk", &k.to_bytes()), dig("sig", &s.to_vec()))).collect())),
        ("sighash", a.sighash_type.map(|t| J::N(t.to_u32() as i64)).unwrap_or(J::Null)),
        ("redeem", J::opt_s(a.redeem_script.as_ref().map(|s| dig("scr", s.as_bytes())))),
        ("witscript", J::opt_s(a.witness_script.as_ref().map(|s| dig("scr", s.as_bytes())))),
        ("bip32", pairs(a.bip32_derivation.iter().map(|(k, (fp, p))| (dig("pk", &k.serialize()), dig("src", &src(fp, p)))).collect())),
        ("fsig", J::opt_s(a.final_script_sig.as_ref().map(|s| dig("ss", s.as_bytes())))),
        ("fwit", J::opt_s(a.final_script_witness.as_ref().map(wit_dig))),
        ("ripemd", pairs(a.ripemd160_preimages.iter().map(|(h, p)| (dig("h", &h.to_byte_array()), dig("pre", p))).collect())),
        ("sha256", pairs(a.sha256_preimages.iter().map(|(h, p)| (dig("h", &h.to_byte_array()), dig("pre", p))).collect())),
        ("hash160", pairs(a.hash160_preimages.iter().map(|(h, p)| (dig("h", &h.to_byte_array()), dig("pre", p))).collect())),
        ("hash256", pairs(a.hash256_preimages.iter().map(|(h, p)| (dig("h", &h.to_byte_array()), dig("pre", p))).collect())),
        ("tapkeysig", J::opt_s(a.tap_key_sig.as_ref().map(|s| dig("tsig", &s.to_vec())))),
        (
            "tapsigs",
            pairs(
                a.tap_script_sigs
                    .iter()
                    .map(|((x, lh), s)| {
                        let mut k = x.serialize().to_vec();
                        k.extend_from_slice(&lh.to_byte_array());
                        (dig("xl", &k), dig("tsig", &s.to_vec()))
                    })
                    .collect(),
            ),
        ),
        (
            "tapscripts",
            pairs(
                a.tap_scripts
                    .iter()
                    .map(|(cb, (s, v))| {
                        let mut l = s.as_bytes().to_vec();
                        l.push(v.to_consensus());
                        (dig("cb", &cb.serialize()), dig("leaf", &l))
                    })
                    .collect(),
            ),
        ),
        (
            "taporigins",
            pairs(
                a.tap_key_origins
                    .iter()
                    .map(|(x, (lhs, (fp, p)))| {
                        let mut v = Vec::new();
                        for lh in lhs {
                            v.extend_from_slice(&lh.to_byte_array());
                        }
                        v.extend_from_slice(&src(fp, p));
                        (dig("x", &x.serialize()), dig("orig", &v))
                    })
                    .collect(),
            ),
        ),
        ("tapik", J::opt_s(a.tap_internal_key.as_ref().map(|x| dig("x", &x.serialize())))),
        ("tapmerkle", J::opt_s(a.tap_merkle_root.as_ref().map(|x| dig("mr", &x.to_byte_array())))),
        (
            "prop",
            pairs(
                a.proprietary
                    .iter()
                    .map(|(k, v)| {
                        let mut b = k.prefix.clone();
                        b.push(k.subtype);
                        b.extend_from_slice(&k.key);
                        (dig("pk_", &b), dig("pv", v))
                    })
                    .collect(),
            ),
        ),
        (
            "unknown",
            pairs(
                a.unknown
                    .iter()
                    .map(|(k, v)| {
                        let mut b = vec![k.type_value];
                        b.extend_from_slice(&k.key);
                        (dig("uk", &b), dig("uv", v))
                    })
                    .collect(),
            ),
        ),
    ])
}

struct Interner {
    map: HashMap<String, usize>,
    pkh_seen: std::collections::HashSet<(usize, usize)>,
}
impl Interner {
    fn get(&mut self, out: &mut Vec<String>, abs: &J) -> usize {
        let s = abs.to_string();
        if let Some(i) = self.map.get(&s) {
            return *i;
        }
        let i = self.map.len();
        self.map.insert(s.clone(), i);
        out.push(format!("{{\"t\":\"inp\",\"id\":{},\"abs\":{}}}", i, s));
        i
    }
}

fn abs_state(psbt: &Psbt, int: &mut Interner, out: &mut Vec<String>) -> J {
    J::A((0..psbt.inputs.len()).map(|j| J::N(int.get(out, &abs_input(psbt, j)) as i64)).collect())
}

// ------------------------------------------------------------------ operations
#[derive(Clone, Debug, PartialEq)]
enum Op {
    Sig { i: usize, key: usize, variant: u8 },
    TapKeySig { i: usize, bad: bool },
    TapKeySigView { i: usize },
    TapScriptSig { i: usize, idx: usize, bad: bool },
    Preimage { i: usize, kind: usize, wrong: bool },
    Unknown { i: usize, k: u8, v: u8 },
    Update { i: usize, d: usize },
    /// update from a descriptor of the SAME output that states other key origins
    UpdateAlt { i: usize },
    /// a key-origin record left by somebody else: wrong source and (taproot) wrong leaf list
    StaleOrigin { i: usize, key: usize },
    /// an updater that records scripts / taproot data but no key origins
    SetScripts { i: usize },
    /// one key-origin record (bip32_derivation or tap_key_origins) for instance key `key`
    Deriv { i: usize, key: usize },
    Finalize { mall: bool, byval: bool },
    FinalizeOld { mall: bool },
    FinalizeInp { i: usize, mall: bool, byval: bool },
    Extract,
}

impl Op {
    fn is_adder(&self) -> bool {
        !matches!(self, Op::Finalize { .. } | Op::FinalizeOld { .. } | Op::FinalizeInp { .. } | Op::Extract)
    }
    fn kind(&self) -> &'static str {
        match self {
            Op::Sig { variant: 0, .. } => "add-sig",
            Op::Sig { variant: 1, .. } => "add-wrong-sig",
            Op::Sig { variant: 2, .. } => "add-sig-wrong-flag",
            Op::Sig { .. } => "add-sig-over-psbt-utxo",
            Op::TapKeySigView { .. } => "add-tap-key-sig-over-psbt-utxo",
            Op::TapKeySig { bad: false, .. } => "add-tap-key-sig",
            Op::TapKeySig { .. } => "add-wrong-tap-key-sig",
            Op::TapScriptSig { bad: false, .. } => "add-tap-script-sig",
            Op::TapScriptSig { .. } => "add-wrong-tap-script-sig",
            Op::Preimage { wrong: false, .. } => "add-preimage",
            Op::Preimage { .. } => "add-wrong-preimage",
            Op::Unknown { .. } => "add-unknown",
            Op::Update { .. } => "update",
            Op::UpdateAlt { .. } => "update-other-origins",
            Op::StaleOrigin { .. } => "add-stale-key-origin",
            Op::SetScripts { .. } => "set-scripts-without-origins",
            Op::Deriv { .. } => "add-key-origin",
            Op::Finalize { mall: false, .. } => "finalize",
            Op::Finalize { .. } => "finalize-mall",
            Op::FinalizeOld { .. } => "finalize-old",
            Op::FinalizeInp { .. } => "finalize-inp",
            Op::Extract => "extract",
        }
    }
    /// (input, field, key) written by an adding operation
    fn footprint(&self, case: &Case) -> Option<(usize, u8, usize)> {
        match self {
            Op::Sig { i, key, .. } => Some((*i, 0, *key)),
            Op::TapKeySig { i, .. } | Op::TapKeySigView { i } => Some((*i, 1, 0)),
            Op::TapScriptSig { i, idx, .. } => {
                // the map key is (x-only key, leaf hash): equal leaf scripts at two positions of a
                // tree share it, so the footprint is the first entry with the same map key
                let m = &case.inputs[*i];
                let tap = m.tap.as_ref().unwrap();
                let (ki, li, _, _) = &m.tap_script_sigs[*idx];
                let canon = m
                    .tap_script_sigs
                    .iter()
                    .position(|(k2, l2, _, _)| m.keys[*k2] == m.keys[*ki] && tap.leaves[*l2].leaf_hash == tap.leaves[*li].leaf_hash)
                    .unwrap_or(*idx);
                Some((*i, 2, canon))
            }
            Op::Preimage { i, kind, .. } => Some((*i, 3, *kind)),
            Op::Unknown { i, k, .. } => Some((*i, 4, *k as usize)),
            Op::Update { i, .. } | Op::UpdateAlt { i } | Op::StaleOrigin { i, .. } | Op::SetScripts { i } | Op::Deriv { i, .. } => Some((*i, 5, 0)),
            _ => None,
        }
    }
}

fn input_err_class(e: &InputError) -> i64 {
    match e {
        InputError::SecpErr(_) => 10,
        InputError::KeyErr(_) => 11,
        InputError::CouldNotSatisfyTr => 12,
        InputError::Interpreter(interpreter::Error::NonStandardSighash(_)) => 4,
        InputError::Interpreter(_) => 13,
        InputError::InvalidRedeemScript { .. } => 14,
        InputError::InvalidWitnessScript { .. } => 15,
        InputError::InvalidSignature { .. } => 16,
        InputError::MiniscriptError(_) => 17,
        InputError::MissingRedeemScript => 18,
        InputError::MissingWitness => 1,
        InputError::MissingPubkey => 20,
        InputError::MissingWitnessScript => 21,
        InputError::MissingUtxo => 22,
        InputError::NonEmptyWitnessScript => 23,
        InputError::NonEmptyRedeemScript => 24,
        InputError::NonStandardSighashType(_) => 2,
        InputError::WrongSighashFlag { .. } => 3,
    }
}

#[derive(Clone, Debug, PartialEq)]
enum Res {
    Ok,
    FinErrs(Vec<(usize, i64)>),
    InputErr(usize, i64),
    WrongInputCount,
    IdxOob,
    Upd(i64),
    Extracted(Vec<(Option<String>, Option<String>)>),
    Panic,
}

impl Res {
    fn json(&self) -> J {
        match self {
            Res::Ok => J::obj(vec![("k", J::s("ok"))]),
            Res::FinErrs(es) => J::obj(vec![
                ("k", J::s("finerrs")),
                ("es", J::A(es.iter().map(|(i, e)| J::A(vec![J::N(*i as i64), J::N(*e)])).collect())),
            ]),
            Res::InputErr(i, e) => J::obj(vec![("k", J::s("inperr")), ("i", J::N(*i as i64)), ("e", J::N(*e))]),
            Res::WrongInputCount => J::obj(vec![("k", J::s("wrongcount"))]),
            Res::IdxOob => J::obj(vec![("k", J::s("oob"))]),
            Res::Upd(e) => J::obj(vec![("k", J::s("upd")), ("e", J::N(*e))]),
            Res::Extracted(l) => J::obj(vec![
                ("k", J::s("extracted")),
                ("l", J::A(l.iter().map(|(s, w)| J::A(vec![J::opt_s(s.clone()), J::opt_s(w.clone())])).collect())),
            ]),
            Res::Panic => J::obj(vec![("k", J::s("panic"))]),
        }
    }
    fn class(&self) -> &'static str {
        match self {
            Res::Ok => "ok",
            Res::FinErrs(_) => "finalize-errors",
            Res::InputErr(..) => "input-error",
            Res::WrongInputCount => "wrong-input-count",
            Res::IdxOob => "index-out-of-bounds",
            Res::Upd(_) => "update-error",
            Res::Extracted(_) => "extracted",
            Res::Panic => "panic",
        }
    }
}

fn perr(e: &PErr) -> Res {
    match e {
        PErr::InputError(ie, i) => Res::InputErr(*i, input_err_class(ie)),
        PErr::WrongInputCount { .. } => Res::WrongInputCount,
        PErr::InputIdxOutofBounds { .. } => Res::IdxOob,
    }
}

struct Ctx<'a> {
    pool: &'a Pool,
    case: &'a Case,
    vsecp: Secp256k1<VerifyOnly>,
    desc_base: usize,
}

fn unknown_key(k: u8) -> raw::Key { raw::Key { type_value: 0xf0, key: vec![k] } }

/// The spent output as a careless signer reads it off the PSBT: witness_utxo first, never
/// compared with non_witness_utxo (the library's get_utxo did the same until /repo 55036e60).
fn psbt_view_utxo(psbt: &Psbt, i: usize) -> Option<bitcoin::TxOut> {
    let a = &psbt.inputs[i];
    if let Some(w) = &a.witness_utxo {
        return Some(w.clone());
    }
    let vout = psbt.unsigned_tx.input.get(i)?.previous_output.vout as usize;
    a.non_witness_utxo.as_ref().and_then(|t| t.output.get(vout).cloned())
}

/// ECDSA signature number `variant` of instance key `key` for input `i`:
/// 0 good (over the real prevout), 1 wrong message, 2 wrong sighash flag,
/// 3 what a signer computes who trusts the PSBT's utxo fields (segwit v0 commits to the amount).
fn ecdsa_sig_for(cx: &Ctx, psbt: &Psbt, i: usize, key: usize, variant: u8) -> bitcoin::ecdsa::Signature {
    let m = &cx.case.inputs[i];
    let (_, good, bad) = &m.ecdsa_sigs[key];
    match variant {
        0 => *good,
        1 => *bad,
        2 => bitcoin::ecdsa::Signature { signature: good.signature, sighash_type: EcdsaSighashType::None },
        _ => {
            let amount = match psbt_view_utxo(psbt, i) {
                Some(o) => o.value,
                None => return *good,
            };
            let mut cache = SighashCache::new(&psbt.unsigned_tx);
            let all = EcdsaSighashType::All;
            let digest = match m.outer {
                Outer::Wpkh => cache.p2wpkh_signature_hash(i, &m.spk, amount, all).ok().map(|h| h.to_byte_array()),
                Outer::ShWpkh => cache.p2wpkh_signature_hash(i, m.redeem_script.as_ref().unwrap(), amount, all).ok().map(|h| h.to_byte_array()),
                Outer::Wsh | Outer::ShWsh => {
                    cache.p2wsh_signature_hash(i, m.witness_script.as_ref().unwrap(), amount, all).ok().map(|h| h.to_byte_array())
                }
                _ => None,
            };
            match digest {
                Some(d) => {
                    let msg = bitcoin::secp256k1::Message::from_digest(d);
                    bitcoin::ecdsa::Signature { signature: cx.pool.secp.sign_ecdsa(&msg, &cx.pool.keys[m.keys[key]].sk), sighash_type: all }
                }
                None => *good,
            }
        }
    }
}

/// Taproot key-spend signature over the prevouts as the PSBT presents them.
fn tap_key_view_sig(cx: &Ctx, psbt: &Psbt, i: usize) -> Option<bitcoin::taproot::Signature> {
    use bitcoin::key::TapTweak;
    let m = &cx.case.inputs[i];
    let tap = m.tap.as_ref()?;
    let mut prevouts = Vec::new();
    for j in 0..psbt.inputs.len() {
        prevouts.push(psbt_view_utxo(psbt, j)?);
    }
    let mut cache = SighashCache::new(&psbt.unsigned_tx);
    let h = cache
        .taproot_key_spend_signature_hash(i, &bitcoin::sighash::Prevouts::All(&prevouts), bitcoin::sighash::TapSighashType::Default)
        .ok()?;
    let msg = bitcoin::secp256k1::Message::from_digest(h.to_byte_array());
    let kp = bitcoin::key::Keypair::from_secret_key(&cx.pool.secp, &cx.pool.keys[m.keys[0]].sk);
    let tweaked = kp.tap_tweak(&cx.pool.secp, tap.spend_info.merkle_root()).to_keypair();
    Some(bitcoin::taproot::Signature {
        signature: cx.pool.secp.sign_schnorr_no_aux_rand(&msg, &tweaked),
        sighash_type: bitcoin::sighash::TapSighashType::Default,
    })
}

fn stale_source() -> (bitcoin::bip32::Fingerprint, bitcoin::bip32::DerivationPath) {
    (bitcoin::bip32::Fingerprint::from([0xaa, 0xaa, 0xaa, 0xaa]), bitcoin::bip32::DerivationPath::from_str("m/86'").unwrap())
}
fn stale_leaf() -> bitcoin::taproot::TapLeafHash { bitcoin::taproot::TapLeafHash::from_byte_array([0x5a; 32]) }

fn origin_src(fp: &bitcoin::bip32::Fingerprint, path: &bitcoin::bip32::DerivationPath) -> Vec<u8> {
    let mut v = fp.to_bytes().to_vec();
    v.extend_from_slice(path.to_string().as_bytes());
    v
}

/// every (control block, leaf) of the harness' own taproot tree, one per leaf position
fn own_tap_scripts(m: &gen::InputMat) -> Vec<(bitcoin::taproot::ControlBlock, (ScriptBuf, bitcoin::taproot::LeafVersion))> {
    let mut out = Vec::new();
    if let Some(tap) = &m.tap {
        for ((script, ver), branches) in tap.spend_info.script_map() {
            for b in branches {
                out.push((
                    bitcoin::taproot::ControlBlock {
                        leaf_version: *ver,
                        output_key_parity: tap.spend_info.output_key_parity(),
                        internal_key: tap.internal,
                        merkle_branch: b.clone(),
                    },
                    (script.clone(), *ver),
                ));
            }
        }
    }
    out
}

/// sorted leaf hashes of the leaves that contain instance key `key`
fn own_leaf_hashes(m: &gen::InputMat, key: usize) -> Vec<bitcoin::taproot::TapLeafHash> {
    let mut v: Vec<_> = m.tap.as_ref().map(|t| t.leaves.iter().filter(|l| l.keys.contains(&key)).map(|l| l.leaf_hash).collect()).unwrap_or_default();
    v.sort();
    v.dedup();
    v
}

fn op_json(cx: &Ctx, psbt: &Psbt, op: &Op) -> J {
    let m = |i: usize| &cx.case.inputs[i];
    match op {
        Op::Sig { i, key, variant } => {
            let pk = cx.pool.keys[m(*i).keys[*key]].full();
            let sig = ecdsa_sig_for(cx, psbt, *i, *key, *variant);
            J::obj(vec![
                ("o", J::s("sig")),
                ("i", J::N(*i as i64)),
                ("k", J::S(dig("pk", &pk.to_bytes()))),
                ("s", J::S(dig("sig", &sig.to_vec()))),
                ("flag", J::N(sig.sighash_type.to_u32() as i64)),
                ("what", J::S(format!("{} by key #{} of input {}", op.kind(), key, i))),
            ])
        }
        Op::TapKeySig { i, bad } => {
            let (g, b) = m(*i).tap_key_sig.as_ref().unwrap();
            let s = if *bad { b } else { g };
            J::obj(vec![("o", J::s("tapkeysig")), ("i", J::N(*i as i64)), ("s", J::S(dig("tsig", &s.to_vec()))), ("what", J::s(op.kind()))])
        }
        Op::TapKeySigView { i } => {
            let s = tap_key_view_sig(cx, psbt, *i).unwrap_or(m(*i).tap_key_sig.as_ref().unwrap().0);
            J::obj(vec![("o", J::s("tapkeysig")), ("i", J::N(*i as i64)), ("s", J::S(dig("tsig", &s.to_vec()))), ("what", J::s(op.kind()))])
        }
        Op::TapScriptSig { i, idx, bad } => {
            let (ki, li, g, b) = &m(*i).tap_script_sigs[*idx];
            let s = if *bad { b } else { g };
            let x = cx.pool.keys[m(*i).keys[*ki]].xonly();
            let lh = m(*i).tap.as_ref().unwrap().leaves[*li].leaf_hash;
            let mut k = x.serialize().to_vec();
            k.extend_from_slice(&lh.to_byte_array());
            J::obj(vec![
                ("o", J::s("tapsig")),
                ("i", J::N(*i as i64)),
                ("k", J::S(dig("xl", &k))),
                ("s", J::S(dig("tsig", &s.to_vec()))),
                ("what", J::S(format!("{} by key #{} for leaf {}", op.kind(), ki, li))),
            ])
        }
        Op::Preimage { i, kind, wrong } => {
            let pre = if *wrong { cx.pool.wrong_preimage } else { cx.pool.preimages[*kind] };
            let h = gen::hash_of(*kind, &cx.pool.preimages[*kind]);
            J::obj(vec![
                ("o", J::s("pre")),
                ("i", J::N(*i as i64)),
                ("hk", J::s(gen::HASH_NAMES[*kind])),
                ("h", J::S(dig("h", &h))),
                ("p", J::S(dig("pre", &pre))),
                ("what", J::s(op.kind())),
            ])
        }
        Op::Unknown { i, k, v } => {
            let key = unknown_key(*k);
            let mut b = vec![key.type_value];
            b.extend_from_slice(&key.key);
            J::obj(vec![("o", J::s("unk")), ("i", J::N(*i as i64)), ("k", J::S(dig("uk", &b))), ("v", J::S(dig("uv", &[*v])))])
        }
        Op::Update { i, d } => J::obj(vec![
            ("o", J::s("upd")),
            ("i", J::N(*i as i64)),
            ("d", J::N((cx.desc_base + *d) as i64)),
            ("what", J::S(format!("update_input_with_descriptor({}, descriptor of input {})", i, d))),
        ]),
        Op::UpdateAlt { i } => J::obj(vec![
            ("o", J::s("upd")),
            ("i", J::N(*i as i64)),
            ("d", J::N((cx.desc_base + 4 + *i) as i64)),
            ("alt", J::B(true)),
            ("what", J::S(format!("update_input_with_descriptor({}, descriptor of the same output with OTHER key origins)", i))),
        ]),
        Op::StaleOrigin { i, key } => {
            let k = &cx.pool.keys[m(*i).keys[*key]];
            let (fp, path) = stale_source();
            if m(*i).tap.is_some() {
                let mut v = stale_leaf().to_byte_array().to_vec();
                v.extend_from_slice(&origin_src(&fp, &path));
                J::obj(vec![
                    ("o", J::s("taporigin")),
                    ("i", J::N(*i as i64)),
                    ("k", J::S(dig("x", &k.xonly().serialize()))),
                    ("v", J::S(dig("orig", &v))),
                    ("what", J::S(format!("stale tap_key_origins entry for key #{} of input {}", key, i))),
                ])
            } else {
                J::obj(vec![
                    ("o", J::s("deriv")),
                    ("i", J::N(*i as i64)),
                    ("k", J::S(dig("pk", &k.pk.serialize()))),
                    ("v", J::S(dig("src", &origin_src(&fp, &path)))),
                    ("what", J::S(format!("stale bip32_derivation entry for key #{} of input {}", key, i))),
                ])
            }
        }
        Op::SetScripts { i } => J::obj(vec![
            ("o", J::s("scripts")),
            ("i", J::N(*i as i64)),
            ("d", J::N((cx.desc_base + *i) as i64)),
            ("what", J::S(format!("scripts/taproot data of input {} recorded without key origins", i))),
        ]),
        Op::Deriv { i, key } => {
            let k = &cx.pool.keys[m(*i).keys[*key]];
            if m(*i).tap.is_some() {
                let mut v = Vec::new();
                for lh in own_leaf_hashes(m(*i), *key) {
                    v.extend_from_slice(&lh.to_byte_array());
                }
                v.extend_from_slice(&origin_src(&k.fp, &k.path));
                J::obj(vec![
                    ("o", J::s("taporigin")),
                    ("i", J::N(*i as i64)),
                    ("k", J::S(dig("x", &k.xonly().serialize()))),
                    ("v", J::S(dig("orig", &v))),
                    ("what", J::S(format!("tap_key_origins entry for key #{} of input {}", key, i))),
                ])
            } else {
                J::obj(vec![
                    ("o", J::s("deriv")),
                    ("i", J::N(*i as i64)),
                    ("k", J::S(dig("pk", &k.pk.serialize()))),
                    ("v", J::S(dig("src", &origin_src(&k.fp, &k.path)))),
                    ("what", J::S(format!("bip32_derivation entry for key #{} of input {}", key, i))),
                ])
            }
        }
        Op::Finalize { mall, byval } => J::obj(vec![("o", J::s("fin")), ("m", J::B(*mall)), ("byval", J::B(*byval))]),
        Op::FinalizeOld { mall } => J::obj(vec![("o", J::s("finold")), ("m", J::B(*mall))]),
        Op::FinalizeInp { i, mall, byval } => {
            J::obj(vec![("o", J::s("fininp")), ("i", J::N(*i as i64)), ("m", J::B(*mall)), ("byval", J::B(*byval))])
        }
        Op::Extract => J::obj(vec![("o", J::s("ext"))]),
    }
}

#[allow(deprecated)]
fn exec(cx: &Ctx, psbt: &mut Psbt, op: &Op) -> Res {
    let secp = &cx.vsecp;
    let r = catch_unwind(AssertUnwindSafe(|| -> Res {
        let m = |i: usize| &cx.case.inputs[i];
        match op {
            Op::Sig { i, key, variant } => {
                let pk = cx.pool.keys[m(*i).keys[*key]].full();
                let sig = ecdsa_sig_for(cx, psbt, *i, *key, *variant);
                psbt.inputs[*i].partial_sigs.insert(pk, sig);
                Res::Ok
            }
            Op::TapKeySigView { i } => {
                let s = tap_key_view_sig(cx, psbt, *i).unwrap_or(m(*i).tap_key_sig.as_ref().unwrap().0);
                psbt.inputs[*i].tap_key_sig = Some(s);
                Res::Ok
            }
            Op::TapKeySig { i, bad } => {
                let (g, b) = m(*i).tap_key_sig.as_ref().unwrap();
                psbt.inputs[*i].tap_key_sig = Some(if *bad { *b } else { *g });
                Res::Ok
            }
            Op::TapScriptSig { i, idx, bad } => {
                let (ki, li, g, b) = &m(*i).tap_script_sigs[*idx];
                let x = cx.pool.keys[m(*i).keys[*ki]].xonly();
                let lh = m(*i).tap.as_ref().unwrap().leaves[*li].leaf_hash;
                psbt.inputs[*i].tap_script_sigs.insert((x, lh), if *bad { *b } else { *g });
                Res::Ok
            }
            Op::Preimage { i, kind, wrong } => {
                let pre = if *wrong { cx.pool.wrong_preimage } else { cx.pool.preimages[*kind] };
                let h = gen::hash_of(*kind, &cx.pool.preimages[*kind]);
                let a = &mut psbt.inputs[*i];
                match kind {
                    0 => {
                        a.sha256_preimages.insert(sha256::Hash::from_slice(&h).unwrap(), pre.to_vec());
                    }
                    1 => {
                        a.hash160_preimages.insert(hash160::Hash::from_slice(&h).unwrap(), pre.to_vec());
                    }
                    2 => {
                        a.ripemd160_preimages.insert(ripemd160::Hash::from_slice(&h).unwrap(), pre.to_vec());
                    }
                    _ => {
                        a.hash256_preimages.insert(sha256d::Hash::from_slice(&h).unwrap(), pre.to_vec());
                    }
                }
                Res::Ok
            }
            Op::Unknown { i, k, v } => {
                psbt.inputs[*i].unknown.insert(unknown_key(*k), vec![*v]);
                Res::Ok
            }
            Op::Update { i, d } => match psbt.update_input_with_descriptor(*i, &m(*d).desc) {
                Ok(()) => Res::Ok,
                Err(UtxoUpdateError::IndexOutOfBounds(..)) => Res::Upd(1),
                Err(UtxoUpdateError::MissingInputUtxo) => Res::Upd(2),
                Err(UtxoUpdateError::UtxoCheck) => Res::Upd(3),
                Err(UtxoUpdateError::MismatchedScriptPubkey) => Res::Upd(4),
                Err(UtxoUpdateError::DerivationError(_)) => Res::Upd(5),
            },
            Op::UpdateAlt { i } => match psbt.update_input_with_descriptor(*i, &m(*i).alt_desc) {
                Ok(()) => Res::Ok,
                Err(UtxoUpdateError::IndexOutOfBounds(..)) => Res::Upd(1),
                Err(UtxoUpdateError::MissingInputUtxo) => Res::Upd(2),
                Err(UtxoUpdateError::UtxoCheck) => Res::Upd(3),
                Err(UtxoUpdateError::MismatchedScriptPubkey) => Res::Upd(4),
                Err(UtxoUpdateError::DerivationError(_)) => Res::Upd(5),
            },
            Op::StaleOrigin { i, key } => {
                let mi = m(*i);
                let k = &cx.pool.keys[mi.keys[*key]];
                if mi.tap.is_some() {
                    psbt.inputs[*i].tap_key_origins.insert(k.xonly(), (vec![stale_leaf()], stale_source()));
                } else {
                    psbt.inputs[*i].bip32_derivation.insert(k.pk, stale_source());
                }
                Res::Ok
            }
            Op::SetScripts { i } => {
                let mi = m(*i);
                let a = &mut psbt.inputs[*i];
                if let Some(tap) = &mi.tap {
                    a.tap_internal_key = Some(tap.internal);
                    a.tap_merkle_root = tap.spend_info.merkle_root();
                    for (cb, leaf) in own_tap_scripts(mi) {
                        a.tap_scripts.insert(cb, leaf);
                    }
                } else {
                    if let Some(r) = &mi.redeem_script {
                        a.redeem_script = Some(r.clone());
                    }
                    if let Some(w) = &mi.witness_script {
                        a.witness_script = Some(w.clone());
                    }
                }
                Res::Ok
            }
            Op::Deriv { i, key } => {
                let mi = m(*i);
                let k = &cx.pool.keys[mi.keys[*key]];
                if mi.tap.is_some() {
                    psbt.inputs[*i].tap_key_origins.insert(k.xonly(), (own_leaf_hashes(mi, *key), (k.fp, k.path.clone())));
                } else {
                    psbt.inputs[*i].bip32_derivation.insert(k.pk, (k.fp, k.path.clone()));
                }
                Res::Ok
            }
            Op::Finalize { mall, byval } => {
                let r: Result<(), Vec<PErr>> = if *byval {
                    let taken = std::mem::replace(psbt, Psbt::from_unsigned_tx(cx.case.tx.clone()).unwrap());
                    let r = if *mall { taken.finalize_mall(secp) } else { taken.finalize(secp) };
                    match r {
                        Ok(p) => {
                            *psbt = p;
                            Ok(())
                        }
                        Err((p, e)) => {
                            *psbt = p;
                            Err(e)
                        }
                    }
                } else if *mall {
                    psbt.finalize_mall_mut(secp)
                } else {
                    psbt.finalize_mut(secp)
                };
                match r {
                    Ok(()) => Res::Ok,
                    Err(es) => {
                        let mut v = Vec::new();
                        for e in &es {
                            match e {
                                PErr::InputError(ie, i) => v.push((*i, input_err_class(ie))),
                                other => return perr(other),
                            }
                        }
                        Res::FinErrs(v)
                    }
                }
            }
            Op::FinalizeOld { mall } => {
                let r = if *mall { miniscript::psbt::finalize_mall(psbt, secp) } else { miniscript::psbt::finalize(psbt, secp) };
                match r {
                    Ok(()) => Res::Ok,
                    Err(e) => perr(&e),
                }
            }
            Op::FinalizeInp { i, mall, byval } => {
                let r: Result<(), PErr> = if *byval {
                    let taken = std::mem::replace(psbt, Psbt::from_unsigned_tx(cx.case.tx.clone()).unwrap());
                    let r = if *mall { taken.finalize_inp_mall(secp, *i) } else { taken.finalize_inp(secp, *i) };
                    match r {
                        Ok(p) => {
                            *psbt = p;
                            Ok(())
                        }
                        Err((p, e)) => {
                            *psbt = p;
                            Err(e)
                        }
                    }
                } else if *mall {
                    psbt.finalize_inp_mall_mut(secp, *i)
                } else {
                    psbt.finalize_inp_mut(secp, *i)
                };
                match r {
                    Ok(()) => Res::Ok,
                    Err(e) => perr(&e),
                }
            }
            Op::Extract => match psbt.extract(secp) {
                Ok(tx) => Res::Extracted(
                    tx.input
                        .iter()
                        .map(|t| {
                            (
                                if t.script_sig.is_empty() { None } else { Some(dig("ss", t.script_sig.as_bytes())) },
                                if t.witness.is_empty() { None } else { Some(wit_dig(&t.witness)) },
                            )
                        })
                        .collect(),
                ),
                Err(e) => perr(&e),
            },
        }
    }));
    r.unwrap_or(Res::Panic)
}

// ------------------------------------------------------------------ monitors (oracle i, ii, iii)
struct Viol {
    key: String,
    what: String,
    step: usize,
    /// the PSBT (base64) right before the offending operation
    before: Option<String>,
}

fn is_final(a: &psbt::Input) -> bool { a.final_script_sig.is_some() || a.final_script_witness.is_some() }

fn only_utxo(a: &psbt::Input) -> bool {
    let mut e = psbt::Input::default();
    e.witness_utxo = a.witness_utxo.clone();
    e.non_witness_utxo = a.non_witness_utxo.clone();
    *a == e
}

fn verify_final_fields(cx: &Ctx, j: usize, a: &psbt::Input) -> Result<(), String> {
    let ss = a.final_script_sig.clone().unwrap_or_else(ScriptBuf::new);
    let w = a.final_script_witness.clone().unwrap_or_default();
    oracle::verify_spend(cx.pool, cx.case, j, &ss, &w)?;
    oracle::interpreter_accepts(cx.pool, cx.case, j, &ss, &w)
}

fn monitor(cx: &Ctx, step: usize, op: &Op, before: &Psbt, after: &Psbt, res: &Res, checked: &[bool], out: &mut Vec<Viol>) {
    let mut v = |key: &str, what: String| out.push(Viol { key: key.to_string(), what, step, before: None });
    if *res == Res::Panic {
        v("panic", format!("{} panicked", op.kind()));
    }
    if before.unsigned_tx != after.unsigned_tx || before.inputs.len() != after.inputs.len() || before.outputs != after.outputs {
        v("tx-changed", format!("{} changed the unsigned transaction, the input count or the outputs", op.kind()));
        return;
    }
    let n = before.inputs.len();
    let finalizer_op = !op.is_adder();
    for j in 0..n {
        let (b, a) = (&before.inputs[j], &after.inputs[j]);
        if is_final(b) {
            if b.final_script_sig != a.final_script_sig || b.final_script_witness != a.final_script_witness {
                v("final-changed", format!("{} changed the final fields of input {} which was already final", op.kind(), j));
            } else if finalizer_op && a != b {
                v("final-input-altered", format!("{} altered input {} which was already final", op.kind(), j));
            }
        }
        if b.witness_utxo != a.witness_utxo || b.non_witness_utxo != a.non_witness_utxo {
            v("utxo-changed", format!("{} changed the utxo fields of input {}", op.kind(), j));
        }
        if !is_final(b) && is_final(a) {
            if let Some(t) = &b.non_witness_utxo {
                let prev = before.unsigned_tx.input[j].previous_output;
                if t.compute_txid() != prev.txid || t.output.get(prev.vout as usize).is_none() {
                    v("foreign-prev-tx-finalized", format!("{} finalized input {} although its non_witness_utxo is not the transaction the outpoint names (or lacks that output)", op.kind(), j));
                }
            }
            if !finalizer_op {
                v("final-by-adder", format!("{} made input {} final", op.kind(), j));
            }
            // (ii) a finalized input must be a valid spend of the referenced output
            if let Err(e) = verify_final_fields(cx, j, a) {
                let lie = utxo_lie(cx, before, j);
                if lie.is_some() && !checked.get(j).copied().unwrap_or(true) {
                    // nobody ran the checked updater on this input: the finalizer took the PSBT's word
                    v("unchecked-utxo-finalized",
                      format!("{} finalized input {} ({}) against utxo data that no checked update had accepted ({}); against the REAL prevout: {}", op.kind(), j, cx.case.inputs[j].template, lie.unwrap(), e));
                } else {
                    v(&format!("invalid-final:{}", cx.case.inputs[j].outer.name()),
                      format!("{} finalized input {} ({}) with fields that do not spend the referenced output{}: {}", op.kind(), j, cx.case.inputs[j].template,
                              lie.map(|l| format!(" [{}]", l)).unwrap_or_default(), e));
                }
            }
            // what is kept: the utxo, the final fields, and (BIP174) the unknown fields
            let mut e = psbt::Input::default();
            e.witness_utxo = b.witness_utxo.clone();
            e.non_witness_utxo = b.non_witness_utxo.clone();
            e.final_script_sig = a.final_script_sig.clone();
            e.final_script_witness = a.final_script_witness.clone();
            e.unknown = b.unknown.clone();
            if *a != e {
                let mut a2 = a.clone();
                a2.unknown = b.unknown.clone();
                if a2 == e {
                    v("finalize-drops-unknown", format!("{} finalized input {} and dropped its {} unknown field(s) (BIP174: keep UTXO and unknown fields)", op.kind(), j, b.unknown.len()));
                } else {
                    v("finalize-leftover-fields", format!("{} finalized input {} but left other fields in place (or removed the utxo)", op.kind(), j));
                }
            }
        }
        if !is_final(b) && !is_final(a) && finalizer_op && a != b {
            v("nonfinal-mutated", format!("{} changed input {} without finalizing it", op.kind(), j));
        }
    }
    // completeness: a signature-complete input must be finalized by every call that tries it
    let tried: Vec<usize> = match op {
        Op::FinalizeInp { i, .. } if *i < n => vec![*i],
        Op::Finalize { .. } => (0..n).collect(),
        _ => vec![],
    };
    for j in tried {
        if !is_final(&after.inputs[j]) && signature_complete(cx, before, j) {
            let origins = if cx.case.inputs[j].tap.is_some() { before.inputs[j].tap_key_origins.len() } else { before.inputs[j].bip32_derivation.len() };
            let class = cx.case.inputs[j].outer.name().to_string();
            v(&format!("complete-not-finalized:{}", class),
              format!("{} did not finalize input {} ({}) although it carries the scripts and valid signatures/preimages satisfying the descriptor for this transaction ({} key-origin record(s) present, {} keys): {:?}",
                      op.kind(), j, cx.case.inputs[j].template, origins, cx.case.inputs[j].keys.len(), res));
        }
    }
    // failing calls
    match (op, res) {
        (Op::FinalizeInp { .. }, r) if *r != Res::Ok => {
            if before != after {
                v("failinp-mutated", format!("a failing finalize_inp call ({}) changed the PSBT", r.class()));
            }
        }
        (Op::Finalize { .. }, Res::FinErrs(es)) => {
            for (i, _) in es {
                if *i >= n || before.inputs[*i] != after.inputs[*i] {
                    v("failmut-mutated", format!("finalize_mut reported input {} as failed but changed it", i));
                }
                if *i < n && is_final(&before.inputs[*i]) && utxo_inconsistent(before, *i).is_none() {
                    v("final-reported-failed", format!("finalize_mut reported the already final input {} as failed", i));
                }
            }
            // one error per input that was tried and not finalized (the indices inside the errors are
            // the library's: `prevouts` names the first input whose utxo cannot be found)
            let failed = (0..n).filter(|j| !is_final(&before.inputs[*j]) && !is_final(&after.inputs[*j])).count();
            if failed != es.len() {
                v("silent-failure", format!("finalize_mut left {} input(s) unfinalized but reported {} error(s)", failed, es.len()));
            }
        }
        (Op::Finalize { .. }, Res::Ok) => {
            for j in 0..n {
                if !is_final(&after.inputs[j]) {
                    v("ok-but-not-final", format!("finalize_mut returned Ok but input {} is not final", j));
                }
            }
        }
        (Op::FinalizeOld { .. }, Res::InputErr(i, _)) => {
            if *i >= n || before.inputs[*i] != after.inputs[*i] {
                v("failold-mutated", format!("psbt::finalize reported input {} as failed but changed it", i));
            }
        }
        (Op::FinalizeInp { i, .. }, Res::Ok) => {
            for j in 0..n {
                if j != *i && before.inputs[j] != after.inputs[j] {
                    v("inp-touched-other", format!("finalize_inp({}) changed input {}", i, j));
                }
            }
            if *i < n && !is_final(&after.inputs[*i]) {
                v("ok-but-not-final", format!("finalize_inp({}) returned Ok but the input is not final", i));
            }
        }
        (Op::Update { i, d }, Res::Ok) => {
            // the documented utxo consistency check of the checked updater
            if let Some(why) = utxo_inconsistent(before, *i) {
                v("update-accepts-inconsistent-utxo", format!("update_input_with_descriptor({}) accepted utxo fields that are not tied to the referenced output: {}", i, why));
            }
            let fresh = only_utxo(&before.inputs[*i]);
            if cx.case.inputs[*d].spk != cx.case.inputs[*i].spk {
                v("update-accepts-wrong-descriptor", format!("update of input {} accepted the descriptor of input {}", i, d));
            } else {
                for b in oracle::check_update(cx.pool, cx.case, *d, &after.inputs[*i], fresh, false) {
                    v(&format!("update-inconsistent:{}", cx.case.inputs[*d].outer.name()), format!("update of input {} ({}): {}", i, cx.case.inputs[*d].template, b));
                }
            }
            for j in 0..n {
                if j != *i && before.inputs[j] != after.inputs[j] {
                    v("update-touched-other", format!("update of input {} changed input {}", i, j));
                }
            }
        }
        (Op::UpdateAlt { i }, Res::Ok) => {
            if let Some(why) = utxo_inconsistent(before, *i) {
                v("update-accepts-inconsistent-utxo", format!("update_input_with_descriptor({}) accepted utxo fields that are not tied to the referenced output: {}", i, why));
            }
            // after the LAST successful update every origin and leaf-hash list is what that descriptor says
            for b in oracle::check_update(cx.pool, cx.case, *i, &after.inputs[*i], false, true) {
                v(&format!("update-inconsistent:{}", cx.case.inputs[*i].outer.name()), format!("update of input {} ({}) from the descriptor with other key origins: {}", i, cx.case.inputs[*i].template, b));
            }
            for j in 0..n {
                if j != *i && before.inputs[j] != after.inputs[j] {
                    v("update-touched-other", format!("update of input {} changed input {}", i, j));
                }
            }
        }
        (Op::UpdateAlt { i }, r) => {
            if before != after {
                v("update-fail-mutated", format!("a failing update ({:?}) changed the PSBT", r));
            }
            if utxo_inconsistent(before, *i).is_none() {
                v("update-rejects-own-descriptor", format!("update of input {} with the other-origins descriptor of its own output failed: {:?}", i, r));
            }
        }
        (Op::Update { i, d }, r) => {
            if before != after {
                v("update-fail-mutated", format!("a failing update ({:?}) changed the PSBT", r));
            }
            if i == d && utxo_inconsistent(before, *i).is_none() {
                v("update-rejects-own-descriptor", format!("update of input {} with its own descriptor failed: {:?}", i, r));
            }
        }
        (Op::Extract, Res::Extracted(_)) => {}
        _ => {}
    }
    if let Op::Extract = op {
        if before != after {
            v("extract-mutated", "extract changed the PSBT".to_string());
        }
    }
}

/// taproot input with a good key-path signature and the internal key recorded
#[allow(dead_code)]
fn key_ok_for_tr(cx: &Ctx, psbt: &Psbt, j: usize) -> bool {
    let m = &cx.case.inputs[j];
    let a = &psbt.inputs[j];
    match (&m.tap, &a.tap_key_sig, &m.tap_key_sig) {
        (Some(tap), Some(s), Some((good, _))) => s == good && a.tap_internal_key == Some(tap.internal),
        _ => false,
    }
}

/// Completeness: does input `j` of `psbt` carry - and carry ONLY - material the harness itself put
/// there that satisfies the descriptor's spending condition for the unsigned transaction?
/// (scripts / taproot data as the harness computes them, good signatures of enough keys, right
/// preimages, satisfied time locks; no wrong signature, wrong-flag signature or wrong preimage
/// anywhere in the input; utxo fields of every input tied to its outpoint.)  Key-origin records
/// are NOT required: they are optional in BIP174/371.
fn signature_complete(cx: &Ctx, psbt: &Psbt, j: usize) -> bool {
    use gen::Pol;
    let m = &cx.case.inputs[j];
    let a = &psbt.inputs[j];
    if is_final(a) || psbt.unsigned_tx != cx.case.tx || a.sighash_type.is_some() {
        return false;
    }
    for k in 0..psbt.inputs.len() {
        if utxo_inconsistent(psbt, k).is_some() || utxo_lie(cx, psbt, k).is_some() {
            return false;
        }
    }
    // clean: every signature / preimage present is a good one of this input
    let mut have = vec![false; m.keys.len()];
    for (pk, sig) in &a.partial_sigs {
        match m.ecdsa_sigs.iter().find(|(ki, good, _)| cx.pool.keys[m.keys[*ki]].full() == *pk && good == sig) {
            Some((ki, _, _)) => have[*ki] = true,
            None => return false,
        }
    }
    let preimages_ok = |map_len: usize, kind: usize, got: Option<&Vec<u8>>| -> Option<bool> {
        match (map_len, got) {
            (0, _) => Some(false),
            (1, Some(p)) if p[..] == cx.pool.preimages[kind][..] => Some(true),
            _ => None,
        }
    };
    let h = |kind: usize| gen::hash_of(kind, &cx.pool.preimages[kind]);
    let p0 = preimages_ok(a.sha256_preimages.len(), 0, a.sha256_preimages.get(&sha256::Hash::from_slice(&h(0)).unwrap()));
    let p1 = preimages_ok(a.hash160_preimages.len(), 1, a.hash160_preimages.get(&hash160::Hash::from_slice(&h(1)).unwrap()));
    let p2 = preimages_ok(a.ripemd160_preimages.len(), 2, a.ripemd160_preimages.get(&ripemd160::Hash::from_slice(&h(2)).unwrap()));
    let p3 = preimages_ok(a.hash256_preimages.len(), 3, a.hash256_preimages.get(&sha256d::Hash::from_slice(&h(3)).unwrap()));
    let pre = match (p0, p1, p2, p3) {
        (Some(a0), Some(a1), Some(a2), Some(a3)) => [a0, a1, a2, a3],
        _ => return false,
    };
    let version = cx.case.tx.version.0;
    let lock_time = cx.case.tx.lock_time.to_consensus_u32();
    let seq = cx.case.tx.input[j].sequence.0;
    fn eval(p: &Pol, have: &[bool], pre: &[bool; 4], version: i32, lock_time: u32, seq: u32) -> bool {
        match p {
            Pol::Key(i) => have[*i],
            Pol::Older(n) => oracle::older_ok(version, seq, *n),
            Pol::After(n) => oracle::after_ok(lock_time, seq, *n),
            Pol::Hash(k) => pre[*k],
            Pol::And(v) => v.iter().all(|x| eval(x, have, pre, version, lock_time, seq)),
            Pol::Or(v) => v.iter().any(|x| eval(x, have, pre, version, lock_time, seq)),
            Pol::Thresh(k, v) => v.iter().filter(|x| eval(x, have, pre, version, lock_time, seq)).count() >= *k,
        }
    }
    match m.outer {
        Outer::Tr => {
            let tap = m.tap.as_ref().unwrap();
            if a.tap_internal_key != Some(tap.internal) || !a.partial_sigs.is_empty() {
                return false;
            }
            let key_ok = match (&a.tap_key_sig, &m.tap_key_sig) {
                (None, _) => false,
                (Some(s), Some((good, _))) if s == good => true,
                _ => return false,
            };
            // script-path signatures: all good ones of this input
            let mut leaf_have: Vec<Vec<bool>> = tap.leaves.iter().map(|_| vec![false; m.keys.len()]).collect();
            for ((x, lh), sig) in &a.tap_script_sigs {
                let mut hit = false;
                for (ki, li, good, _) in &m.tap_script_sigs {
                    if cx.pool.keys[m.keys[*ki]].xonly() == *x && tap.leaves[*li].leaf_hash == *lh && good == sig {
                        for (l2, leaf) in tap.leaves.iter().enumerate() {
                            if leaf.leaf_hash == *lh {
                                leaf_have[l2][*ki] = true;
                            }
                        }
                        hit = true;
                    }
                }
                if !hit {
                    return false;
                }
            }
            if key_ok {
                return true;
            }
            tap.leaves.iter().enumerate().any(|(li, leaf)| {
                a.tap_scripts.values().any(|(s, v)| *s == leaf.script && *v == bitcoin::taproot::LeafVersion::TapScript)
                    && eval(&leaf.pol, &leaf_have[li], &pre, version, lock_time, seq)
            })
        }
        _ => {
            if a.tap_key_sig.is_some() || !a.tap_script_sigs.is_empty() {
                return false;
            }
            let scripts_ok = match m.outer {
                Outer::Wsh => a.witness_script == m.witness_script && a.redeem_script.is_none(),
                Outer::ShWsh => a.witness_script == m.witness_script && a.redeem_script == m.redeem_script,
                Outer::Sh | Outer::ShWpkh => a.redeem_script == m.redeem_script && a.witness_script.is_none(),
                _ => a.redeem_script.is_none() && a.witness_script.is_none(),
            };
            scripts_ok && eval(&m.pol, &have, &pre, version, lock_time, seq)
        }
    }
}

/// Are the utxo fields of input `i` tied to the output the unsigned transaction references?
/// (what update_input_with_descriptor documents to check; judged with rust-bitcoin only)
fn utxo_inconsistent(psbt: &Psbt, i: usize) -> Option<String> {
    let a = &psbt.inputs[i];
    let prev = psbt.unsigned_tx.input.get(i)?.previous_output;
    if let Some(t) = &a.non_witness_utxo {
        if t.compute_txid() != prev.txid {
            return Some("non_witness_utxo is not the transaction named by the outpoint".into());
        }
        match t.output.get(prev.vout as usize) {
            None => return Some("the outpoint's vout is beyond the outputs of non_witness_utxo".into()),
            Some(o) => {
                if let Some(w) = &a.witness_utxo {
                    if w.script_pubkey != o.script_pubkey {
                        return Some("witness_utxo has another script than the referenced output".into());
                    }
                    if w.value != o.value {
                        return Some(format!("witness_utxo says {} sat, the referenced output holds {} sat", w.value.to_sat(), o.value.to_sat()));
                    }
                }
            }
        }
    } else if a.witness_utxo.is_none() {
        return Some("no utxo field".into());
    }
    None
}

/// Does the PSBT present another spent output for input `j` than the real prevout of the case?
fn utxo_lie(cx: &Ctx, psbt: &Psbt, j: usize) -> Option<String> {
    let m = &cx.case.inputs[j];
    if let Some(t) = psbt.unsigned_tx.input.get(j) {
        if t.previous_output.vout != m.vout {
            return Some(format!("the outpoint names output {} which the referenced transaction does not have", t.previous_output.vout));
        }
    }
    match psbt_view_utxo(psbt, j) {
        Some(o) if o.value == m.value && o.script_pubkey == m.spk => None,
        Some(o) => Some(format!("the PSBT presents {} sat / {}, the real prevout is {} sat / {}", o.value.to_sat(), dig("spk", o.script_pubkey.as_bytes()), m.value.to_sat(), dig("spk", m.spk.as_bytes()))),
        None => Some("the PSBT presents no spent output".into()),
    }
}

/// extract: the transaction is the unsigned one plus the final fields, and every input verifies
/// against the REAL prevout (the case's previous transaction output, which is also
/// non_witness_utxo.output[vout] whenever that field is the genuine transaction) with sighashes
/// computed by rust-bitcoin from that prevout - never from the PSBT's witness_utxo.
fn monitor_extract(cx: &Ctx, step: usize, psbt: &Psbt, checked: &[bool], out: &mut Vec<Viol>) {
    if let Ok(tx) = psbt.extract(&cx.vsecp) {
        let mut v = |key: &str, what: String| out.push(Viol { key: key.to_string(), what, step, before: None });
        let u = &psbt.unsigned_tx;
        if tx.version != u.version || tx.lock_time != u.lock_time || tx.output != u.output || tx.input.len() != u.input.len() {
            v("extract-mismatch", "extracted transaction differs from the unsigned transaction outside scriptSig/witness".into());
            return;
        }
        for (j, t) in tx.input.iter().enumerate() {
            let a = &psbt.inputs[j];
            if t.previous_output != u.input[j].previous_output || t.sequence != u.input[j].sequence {
                v("extract-mismatch", format!("extracted input {} has another outpoint or sequence", j));
            }
            if t.script_sig != a.final_script_sig.clone().unwrap_or_else(ScriptBuf::new) || t.witness != a.final_script_witness.clone().unwrap_or_default() {
                v("extract-mismatch", format!("extracted input {} does not carry the final fields", j));
            }
            if let Err(e) = oracle::verify_spend(cx.pool, cx.case, j, &t.script_sig, &t.witness).and_then(|_| oracle::interpreter_accepts(cx.pool, cx.case, j, &t.script_sig, &t.witness)) {
                // self-check of the oracle's notion of "real prevout"
                if let Some(t) = &a.non_witness_utxo {
                    if t.compute_txid() == u.input[j].previous_output.txid {
                        if let Some(o) = t.output.get(u.input[j].previous_output.vout as usize) {
                            if o.value != cx.case.inputs[j].value || o.script_pubkey != cx.case.inputs[j].spk {
                                v("selfcheck", "the genuine non_witness_utxo disagrees with the case's real prevout".into());
                            }
                        }
                    }
                }
                let lie = utxo_lie(cx, psbt, j);
                if lie.is_some() && !checked.get(j).copied().unwrap_or(true) {
                    v("unchecked-utxo-finalized", format!("extracted transaction: input {} ({}) was finalized against utxo data no checked update had accepted ({}); against the REAL prevout: {}", j, cx.case.inputs[j].template, lie.unwrap(), e));
                } else {
                    v(&format!("extract-invalid:{}", cx.case.inputs[j].outer.name()),
                      format!("finalization succeeded without a valid spend: extracted transaction input {} ({}) does not validate against the real prevout{}: {}", j, cx.case.inputs[j].template, lie.map(|l| format!(" [{}]", l)).unwrap_or_default(), e));
                }
            }
        }
    }
}

/// Complete tabulation, on the states met, of how the compiled code finds the key behind a raw
/// key hash: `Placeholder::PubkeyHash(h, 34).satisfy_self(&PsbtInputSatisfier)`.
fn tabulate_pkh(cx: &Ctx, psbt: &Psbt, int: &mut Interner, lines: &mut Vec<String>) {
    use miniscript::miniscript::satisfy::Placeholder;
    use miniscript::psbt::PsbtInputSatisfier;
    for j in 0..psbt.inputs.len() {
        let m = &cx.case.inputs[j];
        if m.tap.is_some() {
            // x-only keys of a tap leaf (since /repo f4ee52fc: tap_key_origins, else tap_script_sigs)
            if psbt.inputs[j].tap_script_sigs.is_empty() && psbt.inputs[j].tap_key_origins.is_empty() {
                continue;
            }
            let id = int.get(lines, &abs_input(psbt, j));
            for ki in &m.keys {
                if !int.pkh_seen.insert((id, *ki)) {
                    continue;
                }
                let x = cx.pool.keys[*ki].xonly();
                let h = hash160::Hash::hash(&x.serialize());
                let sat = PsbtInputSatisfier::new(psbt, j);
                let r = catch_unwind(AssertUnwindSafe(|| Placeholder::<bitcoin::key::XOnlyPublicKey>::PubkeyHash(h, 33).satisfy_self(&sat))).unwrap_or(None);
                lines.push(
                    J::obj(vec![
                        ("t", J::s("pkhtap")),
                        ("inp", J::N(id as i64)),
                        ("h", J::S(dig("h160", &h.to_byte_array()))),
                        ("r", J::opt_s(r.map(|b| dig("x", &b)))),
                    ])
                    .to_string(),
                );
            }
            continue;
        }
        if psbt.inputs[j].partial_sigs.is_empty() && psbt.inputs[j].bip32_derivation.is_empty() {
            continue;
        }
        let id = int.get(lines, &abs_input(psbt, j));
        for ki in &m.keys {
            if !int.pkh_seen.insert((id, *ki)) {
                continue;
            }
            let k = &cx.pool.keys[*ki];
            let h = hash160::Hash::hash(&k.pk.serialize());
            let sat = PsbtInputSatisfier::new(psbt, j);
            let r = catch_unwind(AssertUnwindSafe(|| Placeholder::<bitcoin::PublicKey>::PubkeyHash(h, 34).satisfy_self(&sat))).unwrap_or(None);
            lines.push(
                J::obj(vec![
                    ("t", J::s("pkh")),
                    ("inp", J::N(id as i64)),
                    ("h", J::S(dig("h160", &h.to_byte_array()))),
                    ("r", J::opt_s(r.map(|b| dig("pk", &b)))),
                ])
                .to_string(),
            );
        }
    }
}

// ------------------------------------------------------------------ histories
fn op_pool(case: &Case, rng: &mut Rng) -> Vec<Op> {
    let n = case.inputs.len();
    let mut v = Vec::new();
    for i in 0..n {
        let m = &case.inputs[i];
        v.push(Op::Update { i, d: i });
        if rng.chance(1, 2) {
            v.push(Op::UpdateAlt { i });
        }
        if rng.chance(1, 4) {
            v.push(Op::StaleOrigin { i, key: rng.below(m.keys.len()) });
        }
        if rng.chance(1, 2) {
            v.push(Op::SetScripts { i });
            v.push(Op::Deriv { i, key: rng.below(m.keys.len()) });
        }
        for k in 0..m.ecdsa_sigs.len() {
            v.push(Op::Sig { i, key: k, variant: 0 });
        }
        if m.tap_key_sig.is_some() {
            v.push(Op::TapKeySig { i, bad: false });
        }
        for idx in 0..m.tap_script_sigs.len() {
            v.push(Op::TapScriptSig { i, idx, bad: false });
        }
        for kind in &m.uses_hash {
            v.push(Op::Preimage { i, kind: *kind, wrong: false });
        }
    }
    // deliberately failing material
    for _ in 0..2 {
        let i = rng.below(n);
        let m = &case.inputs[i];
        match rng.below(6) {
            0 if !m.ecdsa_sigs.is_empty() => v.push(Op::Sig { i, key: rng.below(m.ecdsa_sigs.len()), variant: 1 }),
            1 if !m.ecdsa_sigs.is_empty() => v.push(Op::Sig { i, key: rng.below(m.ecdsa_sigs.len()), variant: 2 }),
            2 if m.tap_key_sig.is_some() => v.push(Op::TapKeySig { i, bad: true }),
            3 if !m.tap_script_sigs.is_empty() => v.push(Op::TapScriptSig { i, idx: rng.below(m.tap_script_sigs.len()), bad: true }),
            4 if !m.uses_hash.is_empty() => v.push(Op::Preimage { i, kind: m.uses_hash[0], wrong: true }),
            _ => v.push(Op::Update { i, d: (i + 1) % n }),
        }
    }
    v.push(Op::Unknown { i: rng.below(n), k: rng.below(3) as u8, v: rng.below(5) as u8 });
    v
}

fn finalizer_op(rng: &mut Rng, n: usize) -> Op {
    match rng.below(12) {
        0 | 1 | 2 => Op::Finalize { mall: false, byval: rng.chance(1, 4) },
        3 => Op::Finalize { mall: true, byval: rng.chance(1, 4) },
        4 | 5 | 6 => Op::FinalizeInp { i: rng.below(n), mall: rng.chance(1, 4), byval: rng.chance(1, 4) },
        7 => Op::FinalizeInp { i: if rng.chance(1, 6) { n } else { rng.below(n) }, mall: false, byval: false },
        8 => Op::FinalizeOld { mall: rng.chance(1, 3) },
        _ => Op::Extract,
    }
}

/// apply what an updater + signers would add for input `i` (all of it, or part of it)
fn prepare_input(cx: &Ctx, psbt: &mut Psbt, i: usize, level: usize, rng: &mut Rng) {
    let m = &cx.case.inputs[i];
    if level == 0 {
        return;
    }
    let _ = exec(cx, psbt, &Op::Update { i, d: i });
    if level == 1 {
        return;
    }
    let partial = level == 3;
    for k in 0..m.ecdsa_sigs.len() {
        if !partial || rng.chance(1, 2) {
            exec(cx, psbt, &Op::Sig { i, key: k, variant: 0 });
        }
    }
    if m.tap_key_sig.is_some() && rng.chance(1, 2) && !partial {
        exec(cx, psbt, &Op::TapKeySig { i, bad: false });
    }
    for idx in 0..m.tap_script_sigs.len() {
        if !partial || rng.chance(1, 2) {
            exec(cx, psbt, &Op::TapScriptSig { i, idx, bad: false });
        }
    }
    for kind in &m.uses_hash {
        if !partial || rng.chance(1, 2) {
            exec(cx, psbt, &Op::Preimage { i, kind: *kind, wrong: false });
        }
    }
}

fn permutations(ops: &[Op]) -> Vec<Vec<Op>> {
    fn go(cur: &mut Vec<Op>, rest: &mut Vec<Op>, out: &mut Vec<Vec<Op>>) {
        if rest.is_empty() {
            if !out.contains(cur) {
                out.push(cur.clone());
            }
            return;
        }
        for k in 0..rest.len() {
            let x = rest.remove(k);
            cur.push(x.clone());
            go(cur, rest, out);
            cur.pop();
            rest.insert(k, x);
        }
    }
    let mut out = Vec::new();
    go(&mut Vec::new(), &mut ops.to_vec(), &mut out);
    out
}

struct Stats {
    histories: usize,
    ops: usize,
    op_hist: BTreeMap<String, usize>,
    res_hist: BTreeMap<String, usize>,
    len_hist: BTreeMap<usize, usize>,
    outer_hist: BTreeMap<String, usize>,
    template_hist: BTreeMap<String, usize>,
    finalized_inputs: BTreeMap<String, usize>,
    failed_attempts: BTreeMap<i64, usize>,
    extracted: usize,
    spends_verified: usize,
    updates_checked: usize,
    order_checks: usize,
    idem_checks: usize,
    timelock_rows: usize,
    satisfier_calls: usize,
    satisfier_ok: usize,
}

#[allow(clippy::too_many_arguments)]
fn run_history(
    cx: &Ctx,
    init: &Psbt,
    ops: &[Op],
    kind: &str,
    hid: usize,
    cid: usize,
    int: &mut Interner,
    lines: &mut Vec<String>,
    st: &mut Stats,
) {
    let mut psbt = init.clone();
    let mut viols: Vec<Viol> = Vec::new();
    // has a checked update accepted input i's utxo data? (inputs whose utxo view is truthful count as checked)
    let mut checked: Vec<bool> = (0..init.inputs.len()).map(|j| utxo_lie(cx, init, j).is_none()).collect();
    let s0 = abs_state(&psbt, int, lines);
    let mut obs = Vec::new();
    let mut results = Vec::new();
    let mut opj = Vec::new();
    for (t, op) in ops.iter().enumerate() {
        let before = psbt.clone();
        opj.push(op_json(cx, &before, op));
        let res = exec(cx, &mut psbt, op);
        monitor(cx, t, op, &before, &psbt, &res, &checked, &mut viols);
        if let (Op::Update { i, .. }, Res::Ok) | (Op::UpdateAlt { i }, Res::Ok) = (op, &res) {
            if *i < checked.len() {
                checked[*i] = true;
            }
        }
        *st.op_hist.entry(op.kind().to_string()).or_default() += 1;
        *st.res_hist.entry(format!("{}:{}", op.kind(), res.class())).or_default() += 1;
        st.ops += 1;
        for j in 0..psbt.inputs.len() {
            if !is_final(&before.inputs[j]) && is_final(&psbt.inputs[j]) {
                *st.finalized_inputs.entry(cx.case.inputs[j].outer.name().to_string()).or_default() += 1;
                st.spends_verified += 1;
            }
        }
        match &res {
            Res::FinErrs(es) => es.iter().for_each(|(_, e)| *st.failed_attempts.entry(*e).or_default() += 1),
            Res::InputErr(_, e) => *st.failed_attempts.entry(*e).or_default() += 1,
            Res::Extracted(_) => {
                st.extracted += 1;
                monitor_extract(cx, t, &psbt, &checked, &mut viols);
            }
            _ => {}
        }
        if let (Op::Update { .. }, Res::Ok) = (op, &res) {
            st.updates_checked += 1;
        }
        // idempotence: the same finalizing call again, on a copy, is a no-op with the same result class
        if matches!(op, Op::Finalize { .. } | Op::FinalizeOld { .. } | Op::FinalizeInp { .. }) {
            let mut again = psbt.clone();
            let res2 = exec(cx, &mut again, op);
            st.idem_checks += 1;
            if again != psbt {
                viols.push(Viol { key: "not-idempotent".into(), what: format!("repeating {} changed the PSBT again", op.kind()), step: t, before: None });
            } else if res2 != res {
                viols.push(Viol { key: "not-idempotent".into(), what: format!("repeating {} returned {:?} after {:?}", op.kind(), res2, res), step: t, before: None });
            }
        }
        for v in viols.iter_mut() {
            if v.step == t && v.before.is_none() {
                v.before = Some(before.to_string());
            }
        }
        obs.push(J::obj(vec![("r", res.json()), ("st", abs_state(&psbt, int, lines))]));
        if op.is_adder() {
            tabulate_pkh(cx, &psbt, int, lines);
        }
        results.push(res);
    }
    // order independence: reverse every maximal block of adding operations that write distinct places
    let mut alt: Vec<Op> = Vec::new();
    let mut k = 0;
    let mut changed = false;
    while k < ops.len() {
        if ops[k].is_adder() {
            let mut e = k;
            let mut seen: Vec<(usize, u8, usize)> = Vec::new();
            while e < ops.len() && ops[e].is_adder() {
                let f = ops[e].footprint(cx.case).unwrap();
                if seen.contains(&f) {
                    break;
                }
                seen.push(f);
                e += 1;
            }
            let mut blk: Vec<Op> = ops[k..e].to_vec();
            if blk.len() > 1 {
                blk.reverse();
                changed = true;
            }
            alt.extend(blk);
            k = e;
        } else {
            alt.push(ops[k].clone());
            k += 1;
        }
    }
    if changed {
        st.order_checks += 1;
        let mut p2 = init.clone();
        let mut r2 = Vec::new();
        for op in &alt {
            let r = exec(cx, &mut p2, op);
            if !op.is_adder() {
                r2.push(r);
            }
        }
        let r1: Vec<Res> = ops.iter().zip(results.iter()).filter(|(o, _)| !o.is_adder()).map(|(_, r)| r.clone()).collect();
        if p2 != psbt || r1 != r2 {
            viols.push(Viol {
                key: "order-dependent".into(),
                what: "adding the same signatures/fields in reverse order gave a different PSBT or different finalize/extract results".into(),
                step: ops.len(),
                before: None,
            });
        }
    }
    st.histories += 1;
    *st.len_hist.entry(ops.len()).or_default() += 1;
    let line = J::obj(vec![
        ("t", J::s("hist")),
        ("id", J::N(hid as i64)),
        ("case", J::N(cid as i64)),
        ("kind", J::s(kind)),
        ("tx", J::S(dig("tx", &serialize(&init.unsigned_tx)))),
        ("s0", s0),
        ("ops", J::A(opj)),
        ("obs", J::A(obs)),
        (
            "viol",
            J::A(viols
                .iter()
                .map(|v| J::obj(vec![("key", J::S(v.key.clone())), ("what", J::S(v.what.clone())), ("step", J::N(v.step as i64)), ("psbt_before_step_base64", J::opt_s(v.before.clone()))]))
                .collect()),
        ),
    ]);
    lines.push(line.to_string());
}

// ------------------------------------------------------------------ probes
/// What a fresh update records for the descriptor of input `j` (feeds the model's desc_info),
/// judged by the oracle; plus sighash_msg, update_output_with_descriptor and Plan::update_psbt_input.
fn probes(cx: &Ctx, cid: usize, int: &mut Interner, lines: &mut Vec<String>) {
    let case = cx.case;
    let mut plans = 0usize;
    let mut pvs: Vec<String> = Vec::new();
    let mut pv = |key: &str, what: String| {
        pvs.push(
            J::obj(vec![("t", J::s("probe-viol")), ("case", J::N(cid as i64)), ("key", J::S(key.to_string())), ("what", J::S(what))]).to_string(),
        )
    };
    for (j, m) in case.inputs.iter().enumerate() {
        if m.desc.script_pubkey() != m.spk {
            pv("selfcheck", format!("descriptor {} derives another script_pubkey than the harness computed", m.desc_str));
        }
        let mut p = base_psbt(case);
        let r = catch_unwind(AssertUnwindSafe(|| p.update_input_with_descriptor(j, &m.desc)));
        match r {
            Ok(Ok(())) => {
                for b in oracle::check_update(cx.pool, case, j, &p.inputs[j], true, false) {
                    pv(&format!("update-inconsistent:{}", m.outer.name()), format!("fresh update with {}: {}", m.template, b));
                }
            }
            other => pv("update-rejects-own-descriptor", format!("fresh update with {} failed: {:?}", m.template, other.map(|x| x.err()))),
        }
        let id = int.get(lines, &abs_input(&p, j));
        lines.push(
            J::obj(vec![
                ("t", J::s("desc")),
                ("id", J::N((cx.desc_base + j) as i64)),
                ("case", J::N(cid as i64)),
                ("str", J::S(m.desc_str.clone())),
                ("template", J::S(m.template.clone())),
                ("outer", J::s(m.outer.name())),
                ("tr", J::B(m.outer == Outer::Tr)),
                ("segwit", J::B(m.outer.is_segwit())),
                ("spk", J::S(dig("spk", m.spk.as_bytes()))),
                ("fresh", J::N(id as i64)),
            ])
            .to_string(),
        );
        // the alias descriptor: same output, other key origins (feeds the model's desc_info too)
        if m.alt_desc.script_pubkey() != m.spk {
            pv("selfcheck", format!("alias descriptor {} derives another script_pubkey", m.alt_desc_str));
        }
        let mut pa = base_psbt(case);
        match catch_unwind(AssertUnwindSafe(|| pa.update_input_with_descriptor(j, &m.alt_desc))) {
            Ok(Ok(())) => {
                for b in oracle::check_update(cx.pool, case, j, &pa.inputs[j], true, true) {
                    pv(&format!("update-inconsistent:{}", m.outer.name()), format!("fresh update with {} (other key origins): {}", m.template, b));
                }
            }
            other => pv("update-rejects-own-descriptor", format!("fresh update with the other-origins descriptor of {} failed: {:?}", m.template, other.map(|x| x.err()))),
        }
        let ida = int.get(lines, &abs_input(&pa, j));
        lines.push(
            J::obj(vec![
                ("t", J::s("desc")),
                ("id", J::N((cx.desc_base + 4 + j) as i64)),
                ("case", J::N(cid as i64)),
                ("str", J::S(m.alt_desc_str.clone())),
                ("template", J::S(format!("{} [other key origins]", m.template))),
                ("outer", J::s(m.outer.name())),
                ("tr", J::B(m.outer == Outer::Tr)),
                ("segwit", J::B(m.outer.is_segwit())),
                ("spk", J::S(dig("spk", m.spk.as_bytes()))),
                ("fresh", J::N(ida as i64)),
            ])
            .to_string(),
        );
        // repeated update_output_with_descriptor of ONE output from the two descriptors, both
        // orders: afterwards the output's key origins are those of the LAST descriptor
        for first_alt in [false, true] {
            let mut po = base_psbt(case);
            po.unsigned_tx.output[0].script_pubkey = m.spk.clone();
            let (d1, d2) = if first_alt { (&m.alt_desc, &m.desc) } else { (&m.desc, &m.alt_desc) };
            let r1 = po.update_output_with_descriptor(0, d1);
            let r2 = po.update_output_with_descriptor(0, d2);
            if r1.is_err() || r2.is_err() {
                pv("update-output-inconsistent", format!("update_output_with_descriptor with a descriptor of the output's own script failed for {}: {:?} {:?}", m.template, r1, r2));
            } else {
                for b in oracle::check_output_origins(cx.pool, case, j, &po.outputs[0], !first_alt) {
                    pv(&format!("update-output-inconsistent:{}", m.outer.name()),
                       format!("output updated twice ({} then {}) for {}: {}", if first_alt { "other origins" } else { "original" }, if first_alt { "original" } else { "other origins" }, m.template, b));
                }
            }
        }
        // sighash_msg agrees with the harness' own sighash computation
        let mut cache = SighashCache::new(&case.tx);
        if let Some(msg) = m.ecdsa_msg {
            match p.sighash_msg(j, &mut cache, None) {
                Ok(x) if x.to_secp_msg() == msg => {}
                other => pv("sighash-msg-mismatch", format!("sighash_msg for input {} ({}): {:?}", j, m.template, other.map(|x| x.to_secp_msg()))),
            }
        }
        if let Some(tap) = &m.tap {
            match p.sighash_msg(j, &mut cache, None) {
                Ok(x) if Some(x.to_secp_msg()) == m.tap_key_msg => {}
                other => pv("sighash-msg-mismatch", format!("key-spend sighash_msg for input {}: {:?}", j, other.map(|x| x.to_secp_msg()))),
            }
            for (li, leaf) in tap.leaves.iter().enumerate() {
                match p.sighash_msg(j, &mut cache, Some(leaf.leaf_hash)) {
                    Ok(x) if x.to_secp_msg() == m.tap_leaf_msgs[li] => {}
                    other => pv("sighash-msg-mismatch", format!("leaf sighash_msg for input {}: {:?}", j, other.map(|x| x.to_secp_msg()))),
                }
            }
        }
        // Plan::update_psbt_input (all keys available; for taproot also without the internal
        // key, which forces a script-path plan)
        for skip_internal in [false, true] {
            if skip_internal && m.tap.is_none() {
                continue;
            }
            let mut assets = Assets::new();
            let mut ok_keys = true;
            for (n, ki) in m.keys.iter().enumerate() {
                if skip_internal && n == 0 {
                    continue;
                }
                match DescriptorPublicKey::from_str(&cx.pool.keys[*ki].desc) {
                    Ok(k) => assets = assets.add(k),
                    Err(_) => ok_keys = false,
                }
            }
            let raw_key = m.keys.iter().any(|k| cx.pool.keys[*k].path.is_empty());
            if !ok_keys || raw_key {
                continue;
            }
            for kind in &m.uses_hash {
                let h = gen::hash_of(*kind, &cx.pool.preimages[*kind]);
                assets = match kind {
                    0 => assets.add(sha256::Hash::from_slice(&h).unwrap()),
                    1 => assets.add(hash160::Hash::from_slice(&h).unwrap()),
                    2 => assets.add(ripemd160::Hash::from_slice(&h).unwrap()),
                    _ => assets.add(miniscript::hash256::Hash::from_slice(&h).unwrap()),
                };
            }
            assets = assets
                .older(bitcoin::relative::LockTime::from_height(20))
                .after(bitcoin::absolute::LockTime::from_height(1000).unwrap());
            let d = m.desc.clone();
            let r = catch_unwind(AssertUnwindSafe(|| d.into_plan(&assets)));
            if let Ok(Ok(plan)) = r {
                let mut inp = psbt::Input::default();
                plan.update_psbt_input(&mut inp);
                plans += 1;
                for b in check_plan_update(cx, j, &inp) {
                    let key = if b.contains("without that leaf's hash") {
                        "plan-taporigin-missing-leafhash".to_string()
                    } else {
                        format!("plan-update-inconsistent:{}", m.outer.name())
                    };
                    pv(&key, format!("Plan::update_psbt_input for {}{}: {}", m.template, if skip_internal { " (script path)" } else { "" }, b));
                }
            }
        }
    }
    // update_output_with_descriptor
    if let Some((d, oi)) = &case.out_desc {
        let mut p = base_psbt(case);
        match p.update_output_with_descriptor(*oi, d) {
            Ok(()) => {
                let k = &cx.pool.keys[cx.pool.keys.len() - 1];
                match p.outputs[*oi].bip32_derivation.get(&k.pk) {
                    Some((fp, path)) if *fp == k.fp && *path == k.path => {}
                    other => pv("update-output-inconsistent", format!("output bip32_derivation: {:?}", other)),
                }
                if p.outputs[*oi].bip32_derivation.len() != 1 {
                    pv("update-output-inconsistent", "output bip32_derivation has extra entries".into());
                }
            }
            Err(e) => pv("update-output-inconsistent", format!("update_output_with_descriptor failed: {}", e)),
        }
        // and it refuses a descriptor that does not match the output
        if let Some(m) = case.inputs.first() {
            let mut p2 = base_psbt(case);
            if p2.update_output_with_descriptor(*oi, &m.desc).is_ok() && m.spk != case.tx.output[*oi].script_pubkey {
                pv("update-output-inconsistent", "update_output_with_descriptor accepted a descriptor of another script".into());
            }
        }
    }
    lines.extend(pvs);
    lines.push(J::obj(vec![("t", J::s("probe-stats")), ("case", J::N(cid as i64)), ("plans", J::N(plans as i64))]).to_string());
}

fn check_plan_update(cx: &Ctx, j: usize, inp: &psbt::Input) -> Vec<String> {
    let m = &cx.case.inputs[j];
    let mut bad = Vec::new();
    let spk = m.spk.as_bytes();
    match m.outer {
        Outer::Wsh => {
            if inp.witness_script.as_ref() != m.witness_script.as_ref() {
                bad.push("witness_script is not the descriptor's script".to_string());
            }
        }
        Outer::ShWsh => {
            if inp.witness_script.as_ref() != m.witness_script.as_ref() || inp.redeem_script.as_ref() != m.redeem_script.as_ref() {
                bad.push("witness_script/redeem_script are not the descriptor's scripts".to_string());
            }
        }
        Outer::Sh | Outer::ShWpkh => {
            if inp.redeem_script.as_ref() != m.redeem_script.as_ref() {
                bad.push("redeem_script is not the descriptor's script".to_string());
            }
        }
        _ => {}
    }
    for (pk, (fp, path)) in &inp.bip32_derivation {
        match m.keys.iter().map(|k| &cx.pool.keys[*k]).find(|k| k.pk == *pk) {
            None => bad.push("bip32_derivation has a key that is not in the descriptor".to_string()),
            Some(k) => {
                if *fp != k.fp || *path != k.path {
                    bad.push(format!("bip32_derivation of {}: wrong origin", pk));
                }
            }
        }
    }
    if let Some(tap) = &m.tap {
        if inp.tap_merkle_root != tap.spend_info.merkle_root() {
            bad.push("tap_merkle_root is not the root of the descriptor's tree".to_string());
        }
        let out_key = bitcoin::key::XOnlyPublicKey::from_slice(&spk[2..34]).unwrap();
        let mut leaf_hashes = Vec::new();
        for (cb, (s, v)) in &inp.tap_scripts {
            if !cb.verify_taproot_commitment(&cx.pool.secp, out_key, s) {
                bad.push("tap_scripts: control block does not commit its leaf to the output key".to_string());
            }
            leaf_hashes.push(bitcoin::taproot::TapLeafHash::from_script(s, *v));
        }
        if let Some(ik) = inp.tap_internal_key {
            if ik != tap.internal {
                bad.push("tap_internal_key is not the descriptor's internal key".to_string());
            }
        }
        for (x, (lhs, (fp, path))) in &inp.tap_key_origins {
            match m.keys.iter().map(|k| &cx.pool.keys[*k]).find(|k| k.xonly() == *x) {
                None => bad.push("tap_key_origins has a key that is not in the descriptor".to_string()),
                Some(k) => {
                    if *fp != k.fp || *path != k.path {
                        bad.push("tap_key_origins: wrong origin".to_string());
                    }
                }
            }
            // a key recorded for a script spend must list the leaf it signs for
            for lh in &leaf_hashes {
                let in_leaf = tap
                    .leaves
                    .iter()
                    .any(|l| l.leaf_hash == *lh && l.keys.iter().any(|ki| cx.pool.keys[m.keys[*ki]].xonly() == *x));
                if in_leaf && !lhs.contains(lh) {
                    bad.push("tap_key_origins: a key of the planned leaf is recorded without that leaf's hash".to_string());
                }
            }
        }
    }
    bad
}

/// Which allow_mall value do the single-input calls really use?  A P2WSH input whose only
/// satisfaction is malleable tells them apart.
fn mall_probe(pool: &Pool, lines: &mut Vec<String>) {
    use miniscript::{Miniscript, Segwitv0};
    let secp = Secp256k1::verification_only();
    let k = &pool.keys[0];
    let ms = format!("and_v(v:pk({}),or_i(older(5),after(500)))", hex(&k.pk.serialize()));
    let script = match Miniscript::<bitcoin::PublicKey, Segwitv0>::from_str_insane(&ms) {
        Ok(m) => m.encode(),
        Err(e) => {
            lines.push(J::obj(vec![("t", J::s("mallprobe")), ("error", J::S(e.to_string()))]).to_string());
            return;
        }
    };
    let spk = ScriptBuf::new_p2wsh(&script.wscript_hash());
    let value = bitcoin::Amount::from_sat(10_000);
    let tx = bitcoin::Transaction {
        version: bitcoin::transaction::Version::TWO,
        lock_time: bitcoin::absolute::LockTime::from_height(600).unwrap(),
        input: vec![bitcoin::TxIn {
            previous_output: bitcoin::OutPoint { txid: bitcoin::Txid::from_byte_array([7u8; 32]), vout: 0 },
            script_sig: ScriptBuf::new(),
            sequence: bitcoin::Sequence(5),
            witness: Witness::new(),
        }],
        output: vec![bitcoin::TxOut { value: bitcoin::Amount::from_sat(9_000), script_pubkey: ScriptBuf::from_bytes(vec![0x51]) }],
    };
    let mut psbt = Psbt::from_unsigned_tx(tx.clone()).unwrap();
    psbt.inputs[0].witness_utxo = Some(bitcoin::TxOut { value, script_pubkey: spk });
    psbt.inputs[0].witness_script = Some(script.clone());
    let mut cache = SighashCache::new(&tx);
    let h = cache.p2wsh_signature_hash(0, &script, value, EcdsaSighashType::All).unwrap();
    let msg = bitcoin::secp256k1::Message::from_digest(h.to_byte_array());
    let sig = bitcoin::ecdsa::Signature { signature: pool.secp.sign_ecdsa(&msg, &k.sk), sighash_type: EcdsaSighashType::All };
    psbt.inputs[0].partial_sigs.insert(k.full(), sig);
    let a = psbt.clone().finalize_mut(&secp).is_ok();
    let b = psbt.clone().finalize_mall_mut(&secp).is_ok();
    let c = psbt.clone().finalize_inp_mut(&secp, 0).is_ok();
    let d = psbt.clone().finalize_inp_mall_mut(&secp, 0).is_ok();
    // does a finalized input keep its unknown key-value pairs (BIP174 says it should)?
    let mut pu = psbt.clone();
    pu.inputs[0].unknown.insert(unknown_key(9), vec![9]);
    let fin_ok = pu.finalize_mall_mut(&secp).is_ok();
    let keeps = fin_ok && !pu.inputs[0].unknown.is_empty();
    // hypothesis try_nonempty: what happens when the satisfaction is (empty, empty)?  Only an
    // insane output can have one: the bare script `1`.
    let tx1 = bitcoin::Transaction {
        version: bitcoin::transaction::Version::TWO,
        lock_time: bitcoin::absolute::LockTime::ZERO,
        input: vec![bitcoin::TxIn {
            previous_output: bitcoin::OutPoint { txid: bitcoin::Txid::from_byte_array([8u8; 32]), vout: 0 },
            script_sig: ScriptBuf::new(),
            sequence: bitcoin::Sequence::MAX,
            witness: Witness::new(),
        }],
        output: vec![bitcoin::TxOut { value: bitcoin::Amount::from_sat(9_000), script_pubkey: ScriptBuf::from_bytes(vec![0x51]) }],
    };
    let mut pe = Psbt::from_unsigned_tx(tx1).unwrap();
    pe.inputs[0].witness_utxo = Some(bitcoin::TxOut { value, script_pubkey: ScriptBuf::from_bytes(vec![0x51]) });
    pe.inputs[0].bip32_derivation.insert(k.pk, (k.fp, k.path.clone()));
    let er = catch_unwind(AssertUnwindSafe(|| {
        let mut q = pe.clone();
        let r = q.finalize_mall_mut(&secp).is_ok();
        (r, is_final(&q.inputs[0]), q.inputs[0].bip32_derivation.len())
    }));
    let (e_ok, e_final, e_left) = er.unwrap_or((false, false, 99));
    lines.push(
        J::obj(vec![
            ("t", J::s("mallprobe")),
            ("empty_satisfaction_finalize_ok", J::B(e_ok)),
            ("empty_satisfaction_input_final_afterwards", J::B(e_final)),
            ("empty_satisfaction_bip32_entries_left", J::N(e_left as i64)),
            ("keeps_unknown", J::B(keeps)),
            ("unknown_probe_finalized", J::B(fin_ok)),
            ("finalize_mut", J::B(a)),
            ("finalize_mall_mut", J::B(b)),
            ("finalize_inp_mut", J::B(c)),
            ("finalize_inp_mall_mut", J::B(d)),
            ("script", J::S(ms)),
        ])
        .to_string(),
    );
}

/// plan -> update PSBT -> sign -> finalize, against update_input_with_descriptor -> sign -> finalize
fn plan_differential(cx: &Ctx, cid: usize, j: usize, rng: &mut Rng, lines: &mut Vec<String>) {
    let case = cx.case;
    let m = &case.inputs[j];
    let mut assets = Assets::new();
    for ki in &m.keys {
        match DescriptorPublicKey::from_str(&cx.pool.keys[*ki].desc) {
            Ok(k) => assets = assets.add(k),
            Err(_) => return,
        }
    }
    for kind in &m.uses_hash {
        let h = gen::hash_of(*kind, &cx.pool.preimages[*kind]);
        assets = match kind {
            0 => assets.add(sha256::Hash::from_slice(&h).unwrap()),
            1 => assets.add(hash160::Hash::from_slice(&h).unwrap()),
            2 => assets.add(ripemd160::Hash::from_slice(&h).unwrap()),
            _ => assets.add(miniscript::hash256::Hash::from_slice(&h).unwrap()),
        };
    }
    if let Some(rl) = m.sequence.to_relative_lock_time() {
        if case.tx.version.0 >= 2 {
            assets = assets.older(rl);
        }
    }
    if m.sequence.enables_absolute_lock_time() {
        assets = assets.after(case.tx.lock_time);
    }
    let d = m.desc.clone();
    let plan = match catch_unwind(AssertUnwindSafe(|| d.into_plan(&assets))) {
        Ok(Ok(p)) => p,
        _ => return,
    };
    let mut g = base_psbt(case);
    for i in 0..case.inputs.len() {
        if i != j {
            prepare_input(cx, &mut g, i, 2, rng);
        }
    }
    let mut by_plan = g.clone();
    let mut by_update = g;
    plan.update_psbt_input(&mut by_plan.inputs[j]);
    exec(cx, &mut by_update, &Op::Update { i: j, d: j });
    let mut signing: Vec<Op> = (0..m.ecdsa_sigs.len()).map(|k| Op::Sig { i: j, key: k, variant: 0 }).collect();
    if m.tap_key_sig.is_some() {
        signing.push(Op::TapKeySig { i: j, bad: false });
    }
    for idx in 0..m.tap_script_sigs.len() {
        signing.push(Op::TapScriptSig { i: j, idx, bad: false });
    }
    for kind in &m.uses_hash {
        signing.push(Op::Preimage { i: j, kind: *kind, wrong: false });
    }
    for op in &signing {
        exec(cx, &mut by_plan, op);
        exec(cx, &mut by_update, op);
    }
    let ra = exec(cx, &mut by_update, &Op::FinalizeInp { i: j, mall: false, byval: false });
    let rb = exec(cx, &mut by_plan, &Op::FinalizeInp { i: j, mall: false, byval: false });
    lines.push(J::obj(vec![("t", J::s("probe-stats")), ("case", J::N(cid as i64)), ("plans", J::N(1))]).to_string());
    if by_update.inputs[j].final_script_sig != by_plan.inputs[j].final_script_sig
        || by_update.inputs[j].final_script_witness != by_plan.inputs[j].final_script_witness
    {
        lines.push(
            J::obj(vec![
                ("t", J::s("probe-viol")),
                ("case", J::N(cid as i64)),
                ("key", J::S(format!("plan-update-changes-finalization:{}", m.outer.name()))),
                ("what", J::S(format!(
                    "input {} ({}): prepared by Plan::update_psbt_input and signed it finalizes as {:?}, prepared by update_input_with_descriptor with the same signatures as {:?}",
                    j, m.template, rb, ra
                ))),
            ])
            .to_string(),
        );
    }
    // and when the whole PSBT can be finalized, the plan-prepared one extracts to a valid transaction
    let ea = exec(cx, &mut by_update, &Op::Finalize { mall: false, byval: false });
    let eb = exec(cx, &mut by_plan, &Op::Finalize { mall: false, byval: false });
    if ea == Res::Ok && eb == Res::Ok {
        let mut v = Vec::new();
        let checked = vec![true; case.inputs.len()];
        monitor_extract(cx, 0, &by_plan, &checked, &mut v);
        if by_plan.extract(&cx.vsecp).is_err() || !v.is_empty() {
            lines.push(
                J::obj(vec![
                    ("t", J::s("probe-viol")),
                    ("case", J::N(cid as i64)),
                    ("key", J::S(format!("plan-update-extract:{}", m.outer.name()))),
                    ("what", J::S(format!("input {} ({}): the plan-prepared, fully finalized PSBT does not extract to a valid transaction", j, m.template))),
                ])
                .to_string(),
            );
        }
    }
}

// ------------------------------------------------------------------ the satisfier, called directly
/// Differential oracle for PsbtInputSatisfier (round 4 seeds C01-7, C01-8, C03-7): the same
/// inputs spent by transactions of version 1/2/3 with nLockTime and nSequence around the lock
/// values (final and non-final inputs mixed, both units).  For every input
///  (2) `check_after` / `check_older` of the PSBT satisfier are compared with BIP65/68/112
///      arithmetic on (version, nLockTime, THIS input's nSequence) over a grid of lock values
///      (the rows also go to Coq), and
///  (1) `get_satisfaction` / `get_satisfaction_mall` are called directly; what they return is
///      judged by the independent spend verification for THAT transaction, non-malleable results
///      must not carry a signature the policy does not need, and a signature-complete input
///      must get a satisfaction.
fn satisfier_probe(pool: &Pool, case: &Case, cid: usize, rng: &mut Rng, nvar: usize, lines: &mut Vec<String>, st: &mut Stats) {
    use miniscript::psbt::PsbtInputSatisfier;
    use miniscript::Satisfier;
    let n = case.inputs.len();
    let mut pv = |lines: &mut Vec<String>, key: String, what: String| {
        lines.push(J::obj(vec![("t", J::s("probe-viol")), ("case", J::N(cid as i64)), ("key", J::S(key)), ("what", J::S(what))]).to_string())
    };
    for _ in 0..nvar {
        let version = [1i32, 2, 2, 2, 3][rng.below(5)];
        let lock_time = [0u32, 499, 500, 600, 699, 700, 701, 500_000_600][rng.below(8)];
        let seqs: Vec<u32> = (0..n)
            .map(|j| {
                let older = match &case.inputs[j].pol {
                    _ => 5u32 + 5 * (rng.below(2) as u32),
                };
                [0xffff_ffffu32, 0xffff_ffff, 0xffff_fffe, 0xffff_fffd, 0, older - 1, older, older + 1, 4, 5, 9, 10, 11, (1 << 22) | older, (1 << 31) | older][rng.below(15)]
            })
            .collect();
        let vc = match gen::revariant(pool, case, version, lock_time, &seqs) {
            Ok(c) => c,
            Err(_) => continue,
        };
        let cx = Ctx { pool, case: &vc, vsecp: Secp256k1::verification_only(), desc_base: 0 };
        let mut psbt = base_psbt(&vc);
        for i in 0..n {
            let m = &vc.inputs[i];
            exec(&cx, &mut psbt, &Op::Update { i, d: i });
            for k in 0..m.ecdsa_sigs.len() {
                exec(&cx, &mut psbt, &Op::Sig { i, key: k, variant: 0 });
            }
            for idx in 0..m.tap_script_sigs.len() {
                exec(&cx, &mut psbt, &Op::TapScriptSig { i, idx, bad: false });
            }
            for kind in &m.uses_hash {
                exec(&cx, &mut psbt, &Op::Preimage { i, kind: *kind, wrong: false });
            }
        }
        let ctxt = format!("tx version {}, nLockTime {}, nSequences {:?}", version, lock_time, seqs);
        for i in 0..n {
            let m = &vc.inputs[i];
            let sat = PsbtInputSatisfier::new(&psbt, i);
            // (2) the two predicates
            for nn in [1u32, 499, 500, 501, 599, 600, 601, 699, 700, 701, 499_999_999, 500_000_000, 500_000_600, 500_000_601] {
                let lib = Satisfier::<bitcoin::PublicKey>::check_after(&sat, bitcoin::absolute::LockTime::from_consensus(nn));
                let want = oracle::after_ok(lock_time, seqs[i], nn);
                st.timelock_rows += 1;
                lines.push(format!("{{\"t\":\"tl\",\"k\":0,\"ver\":{},\"lt\":{},\"seq\":{},\"n\":{},\"r\":{}}}", version, lock_time, seqs[i], nn, lib));
                if lib != want {
                    pv(lines, "timelock-predicate-mismatch:after".into(), format!("PsbtInputSatisfier::check_after({}) = {} for input {} but BIP65 says {} ({})", nn, lib, i, want, ctxt));
                }
            }
            for (val, time) in [(1u16, false), (4, false), (5, false), (6, false), (9, false), (10, false), (11, false), (65535, false), (5, true), (10, true), (11, true)] {
                let rl = if time { bitcoin::relative::LockTime::from_512_second_intervals(val) } else { bitcoin::relative::LockTime::from_height(val) };
                let nn = (val as u32) | if time { 1 << 22 } else { 0 };
                let lib = Satisfier::<bitcoin::PublicKey>::check_older(&sat, rl);
                let want = oracle::older_ok(version, seqs[i], nn);
                st.timelock_rows += 1;
                lines.push(format!("{{\"t\":\"tl\",\"k\":1,\"ver\":{},\"lt\":{},\"seq\":{},\"n\":{},\"r\":{}}}", version, lock_time, seqs[i], nn, lib));
                if lib != want {
                    pv(lines, "timelock-predicate-mismatch:older".into(), format!("PsbtInputSatisfier::check_older({}{}) = {} for input {} but BIP68/112 say {} ({})", val, if time { " x512s" } else { " blocks" }, lib, i, want, ctxt));
                }
            }
            // (1) the satisfier itself
            let complete = signature_complete(&cx, &psbt, i);
            for mall in [false, true] {
                let d = m.desc.clone();
                let r = catch_unwind(AssertUnwindSafe(|| {
                    let sat = PsbtInputSatisfier::new(&psbt, i);
                    if mall {
                        d.get_satisfaction_mall(sat)
                    } else {
                        d.get_satisfaction(sat)
                    }
                }));
                st.satisfier_calls += 1;
                match r {
                    Err(_) => pv(lines, "panic".into(), format!("get_satisfaction panicked for input {} ({}; {})", i, m.template, ctxt)),
                    Ok(Err(e)) => {
                        if complete {
                            pv(lines, format!("satisfier-incomplete:{}", m.outer.name()),
                               format!("get_satisfaction{} found nothing for the signature-complete input {} ({}; {}): {}", if mall { "_mall" } else { "" }, i, m.template, ctxt, e));
                        }
                    }
                    Ok(Ok((wit, ssig))) => {
                        st.satisfier_ok += 1;
                        let w = Witness::from_slice(&wit);
                        if let Err(e) = oracle::verify_spend(pool, &vc, i, &ssig, &w).and_then(|_| oracle::interpreter_accepts(pool, &vc, i, &ssig, &w)) {
                            pv(lines, format!("satisfier-invalid-spend:{}", m.outer.name()),
                               format!("get_satisfaction{} for input {} ({}) returned a witness that does not spend the output in this transaction ({}): {}", if mall { "_mall" } else { "" }, i, m.template, ctxt, e));
                        } else if !mall {
                            if let Some(k) = oracle::unneeded_signature(pool, &vc, i, &ssig, &w) {
                                pv(lines, format!("satisfier-malleable:{}", m.outer.name()),
                                   format!("get_satisfaction for input {} ({}) used the signature of key #{} although the spending condition holds without it in this transaction ({}): a third party can strip it", i, m.template, k, ctxt));
                            }
                        }
                    }
                }
            }
        }
    }
}

// ------------------------------------------------------------------ entry
pub fn run(args: &[String]) {
    let seed: u64 = args.first().and_then(|s| s.parse().ok()).unwrap_or(1);
    let tier = std::env::var("VERIF_TIER").unwrap_or_else(|_| "quick".to_string());
    let mut only: Option<usize> = None;
    let mut ncases: usize = if tier == "thorough" { 160 } else { 48 };
    let mut k = 1;
    while k + 1 < args.len() {
        match args[k].as_str() {
            "--only" => only = args[k + 1].parse().ok(),
            "--cases" => ncases = args[k + 1].parse().unwrap_or(ncases),
            _ => {}
        }
        k += 2;
    }
    if std::env::var("VERIF_PANIC_VERBOSE").is_err() {
        std::panic::set_hook(Box::new(|_| {}));
    }
    let mut master = Rng(seed ^ 0xC14C_14C1_4C14_C14C);
    let pool = make_pool(&mut master.fork(), 44);
    let mut int = Interner { map: HashMap::new(), pkh_seen: Default::default() };
    let mut st = Stats {
        histories: 0,
        ops: 0,
        op_hist: BTreeMap::new(),
        res_hist: BTreeMap::new(),
        len_hist: BTreeMap::new(),
        outer_hist: BTreeMap::new(),
        template_hist: BTreeMap::new(),
        finalized_inputs: BTreeMap::new(),
        failed_attempts: BTreeMap::new(),
        extracted: 0,
        spends_verified: 0,
        updates_checked: 0,
        order_checks: 0,
        idem_checks: 0,
        timelock_rows: 0,
        satisfier_calls: 0,
        satisfier_ok: 0,
    };
    let stdout = std::io::stdout();
    let mut w = std::io::BufWriter::new(stdout.lock());
    use std::io::Write;
    let mut lines: Vec<String> = Vec::new();
    mall_probe(&pool, &mut lines);
    for k in &pool.keys {
        lines.push(
            J::obj(vec![
                ("t", J::s("keyhash")),
                ("k", J::S(dig("x", &k.xonly().serialize()))),
                ("h", J::S(dig("h160", &hash160::Hash::hash(&k.xonly().serialize()).to_byte_array()))),
            ])
            .to_string(),
        );
        lines.push(
            J::obj(vec![
                ("t", J::s("keyhash")),
                ("k", J::S(dig("pk", &k.pk.serialize()))),
                ("h", J::S(dig("h160", &hash160::Hash::hash(&k.pk.serialize()).to_byte_array()))),
            ])
            .to_string(),
        );
    }
    let mut hid: usize;
    let mut desc_base = 0usize;
    for cid in 0..ncases {
        // every case has its own PRNG stream so that `--only` replays it exactly
        let mut rng = Rng(seed.wrapping_mul(0x9E37_79B9).wrapping_add((cid as u64).wrapping_mul(0x1234_5678_9ABC_DEF1)));
        let forced = Some(OUTERS[cid % OUTERS.len()]);
        let case = match make_case(&pool, &mut rng, forced) {
            Ok(c) => c,
            Err(e) => {
                lines.push(J::obj(vec![("t", J::s("gen-error")), ("case", J::N(cid as i64)), ("error", J::S(e))]).to_string());
                desc_base += 8;
                continue;
            }
        };
        let nin = case.inputs.len();
        // history ids are stable under --only: case id * 10000 + running number
        hid = cid * 10_000;
        let this_base = desc_base;
        desc_base += 8;
        if let Some(o) = only {
            if o != cid {
                continue;
            }
        }
        let cx = Ctx { pool: &pool, case: &case, vsecp: Secp256k1::verification_only(), desc_base: this_base };
        for m in &case.inputs {
            *st.outer_hist.entry(m.outer.name().to_string()).or_default() += 1;
            *st.template_hist.entry(m.template.clone()).or_default() += 1;
        }
        lines.push(
            J::obj(vec![
                ("t", J::s("case")),
                ("id", J::N(cid as i64)),
                ("tx", J::S(dig("tx", &serialize(&case.tx)))),
                ("ntx", J::N(nin as i64)),
                ("descs", J::A(case.inputs.iter().map(|m| J::S(m.desc_str.clone())).collect())),
                ("templates", J::A(case.inputs.iter().map(|m| J::S(m.template.clone())).collect())),
                ("sequences", J::A(case.inputs.iter().map(|m| J::N(m.sequence.0 as i64)).collect())),
                ("locktime", J::N(gen::TX_LOCKTIME as i64)),
                ("psbt0", J::S(base_psbt(&case).to_string())),
            ])
            .to_string(),
        );
        probes(&cx, cid, &mut int, &mut lines);
        satisfier_probe(&pool, &case, cid, &mut Rng(seed ^ (cid as u64).wrapping_mul(0x5151_7C17_0077_1234)), if tier == "thorough" { 16 } else { 8 }, &mut lines, &mut st);
        for m in &case.inputs {
            if let Some(tap) = &m.tap {
                for (ki, li, _, _) in &m.tap_script_sigs {
                    let x = pool.keys[m.keys[*ki]].xonly();
                    let mut kb = x.serialize().to_vec();
                    kb.extend_from_slice(&tap.leaves[*li].leaf_hash.to_byte_array());
                    lines.push(J::obj(vec![("t", J::s("xl")), ("k", J::S(dig("xl", &kb))), ("x", J::S(dig("x", &x.serialize())))]).to_string());
                }
            }
        }
        // initial states: each input at a random stage of preparation
        let n_inits = if tier == "thorough" { 4 } else { 3 };
        for ini in 0..n_inits {
            let mut init = base_psbt(&case);
            for i in 0..nin {
                let level = if ini == 0 { 0 } else { rng.below(5) };
                prepare_input(&cx, &mut init, i, level.min(3), &mut rng);
                if level == 4 {
                    // an input that somebody else finalized already (correctly or with garbage)
                    prepare_input(&cx, &mut init, i, 2, &mut rng);
                    let _ = exec(&cx, &mut init, &Op::FinalizeInp { i, mall: false, byval: false });
                    if !is_final(&init.inputs[i]) && rng.chance(1, 2) {
                        init.inputs[i].final_script_witness = Some(Witness::from_slice(&[vec![1u8, 2, 3]]));
                    }
                }
            }
            let pool_ops = op_pool(&case, &mut rng);
            // (a) all orders of a small operation set
            let sets = if tier == "thorough" { 3 } else { 2 };
            for _ in 0..sets {
                let size = 2 + rng.below(3);
                let mut set: Vec<Op> = Vec::new();
                // adders aimed at one input, plus finalizers
                let target = rng.below(nin);
                let mine: Vec<&Op> = pool_ops.iter().filter(|o| o.footprint(&case).map(|f| f.0 == target).unwrap_or(false)).collect();
                for _ in 0..size - 1 {
                    if !mine.is_empty() && rng.chance(3, 4) {
                        set.push(mine[rng.below(mine.len())].clone());
                    } else {
                        set.push(finalizer_op(&mut rng, nin));
                    }
                }
                set.push(match rng.below(3) {
                    0 => Op::FinalizeInp { i: target, mall: false, byval: false },
                    1 => Op::Finalize { mall: false, byval: false },
                    _ => finalizer_op(&mut rng, nin),
                });
                for perm in permutations(&set) {
                    run_history(&cx, &init, &perm, "exhaustive", hid, cid, &mut int, &mut lines, &mut st);
                    hid += 1;
                }
            }
            // (b) longer random histories with repeated and failing finalize calls
            let nrand = if tier == "thorough" { 8 } else { 5 };
            for _ in 0..nrand {
                let len = 5 + rng.below(12);
                let mut ops = Vec::new();
                while ops.len() < len {
                    if rng.chance(3, 5) {
                        ops.push(pool_ops[rng.below(pool_ops.len())].clone());
                    } else {
                        let f = finalizer_op(&mut rng, nin);
                        ops.push(f.clone());
                        if rng.chance(1, 4) {
                            ops.push(f);
                        }
                    }
                }
                run_history(&cx, &init, &ops, "random", hid, cid, &mut int, &mut lines, &mut st);
                hid += 1;
            }
            // (d) somebody else "finalized" one input with garbage: finalize must leave it alone and
            //     extract must refuse the transaction
            {
                let mut g = base_psbt(&case);
                for i in 0..nin {
                    prepare_input(&cx, &mut g, i, 2, &mut rng);
                }
                let victim = rng.below(nin);
                if case.inputs[victim].outer.is_segwit() {
                    g.inputs[victim].final_script_witness = Some(Witness::from_slice(&[vec![1u8, 2, 3]]));
                } else {
                    g.inputs[victim].final_script_sig = Some(ScriptBuf::from_bytes(vec![3, 1, 2, 3]));
                }
                let ops = vec![Op::Finalize { mall: false, byval: false }, Op::Extract, Op::FinalizeInp { i: victim, mall: false, byval: false }, Op::Extract];
                run_history(&cx, &g, &ops, "garbage-final", hid, cid, &mut int, &mut lines, &mut st);
                hid += 1;
            }
            // (e) inputs carrying BOTH utxo fields, consistent and inconsistent, through
            //     update -> sign (by a signer that trusts the PSBT) -> finalize -> extract
            if ini < 2 {
                let segwit: Vec<usize> = (0..nin).filter(|i| case.inputs[*i].outer.is_segwit()).collect();
                if !segwit.is_empty() {
                    let j = segwit[rng.below(segwit.len())];
                    for variant in 0..gen::UTXO_VARIANTS.len() {
                        let mut g = gen::both_utxo_base(&case, &pool, j, variant);
                        for i in 0..nin {
                            if i != j {
                                prepare_input(&cx, &mut g, i, 2, &mut rng);
                            }
                        }
                        let m = &case.inputs[j];
                        let mut signing: Vec<Op> = Vec::new();
                        for k in 0..m.ecdsa_sigs.len() {
                            signing.push(Op::Sig { i: j, key: k, variant: 3 });
                        }
                        if m.tap_key_sig.is_some() {
                            signing.push(Op::TapKeySigView { i: j });
                        }
                        for kind in &m.uses_hash {
                            signing.push(Op::Preimage { i: j, kind: *kind, wrong: false });
                        }
                        let tail = vec![Op::FinalizeInp { i: j, mall: false, byval: false }, Op::Finalize { mall: false, byval: false }, Op::Extract];
                        // with the checked updater as entry point
                        let mut ops = vec![Op::Update { i: j, d: j }];
                        ops.extend(signing.clone());
                        ops.extend(tail.clone());
                        run_history(&cx, &g, &ops, &format!("utxo-pipeline:{}", gen::UTXO_VARIANTS[variant]), hid, cid, &mut int, &mut lines, &mut st);
                        hid += 1;
                        // with signatures over the REAL prevout (a careful signer / sighash_msg): the
                        // amount- and script-lies are then harmless, a foreign previous transaction or a
                        // missing output must still stop finalization (MissingUtxo)
                        if variant >= 1 {
                            let mut real: Vec<Op> = (0..m.ecdsa_sigs.len()).map(|k| Op::Sig { i: j, key: k, variant: 0 }).collect();
                            if m.tap_key_sig.is_some() {
                                real.push(Op::TapKeySig { i: j, bad: false });
                            }
                            for kind in &m.uses_hash {
                                real.push(Op::Preimage { i: j, kind: *kind, wrong: false });
                            }
                            let mut ops = vec![Op::Update { i: j, d: j }];
                            ops.extend(real);
                            ops.extend(tail.clone());
                            run_history(&cx, &g, &ops, &format!("utxo-realsig:{}", gen::UTXO_VARIANTS[variant]), hid, cid, &mut int, &mut lines, &mut st);
                            hid += 1;
                        }
                        // sighash_msg goes through get_utxo: with the genuine previous transaction present
                        // it must commit to the real prevout, whatever witness_utxo says
                        if variant == 1 || variant == 2 {
                            let mut cache = SighashCache::new(&g.unsigned_tx);
                            if let Ok(x) = g.sighash_msg(j, &mut cache, None) {
                                let want = if m.tap.is_some() { m.tap_key_msg } else { m.ecdsa_msg };
                                if Some(x.to_secp_msg()) != want {
                                    lines.push(
                                        J::obj(vec![
                                            ("t", J::s("probe-viol")),
                                            ("case", J::N(cid as i64)),
                                            ("key", J::s("sighash-msg-wrong-utxo")),
                                            ("what", J::S(format!("sighash_msg for input {} ({}) with both utxo fields ({}) does not commit to the output the outpoint references", j, m.template, gen::UTXO_VARIANTS[variant]))),
                                        ])
                                        .to_string(),
                                    );
                                }
                            }
                        }
                        // and without it (the finalizer alone)
                        if ini == 0 && variant <= 1 {
                            let mut ops = signing.clone();
                            ops.extend(tail.clone());
                            run_history(&cx, &g, &ops, &format!("utxo-unchecked:{}", gen::UTXO_VARIANTS[variant]), hid, cid, &mut int, &mut lines, &mut st);
                            hid += 1;
                        }
                    }
                }
            }
            // (f) key origins are optional: scripts + signatures, NO (or only some) bip32_derivation /
            //     tap_key_origins records; must finalize exactly like the fully updated input
            if ini < 2 {
                for j in 0..nin {
                    let m = &case.inputs[j];
                    let has_pkh = m.template.contains("pkh(");
                    if !has_pkh && !rng.chance(1, 3) {
                        continue;
                    }
                    let mut g = base_psbt(&case);
                    for i in 0..nin {
                        if i != j {
                            prepare_input(&cx, &mut g, i, 2, &mut rng);
                        }
                    }
                    let mut signing: Vec<Op> = (0..m.ecdsa_sigs.len()).map(|k| Op::Sig { i: j, key: k, variant: 0 }).collect();
                    for idx in 0..m.tap_script_sigs.len() {
                        signing.push(Op::TapScriptSig { i: j, idx, bad: false });
                    }
                    if m.tap_key_sig.is_some() && ini == 0 {
                        signing.push(Op::TapKeySig { i: j, bad: false });
                    }
                    for kind in &m.uses_hash {
                        signing.push(Op::Preimage { i: j, kind: *kind, wrong: false });
                    }
                    let tail = vec![Op::FinalizeInp { i: j, mall: false, byval: false }, Op::Finalize { mall: false, byval: false }, Op::Extract];
                    for partial in [false, true] {
                        let mut ops = vec![Op::SetScripts { i: j }];
                        if partial {
                            // origins for every key but the first two (the pkh keys of the templates)
                            for k in 2..m.keys.len() {
                                ops.push(Op::Deriv { i: j, key: k });
                            }
                            if m.keys.len() <= 2 {
                                ops.push(Op::Deriv { i: j, key: m.keys.len() - 1 });
                            }
                        }
                        ops.extend(signing.clone());
                        ops.extend(tail.clone());
                        run_history(&cx, &g, &ops, if partial { "some-key-origins" } else { "no-key-origins" }, hid, cid, &mut int, &mut lines, &mut st);
                        hid += 1;
                    }
                    // differential: same signatures, with vs without derivation info
                    let mut with = g.clone();
                    let mut without = g.clone();
                    exec(&cx, &mut with, &Op::Update { i: j, d: j });
                    exec(&cx, &mut without, &Op::SetScripts { i: j });
                    for op in &signing {
                        exec(&cx, &mut with, op);
                        exec(&cx, &mut without, op);
                    }
                    let ra = exec(&cx, &mut with, &Op::FinalizeInp { i: j, mall: false, byval: false });
                    let rb = exec(&cx, &mut without, &Op::FinalizeInp { i: j, mall: false, byval: false });
                    if with.inputs[j].final_script_sig != without.inputs[j].final_script_sig
                        || with.inputs[j].final_script_witness != without.inputs[j].final_script_witness
                    {
                        lines.push(
                            J::obj(vec![
                                ("t", J::s("probe-viol")),
                                ("case", J::N(cid as i64)),
                                ("key", J::S(format!("derivation-info-changes-finalization:{}", m.outer.name()))),
                                ("what", J::S(format!(
                                    "input {} ({}): the same signatures finalize differently with key origins ({:?}) and without ({:?})",
                                    j, m.template, ra, rb
                                ))),
                            ])
                            .to_string(),
                        );
                    }
                }
            }
            // (g) the same input updated twice from two descriptors of the same output with different key
            //     origins, both orders, and over a stale record left by somebody else: after the LAST
            //     successful update the origins are those of that descriptor
            if ini < 2 {
                for j in 0..nin {
                    let m = &case.inputs[j];
                    if m.tap.is_none() && !rng.chance(1, 2) {
                        continue;
                    }
                    let mut g = base_psbt(&case);
                    for i in 0..nin {
                        if i != j {
                            prepare_input(&cx, &mut g, i, 2, &mut rng);
                        }
                    }
                    let mut signing: Vec<Op> = (0..m.ecdsa_sigs.len()).map(|k| Op::Sig { i: j, key: k, variant: 0 }).collect();
                    for idx in 0..m.tap_script_sigs.len() {
                        signing.push(Op::TapScriptSig { i: j, idx, bad: false });
                    }
                    for kind in &m.uses_hash {
                        signing.push(Op::Preimage { i: j, kind: *kind, wrong: false });
                    }
                    let tail = vec![Op::FinalizeInp { i: j, mall: false, byval: false }, Op::Extract];
                    let starts: Vec<Vec<Op>> = vec![
                        vec![Op::Update { i: j, d: j }, Op::UpdateAlt { i: j }],
                        vec![Op::UpdateAlt { i: j }, Op::Update { i: j, d: j }],
                        vec![Op::StaleOrigin { i: j, key: m.keys.len() - 1 }, Op::StaleOrigin { i: j, key: 0 }, Op::Update { i: j, d: j }],
                        vec![Op::Update { i: j, d: j }, Op::UpdateAlt { i: j }, Op::Update { i: j, d: j }],
                    ];
                    for st0 in starts {
                        let mut ops = st0;
                        ops.extend(signing.clone());
                        ops.extend(tail.clone());
                        run_history(&cx, &g, &ops, "re-update", hid, cid, &mut int, &mut lines, &mut st);
                        hid += 1;
                    }
                }
            }
            // (h) a taproot input listing several leaves of which only ONE is signed (every leaf in turn, so
            //     the unsatisfiable ones come before and after it in the control-block map): the
            //     finalizer must skip the leaves it cannot satisfy and finalize through the signed one
            if ini < 2 {
                for j in 0..nin {
                    let m = &case.inputs[j];
                    let nleaves = m.tap.as_ref().map(|t| t.leaves.len()).unwrap_or(0);
                    if nleaves < 2 {
                        continue;
                    }
                    let mut g = base_psbt(&case);
                    for i in 0..nin {
                        if i != j {
                            prepare_input(&cx, &mut g, i, 2, &mut rng);
                        }
                    }
                    for li in 0..nleaves {
                        let mut ops = vec![if ini == 0 { Op::Update { i: j, d: j } } else { Op::SetScripts { i: j } }];
                        for (idx, (_, l2, _, _)) in m.tap_script_sigs.iter().enumerate() {
                            if *l2 == li {
                                ops.push(Op::TapScriptSig { i: j, idx, bad: false });
                            }
                        }
                        for kind in &m.uses_hash {
                            ops.push(Op::Preimage { i: j, kind: *kind, wrong: false });
                        }
                        ops.push(Op::FinalizeInp { i: j, mall: false, byval: false });
                        ops.push(Op::Finalize { mall: true, byval: false });
                        ops.push(Op::Extract);
                        run_history(&cx, &g, &ops, "one-leaf-signed", hid, cid, &mut int, &mut lines, &mut st);
                        hid += 1;
                    }
                }
            }
            // (i) plan-driven preparation: Plan::update_psbt_input instead of the checked updater, same
            //     signatures: must finalize to the same fields (every Sh inner type, wsh, tr, ...)
            if ini == 0 {
                for j in 0..nin {
                    plan_differential(&cx, cid, j, &mut rng, &mut lines);
                }
            }
            // (c) the straight path: everything added, finalize, extract (must produce valid spends where possible)
            let mut ops: Vec<Op> = pool_ops.iter().filter(|o| matches!(o.kind(), "update" | "add-sig" | "add-tap-key-sig" | "add-tap-script-sig" | "add-preimage" | "add-unknown")).cloned().collect();
            ops.retain(|o| !matches!(o, Op::Update { i, d } if i != d));
            rng.shuffle(&mut ops);
            ops.push(Op::Finalize { mall: false, byval: false });
            ops.push(Op::Finalize { mall: false, byval: false });
            ops.push(Op::Extract);
            run_history(&cx, &init, &ops, "straight", hid, cid, &mut int, &mut lines, &mut st);
            hid += 1;
        }
        for l in lines.drain(..) {
            let _ = writeln!(w, "{}", l);
        }
    }
    for l in lines.drain(..) {
        let _ = writeln!(w, "{}", l);
    }
    let hist = |m: &BTreeMap<String, usize>| J::O(m.iter().map(|(k, v)| (k.clone(), J::N(*v as i64))).collect());
    let summary = J::obj(vec![
        ("t", J::s("summary")),
        ("seed", J::N(seed as i64)),
        ("cases", J::N(ncases as i64)),
        ("histories", J::N(st.histories as i64)),
        ("ops", J::N(st.ops as i64)),
        ("op_hist", hist(&st.op_hist)),
        ("result_hist", hist(&st.res_hist)),
        ("length_hist", J::O(st.len_hist.iter().map(|(k, v)| (k.to_string(), J::N(*v as i64))).collect())),
        ("output_type_hist", hist(&st.outer_hist)),
        ("template_hist", hist(&st.template_hist)),
        ("finalized_inputs_by_type", hist(&st.finalized_inputs)),
        ("failed_attempts_by_error_class", J::O(st.failed_attempts.iter().map(|(k, v)| (k.to_string(), J::N(*v as i64))).collect())),
        ("extracted_transactions", J::N(st.extracted as i64)),
        ("spends_verified", J::N(st.spends_verified as i64)),
        ("updates_checked", J::N(st.updates_checked as i64)),
        ("order_checks", J::N(st.order_checks as i64)),
        ("idempotence_checks", J::N(st.idem_checks as i64)),
        ("timelock_predicate_rows", J::N(st.timelock_rows as i64)),
        ("direct_satisfier_calls", J::N(st.satisfier_calls as i64)),
        ("direct_satisfier_witnesses_verified", J::N(st.satisfier_ok as i64)),
        ("distinct_input_states", J::N(int.map.len() as i64)),
    ]);
    let _ = writeln!(w, "{}", summary.to_string());
}
