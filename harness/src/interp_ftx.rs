//! C13, `Interpreter::from_txdata` (src/interpreter/inner.rs) against its Coq model
//! (coq/Ms/InterpTxdataModel.v): per spend the real outcome (fine error class, or output kind +
//! key / decoded miniscript) and the tables the model's parameters are read from (which
//! positional elements `decode_consensus` accepts in which context, public-key / x-only parsing,
//! control-block commitment; all but the decoding computed with rust-bitcoin only).  Plus the
//! directed malformed stream for from_txdata.
use crate::ast::hex;
use crate::interp::{build_ssig_pub, ssig_items_pub, Spend};
use bitcoin::hashes::{hash160, sha256, Hash};
use bitcoin::key::XOnlyPublicKey;
use bitcoin::taproot::ControlBlock;
use bitcoin::{absolute, Script, ScriptBuf, Sequence, Witness};
use miniscript::interpreter::{Error as E, Interpreter};
use miniscript::{BareCtx, Legacy, Miniscript, Segwitv0, Tap};
use std::fmt::Write as _;
use std::panic::{catch_unwind, AssertUnwindSafe};

pub fn fine_err(e: &E) -> &'static str {
    match e {
        E::NonEmptyWitness => "non_empty_witness",
        E::NonEmptyScriptSig => "non_empty_script_sig",
        E::UnexpectedStackEnd => "stack_end",
        E::ExpectedPush => "expected_push",
        E::PubkeyParseError => "pubkey_parse",
        E::UncompressedPubkey => "uncompressed_pubkey",
        E::XOnlyPublicKeyParseError => "xonly_parse",
        E::IncorrectPubkeyHash => "incorrect_pubkey_hash",
        E::IncorrectWPubkeyHash => "incorrect_wpubkey_hash",
        E::IncorrectScriptHash => "incorrect_script_hash",
        E::IncorrectWScriptHash => "incorrect_wscript_hash",
        E::TapAnnexUnsupported => "annex",
        E::UnexpectedStackBoolean => "stack_bool",
        E::ControlBlockParse(..) => "control_block_parse",
        E::ControlBlockVerificationError => "control_block_verify",
        E::Miniscript(..) => "decode",
        _ => "other",
    }
}

fn short_hash(s: &str) -> String { hex(&sha256::Hash::hash(s.as_bytes()).as_byte_array()[..8]) }

fn dec_str(ctx: &str, b: &[u8]) -> Option<String> {
    let s = Script::from_bytes(b);
    let r = catch_unwind(AssertUnwindSafe(|| match ctx {
        "bare" => Miniscript::<bitcoin::PublicKey, BareCtx>::decode_consensus(s).ok().map(|m| m.to_string()),
        "legacy" => Miniscript::<bitcoin::PublicKey, Legacy>::decode_consensus(s).ok().map(|m| m.to_string()),
        "segv0" => Miniscript::<bitcoin::PublicKey, Segwitv0>::decode_consensus(s).ok().map(|m| m.to_string()),
        _ => Miniscript::<XOnlyPublicKey, Tap>::decode_consensus(s).ok().map(|m| {
            // the interpreter's BitcoinKey prints an x-only key as the even full key (02 prefix)
            let mut t = m.to_string();
            let mut ks: Vec<String> = m.iter_pk().map(|k| k.to_string()).collect();
            ks.sort();
            ks.dedup();
            for k in ks {
                t = t.replace(&k, &format!("02{}", k));
            }
            t
        }),
    }));
    r.ok().flatten()
}

/// (kind, payload) of an inferred descriptor string: the key (hex) or the miniscript's text
fn split_inferred(s: &str) -> (&'static str, String) {
    let inner = |p: &str, q: &str| s[p.len()..s.len() - q.len()].to_string();
    if s.starts_with("rawtr_not_supported_yet(") {
        ("trkey", inner("rawtr_not_supported_yet(", ")"))
    } else if s.starts_with("tr(hidden_paths_not_yet_supported,") {
        ("tr", inner("tr(hidden_paths_not_yet_supported,", ")"))
    } else if s.starts_with("sh(wpkh(") {
        ("shwpkh", inner("sh(wpkh(", "))"))
    } else if s.starts_with("sh(wsh(") {
        ("shwsh", inner("sh(wsh(", "))"))
    } else if s.starts_with("wpkh(") {
        ("wpkh", inner("wpkh(", ")"))
    } else if s.starts_with("wsh(") {
        ("wsh", inner("wsh(", ")"))
    } else if s.starts_with("sh(") {
        ("sh", inner("sh(", ")"))
    } else {
        ("bare", s.to_string())
    }
}

/// the `Interpreter` accessors tell pk(K) / pkh(K) (key-only, Inner::PublicKey) from the bare
/// miniscripts of the same text: a key-only spend has no script-spend / segwit flags and its text is
/// `pk(<hex>)` / `pkh(<hex>)`; told apart by the scriptPubKey's shape (p2pk / p2pkh are never Bare).
fn kind_of(spk: &Script, s: &str) -> (&'static str, String) {
    let (k, p) = split_inferred(s);
    if k == "bare" {
        if spk.is_p2pk() && s.starts_with("pk(") {
            return ("pk", s[3..s.len() - 1].to_string());
        }
        if spk.is_p2pkh() && s.starts_with("pkh(") {
            return ("pkh", s[4..s.len() - 1].to_string());
        }
    }
    (k, p)
}

pub fn emit_ftx(out: &mut String, spk: &ScriptBuf, sp: &Spend) {
    let witness = Witness::from_slice(&sp.wit);
    let ssig = ScriptBuf::from_bytes(sp.ssig.clone());
    let r = catch_unwind(AssertUnwindSafe(|| {
        match Interpreter::from_txdata(spk, &ssig, &witness, Sequence(0xffff_fffe), absolute::LockTime::ZERO) {
            Ok(i) => Ok(i.inferred_descriptor_string()),
            Err(e) => Err(fine_err(&e)),
        }
    }));
    match r {
        Err(_) => writeln!(out, "FTX panic").unwrap(),
        Ok(Err(c)) => writeln!(out, "FTX err {}", c).unwrap(),
        Ok(Ok(s)) => {
            let (k, p) = kind_of(spk, &s);
            match k {
                "trkey" => writeln!(out, "FTX ok {} {}", k, &p[2..]).unwrap(), // printed as the even full key
                "pk" | "pkh" | "wpkh" | "shwpkh" => writeln!(out, "FTX ok {} {}", k, p).unwrap(),
                _ => writeln!(out, "FTX ok {} {}", k, short_hash(&p)).unwrap(),
            }
        }
    }
    // ---- tables for the model's parameters (positional candidates only)
    let items = ssig_items_pub(&sp.ssig).unwrap_or_default();
    let n = sp.wit.len();
    let mut cands: Vec<(&str, Vec<u8>)> = vec![("bare", spk.as_bytes().to_vec())];
    if let Some(t) = items.last() {
        cands.push(("legacy", t.clone()));
        writeln!(out, "HASH hash160 {} {}", hex(t), hex(hash160::Hash::hash(t).as_byte_array())).unwrap();
    }
    if n >= 1 {
        cands.push(("segv0", sp.wit[n - 1].clone()));
        writeln!(out, "HASH sha256 {} {}", hex(&sp.wit[n - 1]), hex(sha256::Hash::hash(&sp.wit[n - 1]).as_byte_array())).unwrap();
        writeln!(out, "HASH hash160 {} {}", hex(&sp.wit[n - 1]), hex(hash160::Hash::hash(&sp.wit[n - 1]).as_byte_array())).unwrap();
    }
    if n >= 2 {
        cands.push(("tap", sp.wit[n - 2].clone()));
    }
    for (ctx, b) in cands.iter() {
        if let Some(s) = dec_str(ctx, b) {
            writeln!(out, "DEC {} {} {}", ctx, hex(b), short_hash(&s)).unwrap();
        }
    }
    // public-key parsing of the elements from_txdata may read a key from
    let mut pkc: Vec<Vec<u8>> = Vec::new();
    if let Some(t) = items.last() {
        pkc.push(t.clone());
    }
    if n >= 1 {
        pkc.push(sp.wit[n - 1].clone());
    }
    let sb = spk.as_bytes();
    if sb.len() >= 2 {
        pkc.push(sb[1..sb.len() - 1].to_vec());
    }
    for k in pkc.iter() {
        if let Ok(pk) = bitcoin::PublicKey::from_slice(k) {
            writeln!(out, "FPK {} {}", hex(k), pk.compressed as u8).unwrap();
        }
    }
    if sb.len() == 34 && XOnlyPublicKey::from_slice(&sb[2..]).is_ok() {
        writeln!(out, "FXO {}", hex(&sb[2..])).unwrap();
    }
    if n >= 2 {
        let cb = &sp.wit[n - 1];
        if cb.len() >= 33 && XOnlyPublicKey::from_slice(&cb[1..33]).is_ok() {
            writeln!(out, "FXO {}", hex(&cb[1..33])).unwrap();
        }
        if sb.len() == 34 {
            if let (Ok(c), Ok(ok_key)) = (ControlBlock::decode(cb), XOnlyPublicKey::from_slice(&sb[2..])) {
                let secp = bitcoin::secp256k1::Secp256k1::verification_only();
                let sc = ScriptBuf::from_bytes(sp.wit[n - 2].clone());
                // what from_txdata asks: the commitment alone (no test of the leaf version)
                writeln!(out, "FCOMMIT {}", c.verify_taproot_commitment(&secp, ok_key, &sc) as u8).unwrap();
            }
        }
    }
}

/// directed malformed stream for from_txdata (deterministic; every base spend)
pub fn ftx_mutants(base: &Spend, kind: &str) -> Vec<Spend> {
    let mut out = Vec::new();
    let mut add = |name: &str, wit: Vec<Vec<u8>>, ssig: Vec<u8>| {
        out.push(Spend { mkind: format!("ftx-{}", name), base: "mut", wit, ssig });
    };
    let items = ssig_items_pub(&base.ssig).unwrap_or_default();
    let w = &base.wit;
    let n = w.len();
    let cat = |a: &[u8], b: &[u8]| [a, b].concat();
    // scriptSig shape
    add("ssig-nonpush", w.clone(), cat(&base.ssig, &[0x61]));
    add("ssig-op2-front", w.clone(), cat(&[0x52], &base.ssig));
    add("ssig-pushdata1-nonminimal", w.clone(), cat(&[0x4c, 0x01, 0x07], &base.ssig));
    add("ssig-direct-nonminimal", w.clone(), cat(&[0x01, 0x05], &base.ssig));
    add("ssig-truncated", w.clone(), cat(&base.ssig, &[0x05, 0x01]));
    add("ssig-op1-only", w.clone(), vec![0x51]);
    add("ssig-empty", w.clone(), vec![]);
    add("ssig-1negate", w.clone(), cat(&base.ssig, &[0x4f]));
    // witness shape
    add("wit-empty", vec![], base.ssig.clone());
    add("wit-one-empty-item", vec![vec![]], base.ssig.clone());
    add("wit-one-item-02", vec![vec![2]], base.ssig.clone());
    for (nm, top) in [("wit-top-empty", vec![]), ("wit-top-01", vec![1u8]), ("wit-annex", vec![0x50, 1, 2, 3]), ("wit-annex-bare-tag", vec![0x50])] {
        let mut x = w.clone();
        x.push(top);
        add(nm, x, base.ssig.clone());
    }
    if n >= 1 {
        let mut x = w.clone();
        let l = x[n - 1].len();
        if l > 0 {
            x[n - 1][l - 1] ^= 1;
            add("wit-last-flip", x, base.ssig.clone());
        }
        add("wit-drop-last", w[..n - 1].to_vec(), base.ssig.clone());
        let mut x = w.clone();
        x[n - 1] = cat(&[0x04], &[7u8; 64]);
        add("wit-last-65-bytes", x, base.ssig.clone());
    }
    if n >= 2 {
        let mut x = w.clone();
        let l = x[n - 2].len();
        if l > 0 {
            x[n - 2][l - 1] ^= 1;
            add("wit-second-flip", x, base.ssig.clone());
        }
        let mut x = w.clone();
        x.swap(n - 1, n - 2);
        add("wit-swap-top", x, base.ssig.clone());
    }
    // redeem script push
    if let Some(last) = items.last() {
        let mut it = items.clone();
        let m = it.len();
        let mut r = last.clone();
        if let Some(b) = r.last_mut() {
            *b ^= 1;
        }
        it[m - 1] = r;
        add("redeem-flip", w.clone(), build_ssig_pub(&it));
        let mut it = items.clone();
        it[m - 1] = cat(&[0x00, 0x14], &[9u8; 20]);
        add("redeem-wpkh-shaped", w.clone(), build_ssig_pub(&it));
        let mut it = items.clone();
        it[m - 1] = cat(&[0x00, 0x20], &[9u8; 32]);
        add("redeem-wsh-shaped", w.clone(), build_ssig_pub(&it));
        add("redeem-dropped", w.clone(), build_ssig_pub(&items[..m - 1]));
    }
    if kind == "sh" {
        add("sh-nonwitness-redeem-with-witness", vec![vec![1]], base.ssig.clone());
    }
    // control block
    if (kind == "tr" || kind == "trkey") && n >= 2 {
        let cb = w[n - 1].clone();
        let with_cb = |c: Vec<u8>| {
            let mut x = w.clone();
            x[n - 1] = c;
            x
        };
        if cb.len() >= 33 {
            add("cb-short-1", with_cb(cb[..cb.len() - 1].to_vec()), base.ssig.clone());
            add("cb-32-bytes", with_cb(cb[..32].to_vec()), base.ssig.clone());
            add("cb-extra-node", with_cb(cat(&cb, &[0u8; 32])), base.ssig.clone());
            add("cb-extra-byte", with_cb(cat(&cb, &[0u8])), base.ssig.clone());
            add("cb-129-nodes", with_cb(cat(&cb[..33], &vec![0u8; 32 * 129])), base.ssig.clone());
            let mut c = cb.clone();
            c[0] ^= 0x02;
            add("cb-leaf-version", with_cb(c), base.ssig.clone());
            let mut c = cb.clone();
            c[0] ^= 0x01;
            add("cb-parity", with_cb(c), base.ssig.clone());
            let mut c = cb.clone();
            c[0] = 0x50 | (cb[0] & 1);
            add("cb-annex-tag", with_cb(c), base.ssig.clone());
            let mut c = cb.clone();
            for b in c[1..33].iter_mut() {
                *b = 0;
            }
            add("cb-internal-key-zero", with_cb(c), base.ssig.clone());
            let mut c = cb.clone();
            c[0] = 0x7e | (cb[0] & 1);
            add("cb-leaf-7e", with_cb(c), base.ssig.clone());
        }
    }
    out
}
