//! Engine `poltext`: policy text layer observations (model coq/.../PolTextModel.v).
//!   poltext <seed> [quick|thorough]
//! `expression::Tree::from_str` + `FromTree::from_tree` (no timelock check) for
//! `policy::Concrete<String>` and `policy::Semantic<String>`, and `Display` of parsed and of
//! directly constructed values, dumped as a Coq file on stdout; summary on stderr.
//!
//! Observation (list of numbers):
//!   [0; tokens...]   parsed; prefix-token dump of the value (see `ctokens` / `stokens`)
//!   [1; class]       error class (see `class`); [1;50] = `Tree::from_str` error
//!   [2]              panic
use crate::text::{coq_case, guarded, quiet_panics, Rng};
use miniscript::expression::{FromTree, Tree};
use miniscript::policy::{Concrete, Semantic};
use miniscript::{AbsLockTime, Error, ParseError, ParseNumError, ParseThresholdError, ParseTreeError, RelLockTime, Threshold};
use std::collections::BTreeMap;
use std::fmt::Write as _;
use std::sync::Arc;

type C = Concrete<String>;
type S = Semantic<String>;

fn tok_str(out: &mut Vec<u64>, s: &str) {
    out.push(s.len() as u64);
    out.extend(s.bytes().map(|b| b as u64));
}

fn ctokens(p: &C, out: &mut Vec<u64>) {
    match p {
        C::Unsatisfiable => out.push(1),
        C::Trivial => out.push(2),
        C::Key(k) => {
            out.push(3);
            tok_str(out, k)
        }
        C::After(n) => {
            out.push(4);
            out.push(n.to_consensus_u32() as u64)
        }
        C::Older(n) => {
            out.push(5);
            out.push(n.to_consensus_u32() as u64)
        }
        C::Sha256(h) => {
            out.push(6);
            tok_str(out, h)
        }
        C::Hash256(h) => {
            out.push(7);
            tok_str(out, h)
        }
        C::Ripemd160(h) => {
            out.push(8);
            tok_str(out, h)
        }
        C::Hash160(h) => {
            out.push(9);
            tok_str(out, h)
        }
        C::And(subs) => {
            out.push(10);
            out.push(subs.len() as u64);
            for x in subs {
                ctokens(x, out);
            }
        }
        C::Or(subs) => {
            out.push(11);
            out.push(subs.len() as u64);
            for (w, x) in subs {
                out.push(*w as u64);
                ctokens(x, out);
            }
        }
        C::Thresh(th) => {
            out.push(12);
            out.push(th.k() as u64);
            out.push(th.data().len() as u64);
            for x in th.data() {
                ctokens(x, out);
            }
        }
    }
}

fn stokens(p: &S, out: &mut Vec<u64>) {
    match p {
        S::Unsatisfiable => out.push(1),
        S::Trivial => out.push(2),
        S::Key(k) => {
            out.push(3);
            tok_str(out, k)
        }
        S::After(n) => {
            out.push(4);
            out.push(n.to_consensus_u32() as u64)
        }
        S::Older(n) => {
            out.push(5);
            out.push(n.to_consensus_u32() as u64)
        }
        S::Sha256(h) => {
            out.push(6);
            tok_str(out, h)
        }
        S::Hash256(h) => {
            out.push(7);
            tok_str(out, h)
        }
        S::Ripemd160(h) => {
            out.push(8);
            tok_str(out, h)
        }
        S::Hash160(h) => {
            out.push(9);
            tok_str(out, h)
        }
        S::Thresh(th) => {
            out.push(12);
            out.push(th.k() as u64);
            out.push(th.data().len() as u64);
            for x in th.data() {
                stokens(x, out);
            }
        }
    }
}

fn class(e: &Error) -> Vec<u64> {
    let c = match e {
        Error::Parse(ParseError::Tree(ParseTreeError::MultipleSeparators { .. })) => 1,
        Error::Parse(ParseError::Tree(ParseTreeError::IncorrectNumberOfChildren { .. })) => 2,
        Error::Parse(ParseError::Tree(ParseTreeError::UnknownName { .. })) => 3,
        Error::Parse(ParseError::Tree(ParseTreeError::IllegalCurlyBrace { .. })) => 4,
        Error::Parse(ParseError::Num(ParseNumError::IllegalZero { .. })) => 5,
        Error::Parse(ParseError::Num(ParseNumError::InvalidLeadingDigit(..))) => 6,
        Error::Parse(ParseError::Num(ParseNumError::StdParse(..))) => 7,
        Error::Parse(ParseError::AbsoluteLockTime(..)) => 8,
        Error::Parse(ParseError::RelativeLockTime(..)) => 9,
        Error::Parse(ParseError::FromStr(..)) => 10,
        Error::ParseThreshold(ParseThresholdError::NoChildren) => 11,
        Error::ParseThreshold(ParseThresholdError::KNotTerminal) => 12,
        Error::ParseThreshold(ParseThresholdError::ParseK(ParseNumError::InvalidLeadingDigit(..))) => 13,
        Error::ParseThreshold(ParseThresholdError::ParseK(ParseNumError::StdParse(..))) => 14,
        Error::ParseThreshold(ParseThresholdError::ParseK(..)) => 16,
        Error::ParseThreshold(ParseThresholdError::Threshold(..)) => 15,
        Error::ParseThreshold(ParseThresholdError::IllegalOr) => 17,
        Error::ParseThreshold(ParseThresholdError::IllegalAnd) => 18,
        Error::Threshold(..) => 19,
        _ => 99,
    };
    vec![1, c]
}

/// Parse `s` as a concrete policy: (observation, printed text, debug of an unclassified error).
fn observe_c(s: &str) -> (Vec<u64>, Option<String>, Option<String>) {
    guarded(|| match Tree::from_str(s) {
        Err(_) => (vec![1, 50], None, None),
        Ok(top) => match <C as FromTree>::from_tree(top.root()) {
            Ok(p) => {
                let mut v = vec![0u64];
                ctokens(&p, &mut v);
                (v, Some(p.to_string()), None)
            }
            Err(e) => {
                let c = class(&e);
                let d = if c[1] == 99 { Some(format!("{:?}", e)) } else { None };
                (c, None, d)
            }
        },
    })
    .unwrap_or((vec![2], None, None))
}

fn observe_s(s: &str) -> (Vec<u64>, Option<String>, Option<String>) {
    guarded(|| match Tree::from_str(s) {
        Err(_) => (vec![1, 50], None, None),
        Ok(top) => match <S as FromTree>::from_tree(top.root()) {
            Ok(p) => {
                let mut v = vec![0u64];
                stokens(&p, &mut v);
                (v, Some(p.to_string()), None)
            }
            Err(e) => {
                let c = class(&e);
                let d = if c[1] == 99 { Some(format!("{:?}", e)) } else { None };
                (c, None, d)
            }
        },
    })
    .unwrap_or((vec![2], None, None))
}

// ---------------------------------------------------------------- Coq terms

/// Bijective base-256 numeration, first byte least significant; empty string = 0.
fn enc(s: &str) -> u128 {
    assert!(s.len() <= 12, "string too long for enc: {:?}", s);
    let mut acc: u128 = 0;
    for b in s.bytes().rev() {
        acc = acc * 256 + (b as u128) + 1;
    }
    acc
}

fn coq_list(items: Vec<String>) -> String {
    if items.is_empty() {
        "[]".to_string()
    } else {
        format!("[{}]", items.join(";"))
    }
}

fn cterm(p: &C) -> String {
    match p {
        C::Unsatisfiable => "WUnsat".to_string(),
        C::Trivial => "WTriv".to_string(),
        C::Key(k) => format!("(WKey {}%N)", enc(k)),
        C::After(n) => format!("(WAfter {}%N)", n.to_consensus_u32()),
        C::Older(n) => format!("(WOlder {}%N)", n.to_consensus_u32()),
        C::Sha256(h) => format!("(WSha256 {}%N)", enc(h)),
        C::Hash256(h) => format!("(WHash256 {}%N)", enc(h)),
        C::Ripemd160(h) => format!("(WRipemd160 {}%N)", enc(h)),
        C::Hash160(h) => format!("(WHash160 {}%N)", enc(h)),
        C::And(subs) => format!("(WAnd {})", coq_list(subs.iter().map(|x| cterm(x)).collect())),
        C::Or(subs) => format!("(WOr {})", coq_list(subs.iter().map(|(w, x)| format!("({}%N, {})", w, cterm(x))).collect())),
        C::Thresh(th) => format!("(WThresh {}%N {})", th.k(), coq_list(th.data().iter().map(|x| cterm(x)).collect())),
    }
}

fn sterm(p: &S) -> String {
    match p {
        S::Unsatisfiable => "SUnsat".to_string(),
        S::Trivial => "STriv".to_string(),
        S::Key(k) => format!("(SKey {}%N)", enc(k)),
        S::After(n) => format!("(SAfter {}%N)", n.to_consensus_u32()),
        S::Older(n) => format!("(SOlder {}%N)", n.to_consensus_u32()),
        S::Sha256(h) => format!("(SSha256 {}%N)", enc(h)),
        S::Hash256(h) => format!("(SHash256 {}%N)", enc(h)),
        S::Ripemd160(h) => format!("(SRipemd160 {}%N)", enc(h)),
        S::Hash160(h) => format!("(SHash160 {}%N)", enc(h)),
        S::Thresh(th) => format!("(SThresh {}%nat {})", th.k(), coq_list(th.data().iter().map(|x| sterm(x)).collect())),
    }
}

// ---------------------------------------------------------------- generators

const KEYS: &[&str] = &["A", "B", "C", "key_1", "[f]/0'", "x*", "K2", "Z"];
const HASHES: &[&str] = &["H", "h1", "00ff", "abc_d", "deadbeef", "0"];
const LOCKS: &[u32] = &[1, 2, 65535, 65536, 4194305, 499999999, 500000000, 2147483647];

fn leaf_text(r: &mut Rng) -> String {
    match r.below(12) {
        0..=3 => format!("pk({})", r.pick(KEYS)),
        4 => format!("after({})", r.pick(LOCKS)),
        5 => format!("older({})", r.pick(LOCKS)),
        6 => format!("sha256({})", r.pick(HASHES)),
        7 => format!("hash256({})", r.pick(HASHES)),
        8 => format!("ripemd160({})", r.pick(HASHES)),
        9 => format!("hash160({})", r.pick(HASHES)),
        10 => "UNSATISFIABLE".to_string(),
        _ => "TRIVIAL".to_string(),
    }
}

/// style 0: concrete syntax (binary and/or, odds); 1: semantic syntax (n-ary and/or, no odds,
/// thresh with 1<k<n); 2: anything.
fn gen_text(r: &mut Rng, depth: u32, style: u32) -> String {
    if depth == 0 || r.chance(1, 4) {
        return leaf_text(r);
    }
    let d = depth - 1;
    let nary = style != 0 && r.chance(1, 2);
    match r.below(3) {
        0 => {
            let n = if nary { 2 + r.below(3) } else { 2 };
            let subs: Vec<String> = (0..n).map(|_| gen_text(r, d, style)).collect();
            format!("and({})", subs.join(","))
        }
        1 => {
            let n = if nary { 2 + r.below(3) } else { 2 };
            let odds = style != 1 && r.chance(1, 2);
            let subs: Vec<String> = (0..n)
                .map(|_| {
                    let t = gen_text(r, d, style);
                    if odds && r.chance(2, 3) {
                        format!("{}@{}", r.pick(&[1u64, 2, 3, 7, 10, 99, 4294967295]), t)
                    } else {
                        t
                    }
                })
                .collect();
            format!("or({})", subs.join(","))
        }
        _ => {
            let (k, n) = if style == 1 && r.chance(3, 4) {
                let n = 3 + r.below(3);
                (2 + r.below(n - 2), n)
            } else {
                let n = 1 + r.below(5);
                (1 + r.below(n), n)
            };
            let subs: Vec<String> = (0..n).map(|_| gen_text(r, d, style)).collect();
            format!("thresh({},{})", k, subs.join(","))
        }
    }
}

const VKEYS: &[&str] = &["A", "B", "C", "key_1", "[f]/0'", "x*", "Z", "abcdefghijkl"];
const VLOCKS: &[u32] = &[1, 2, 7, 65535, 65536, 4194305, 499999999, 500000000, 2147483647];

fn abs(n: u32) -> AbsLockTime { AbsLockTime::from_consensus(n).unwrap() }
fn rel(n: u32) -> RelLockTime { RelLockTime::from_consensus(n).unwrap() }

fn or_weights() -> Vec<usize> {
    let mut v: Vec<usize> = vec![0, 1, 2, 7, 100, 4294967295u32 as usize];
    if std::mem::size_of::<usize>() == 8 {
        v.push(4294967296u64 as usize);
    }
    v
}

fn cleaf(r: &mut Rng) -> C {
    match r.below(12) {
        0..=3 => C::Key(r.pick(VKEYS).to_string()),
        4 => C::After(abs(*r.pick(VLOCKS))),
        5 => C::Older(rel(*r.pick(VLOCKS))),
        6 => C::Sha256(r.pick(HASHES).to_string()),
        7 => C::Hash256(r.pick(HASHES).to_string()),
        8 => C::Ripemd160(r.pick(HASHES).to_string()),
        9 => C::Hash160(r.pick(HASHES).to_string()),
        10 => C::Unsatisfiable,
        _ => C::Trivial,
    }
}

fn gen_c(r: &mut Rng, depth: u32, budget: &mut i64, weights: &[usize]) -> C {
    *budget -= 1;
    if depth == 0 || *budget <= 0 || r.chance(1, 4) {
        return cleaf(r);
    }
    let d = depth - 1;
    match r.below(3) {
        0 => {
            let n = r.below(6);
            C::And((0..n).map(|_| Arc::new(gen_c(r, d, budget, weights))).collect())
        }
        1 => {
            let n = r.below(6);
            C::Or((0..n).map(|_| (*r.pick(weights), Arc::new(gen_c(r, d, budget, weights)))).collect())
        }
        _ => {
            let n = 1 + r.below(5);
            let k = 1 + r.below(n);
            let v: Vec<Arc<C>> = (0..n).map(|_| Arc::new(gen_c(r, d, budget, weights))).collect();
            C::Thresh(Threshold::new(k as usize, v).unwrap())
        }
    }
}

fn sleaf(r: &mut Rng) -> S {
    match r.below(12) {
        0..=3 => S::Key(r.pick(VKEYS).to_string()),
        4 => S::After(abs(*r.pick(VLOCKS))),
        5 => S::Older(rel(*r.pick(VLOCKS))),
        6 => S::Sha256(r.pick(HASHES).to_string()),
        7 => S::Hash256(r.pick(HASHES).to_string()),
        8 => S::Ripemd160(r.pick(HASHES).to_string()),
        9 => S::Hash160(r.pick(HASHES).to_string()),
        10 => S::Unsatisfiable,
        _ => S::Trivial,
    }
}

fn gen_s(r: &mut Rng, depth: u32, budget: &mut i64) -> S {
    *budget -= 1;
    if depth == 0 || *budget <= 0 || r.chance(1, 4) {
        return sleaf(r);
    }
    let n = 1 + r.below(5);
    let k = 1 + r.below(n);
    let v: Vec<Arc<S>> = (0..n).map(|_| Arc::new(gen_s(r, depth - 1, budget))).collect();
    S::Thresh(Threshold::new(k as usize, v).unwrap())
}

fn cthresh(k: usize, v: Vec<C>) -> C { C::Thresh(Threshold::new(k, v.into_iter().map(Arc::new).collect()).unwrap()) }
fn sthresh(k: usize, v: Vec<S>) -> S { S::Thresh(Threshold::new(k, v.into_iter().map(Arc::new).collect()).unwrap()) }

fn directed_cvals() -> Vec<C> {
    let k = |s: &str| C::Key(s.to_string());
    let a = || Arc::new(k("A"));
    let b = || Arc::new(k("B"));
    let c = || Arc::new(k("C"));
    let mut v = vec![
        C::Unsatisfiable,
        C::Trivial,
        k("A"),
        k("key_1"),
        k("[f]/0'"),
        k("x*"),
        k(""),
        k("a,b"),
        k("p(q)"),
        k("3@A"),
        C::Sha256("".to_string()),
        C::Sha256("H".to_string()),
        C::Hash256("H".to_string()),
        C::Ripemd160("H".to_string()),
        C::Hash160("H".to_string()),
        C::And(vec![]),
        C::And(vec![a()]),
        C::And(vec![a(), b()]),
        C::And(vec![a(), b(), c()]),
        C::Or(vec![]),
        C::Or(vec![(0, a()), (1, b())]),
        C::Or(vec![(1, a())]),
        C::Or(vec![(1, a()), (1, b())]),
        C::Or(vec![(3, a()), (1, b())]),
        C::Or(vec![(1, a()), (2, b())]),
        C::Or(vec![(1, a()), (1, b()), (1, c())]),
        C::Or(vec![(2, a()), (3, b()), (4, c())]),
        C::Or(vec![(0, a()), (0, b())]),
        C::Or(vec![(4294967295u32 as usize, a()), (1, b())]),
        C::Or(vec![(2, Arc::new(C::Or(vec![(1, a()), (1, b())]))), (1, c())]),
        C::Or(vec![(1, Arc::new(C::Or(vec![(5, a()), (6, b())]))), (1, c())]),
        C::And(vec![Arc::new(C::Or(vec![(5, a()), (6, b())])), c()]),
        C::And(vec![Arc::new(C::And(vec![])), c()]),
        C::And(vec![Arc::new(C::Or(vec![])), c()]),
    ];
    if std::mem::size_of::<usize>() == 8 {
        v.push(C::Or(vec![(4294967296u64 as usize, a()), (1, b())]));
    }
    for n in VLOCKS {
        v.push(C::After(abs(*n)));
        v.push(C::Older(rel(*n)));
    }
    for n in 1..=5usize {
        for kk in 1..=n {
            let subs: Vec<C> = (0..n).map(|i| k(VKEYS[i])).collect();
            v.push(cthresh(kk, subs));
        }
    }
    // nested thresh in thresh, thresh inside or with weight
    v.push(cthresh(1, vec![cthresh(1, vec![k("A")])]));
    v.push(cthresh(2, vec![cthresh(2, vec![k("A"), k("B")]), C::Or(vec![(2, a()), (1, b())])]));
    v.push(C::Or(vec![(2, Arc::new(cthresh(1, vec![k("A"), k("B")]))), (1, c())]));
    // nesting depth 6 chains
    let mut x = k("A");
    for i in 0..6 {
        x = match i % 3 {
            0 => C::And(vec![Arc::new(x), b()]),
            1 => C::Or(vec![(1 + i, Arc::new(x)), (1, c())]),
            _ => cthresh(2, vec![x, k("B"), k("C")]),
        };
        v.push(x.clone());
    }
    v
}

fn directed_svals() -> Vec<S> {
    let k = |s: &str| S::Key(s.to_string());
    let mut v = vec![
        S::Unsatisfiable,
        S::Trivial,
        k("A"),
        k("key_1"),
        k("[f]/0'"),
        k("x*"),
        k(""),
        k("a,b"),
        k("p(q)"),
        S::Sha256("".to_string()),
        S::Sha256("H".to_string()),
        S::Hash256("H".to_string()),
        S::Ripemd160("H".to_string()),
        S::Hash160("H".to_string()),
        sthresh(1, vec![k("A")]),
        sthresh(2, vec![k("A"), k("B")]),
        sthresh(1, vec![k("A"), k("B")]),
        sthresh(2, vec![k("A"), k("B"), k("C")]),
        sthresh(3, vec![k("A"), k("B"), k("C")]),
        sthresh(1, vec![k("A"), k("B"), k("C")]),
    ];
    for n in VLOCKS {
        v.push(S::After(abs(*n)));
        v.push(S::Older(rel(*n)));
    }
    let leaves: Vec<S> = vec![k("A"), S::After(abs(7)), S::Older(rel(9)), S::Sha256("H".to_string()), S::Trivial, S::Unsatisfiable];
    for n in 1..=5usize {
        for kk in 1..=n {
            v.push(sthresh(kk, (0..n).map(|i| k(VKEYS[i])).collect()));
            v.push(sthresh(kk, (0..n).map(|i| leaves[(i + kk) % leaves.len()].clone()).collect()));
            // nested: first child is itself each (k', n')
            for n2 in 1..=3usize {
                for k2 in 1..=n2 {
                    let inner = sthresh(k2, (0..n2).map(|i| k(VKEYS[i + 3])).collect());
                    let mut subs: Vec<S> = vec![inner];
                    subs.extend((1..n).map(|i| k(VKEYS[i])));
                    v.push(sthresh(kk, subs));
                }
            }
        }
    }
    let mut x = k("A");
    for i in 0..6usize {
        x = match i % 3 {
            0 => sthresh(2, vec![x, k("B")]),
            1 => sthresh(1, vec![x, k("C")]),
            _ => sthresh(2, vec![x, k("B"), k("C")]),
        };
        v.push(x.clone());
    }
    v
}

fn deep(depth: usize) -> String {
    let mut s = String::new();
    for _ in 0..depth {
        s.push_str("and(pk(A),");
    }
    s.push_str("pk(A)");
    for _ in 0..depth {
        s.push(')');
    }
    s
}

fn directed_texts() -> Vec<String> {
    let base: Vec<&str> = vec![
        // arity
        "pk()", "pk(A,B)", "pk", "pk(A)", "after(1,2)", "after", "after()", "older", "older()", "older(1,2)", "and(a)", "and(pk(A))",
        "and(a,b,c)", "and(pk(A),pk(B),pk(C))", "and()", "and", "and(pk(A),pk(B))", "or(a)", "or(pk(A))", "or()", "or", "or(pk(A),pk(B))",
        "or(pk(A),pk(B),pk(C))", "or(a,b,c)", "UNSATISFIABLE(a)", "UNSATISFIABLE()", "UNSATISFIABLE", "TRIVIAL()", "TRIVIAL(a)", "TRIVIAL",
        "sha256()", "sha256", "sha256(H,H)", "hash256(H,H)", "ripemd160()", "hash160", "sha256(H)", "hash256(H)", "ripemd160(H)", "hash160(H)",
        // odds
        "or(0@pk(A),pk(B))", "or(pk(A),0@pk(B))", "or(@pk(A),pk(B))", "or(pk(A),@pk(B))", "1@", "or(1@,pk(B))", "@", "or(@,pk(B))", "1@2@pk(A)",
        "or(1@2@pk(A),pk(B))", "or(01@pk(A),pk(B))", "or(+1@pk(A),pk(B))", "or(-1@pk(A),pk(B))", "or(x@pk(A),pk(B))", "or(1x@pk(A),pk(B))",
        "or(00@pk(A),pk(B))", "or(4294967295@pk(A),pk(B))", "or(4294967296@pk(A),pk(B))", "or(99999999999999999999@pk(A),pk(B))",
        "or(pk(A),4294967295@pk(B))", "or(pk(A),4294967296@pk(B))", "or(3@pk(A),pk(B))", "or(pk(A),2@pk(B))", "or(3@pk(A),2@pk(B))",
        "or(1@pk(A),1@pk(B))", "or(1@pk(A),pk(B),pk(C))", "and(2@pk(A),pk(B))", "and(pk(A),2@pk(B))", "2@pk(A)", "2@UNSATISFIABLE",
        "thresh(1,2@pk(A))", "thresh(2,2@pk(A),pk(B),pk(C))", "thresh(2@1,pk(A))", "thresh(2@2,pk(A),pk(B),pk(C))",
        "or(2@or(pk(A),pk(B)),pk(C))", "or(2@or(3@pk(A),pk(B)),pk(C))", "or(2@and(pk(A),pk(B)),pk(C))", "or(2@thresh(1,pk(A)),pk(C))",
        "or(2@thresh(2,pk(A),pk(B),pk(D)),pk(C))", "3@or(pk(A),pk(B))", "3@or(2@pk(A),pk(B))", "and(3@or(pk(A),pk(B)),pk(C))",
        "and(3@or(2@pk(A),pk(B)),pk(C))", "or(x@y@or(pk(A),pk(B)),pk(C))", "or(x@or(pk(A),pk(B)),pk(C))", "or(1@2@or(pk(A),pk(B)),pk(C))",
        "x@y@or(pk(A),pk(B))", "3@and(pk(A),pk(B))", "3@thresh(2,pk(A),pk(B),pk(C))", "thresh(2,3@or(pk(A),pk(B)),pk(C),pk(D))",
        "or(2@UNSATISFIABLE,3@TRIVIAL)", "or(2@after(1),3@older(1))", "or(2@sha256(H),hash160(H))", "or(pk(A)@2,pk(B))", "or(pk@2(A),pk(B))",
        "or(2@pk(3@A),pk(B))", "or(pk(3@A),pk(B))", "pk(3@A)", "pk(1@2@A)", "and(pk(1@2@A),pk(B))", "or(pk(1@2@A),pk(B))", "sha256(1@2@H)",
        "3@x@thresh(1,pk(A))", "a@b@thresh(2,pk(A),pk(B),pk(C))", "and(a@b@thresh(2,pk(A),pk(B),pk(C)),pk(D))",
        // thresh
        "thresh(0,pk(A))", "thresh(0,pk(A),pk(B))", "thresh(2,pk(A))", "thresh(4,pk(A),pk(B),pk(C))", "thresh()", "thresh", "thresh(1)", "thresh(2)",
        "thresh(0)", "thresh(pk(A))", "thresh(pk(A),pk(B))", "thresh(1(a),pk(A))", "thresh(1(foo,bar),pk(C))", "thresh(01,pk(A))",
        "thresh(+1,pk(A))", "thresh(-1,pk(A))", "thresh(,pk(A))", "thresh(1x,pk(A))", "thresh(k,pk(A))", "thresh(00,pk(A))",
        "thresh(4294967295,pk(A))", "thresh(4294967296,pk(A))", "thresh(4294967297,pk(A))", "thresh(99999999999999999999,pk(A))",
        "thresh(1,pk(A))", "thresh(2,pk(A),pk(B))", "thresh(1,pk(A),pk(B))", "thresh(2,pk(A),pk(B),pk(C))", "thresh(3,pk(A),pk(B),pk(C))",
        "thresh(1,pk(A),pk(B),pk(C))", "thresh(1,x)", "thresh(1,pk(A),x)", "thresh(1,x,pk(A))", "thresh(2,pk(A),pk(B),x)", "thresh(1,1)",
        "thresh(2,thresh(2,pk(A),pk(B),pk(C)),pk(D),pk(E))", "thresh(thresh(1,pk(A)),pk(B))", "thresh(1,thresh(1))",
        // locks
        "after(0)", "after(1)", "after(2147483647)", "after(2147483648)", "after(4294967295)", "after(4294967296)", "after(01)", "after(+1)",
        "after(-1)", "after(00)", "after(a)", "after(1x)", "after(99999999999999999999)", "after(500000000)", "after(499999999)", "after( 1)",
        "older(0)", "older(1)", "older(2147483647)", "older(2147483648)", "older(4294967295)", "older(4294967296)", "older(01)", "older(+5)",
        "older(65535)", "older(65536)", "older(4194305)", "older(4194304)", "older(x)", "older(00)",
        // names, case, braces
        "foo(A)", "foo", "pkh(A)", "pk_k(A)", "multi(1,A)", "Pk(A)", "PK(A)", "unsatisfiable", "trivial", "Unsatisfiable", "AND(pk(A),pk(B))",
        "And(pk(A),pk(B))", "OR(pk(A),pk(B))", "THRESH(1,pk(A))", "After(1)", "SHA256(H)", "0", "1", "and(pk(A),)", "and(,)", "(A)", "()",
        "and{pk(A),pk(B)}", "pk{A}", "and(pk{A},pk(B))", "or{pk(A),pk(B)}", "thresh{1,pk(A)}", "thresh(1,pk{A})", "and(pk(A),pk(B){})",
        "and(pk(A),{pk(B)})", "{pk(A)}", "pk({A})",
        // nested terminals
        "pk(pk(A))", "pk(and(pk(A),pk(B)))", "sha256(and(pk(A),pk(B)))", "after(after(1))", "pk(A(B))", "pk(A())", "sha256(H(x))",
        "older(older(1))", "after(pk(A))", "after(1(2))", "pk(pk(pk(A)))", "and(pk(pk(A)),pk(B))", "pk(foo(A))", "pk(or(pk(A),pk(B)))",
        "pk(thresh(1,pk(A)))", "pk(UNSATISFIABLE)", "hash160(pk(A))", "pk(after(0))", "pk(A(B,C))", "UNSATISFIABLE(TRIVIAL)",
        // trailing, empty, checksum
        "pk(A))", "pk(A)x", "pk(A),pk(B)", "", " ", "pk(A) ", " pk(A)", "pk( A)", "pk(A", "pk(A)#xxxxxxxx", "pk(A)#", "pk(A)#qqqqqqqq",
        "and(pk(A),pk(B))#12345678", ",", "(", ")", "pk(A)(B)", "and(pk(A)pk(B))", "and(pk(A),pk(B)))",
    ];
    let mut v: Vec<String> = base.iter().map(|s| s.to_string()).collect();
    for d in [1usize, 2, 399, 400, 401, 402, 403, 404] {
        v.push(deep(d));
    }
    // each (short) directed form inside the three contexts
    let mut ctx = Vec::new();
    for s in &base {
        if s.is_empty() || s.len() > 48 {
            continue;
        }
        ctx.push(format!("and({},pk(Z))", s));
        ctx.push(format!("or({},pk(Z))", s));
        ctx.push(format!("thresh(2,{},pk(Y),pk(Z))", s));
    }
    v.extend(ctx);
    v
}

fn mutate(s: &str, r: &mut Rng) -> String {
    const ALPH: &[u8] = b"()@,0123456789abcdehknoprstADEHIKLNRSTUVB{}";
    let mut b = s.as_bytes().to_vec();
    let n = 1 + r.below(2);
    for _ in 0..n {
        let pos = r.below(b.len() as u64 + 1) as usize;
        match r.below(5) {
            0 if pos < b.len() => {
                b.remove(pos);
            }
            1 if pos < b.len() => {
                let c = b[pos];
                b.insert(pos, c);
            }
            2 if b.len() >= 2 => {
                let i = r.below(b.len() as u64) as usize;
                let j = r.below(b.len() as u64) as usize;
                b.swap(i, j);
            }
            3 => b.insert(pos.min(b.len()), *r.pick(ALPH)),
            _ if pos < b.len() => b[pos] = *r.pick(ALPH),
            _ => b.push(*r.pick(ALPH)),
        }
    }
    String::from_utf8_lossy(&b).into_owned()
}

fn lst(v: &[u64]) -> String {
    if v.is_empty() {
        "[]".to_string()
    } else {
        format!("[{}]", v.iter().map(|x| x.to_string()).collect::<Vec<_>>().join(";"))
    }
}

fn outcome(o: &[u64]) -> String {
    match o[0] {
        0 => "ok".to_string(),
        1 => format!("err{}", o[1]),
        _ => "panic".to_string(),
    }
}

fn serde_like(m: &BTreeMap<String, usize>) -> String {
    format!("{{{}}}", m.iter().map(|(k, v)| format!("\"{}\": {}", k, v)).collect::<Vec<_>>().join(", "))
}

fn emit_chunks(out: &mut String, name: &str, ty: &str, items: &[String]) {
    let mut parts = Vec::new();
    for (ci, chunk) in items.chunks(100).enumerate() {
        let pn = format!("{}_p{}", name, ci);
        let _ = writeln!(out, "Definition {} : {} := [{}].", pn, ty, chunk.join(";"));
        parts.push(pn);
    }
    let _ = writeln!(out, "Definition {} : {} := {}.", name, ty, if parts.is_empty() { "[]".to_string() } else { parts.join(" ++ ") });
}

/// Judge the property itself on the real code: every line of the file is parsed as both policy types; an
/// accepted text must print to a text that parses to an equal value (token dumps) and prints identically.
fn rtfile(path: &str) {
    let text = std::fs::read_to_string(path).unwrap_or_default();
    for line in text.lines() {
        for (ty, o) in [("concrete", observe_c(line)), ("semantic", observe_s(line))] {
            let verdict = match (&o.0[..], &o.1) {
                ([2, ..], _) => "FAIL panic".to_string(),
                ([0, ..], Some(pr)) => {
                    let o2 = if ty == "concrete" { observe_c(pr) } else { observe_s(pr) };
                    if o2.0 != o.0 {
                        format!("FAIL reparse-differs printed={:?} reparse={:?}", pr, &o2.0[..o2.0.len().min(12)])
                    } else if o2.1.as_ref() != Some(pr) {
                        format!("FAIL reprint-differs printed={:?} reprinted={:?}", pr, o2.1)
                    } else {
                        "OK".to_string()
                    }
                }
                _ => "REJECTED".to_string(),
            };
            println!("POLRT\t{}\t{}\t{}", ty, verdict, line);
        }
    }
}

pub fn run(args: &[String]) {
    quiet_panics();
    if args.first().map(|s| s.as_str()) == Some("rtfile") {
        let path = args.get(1).cloned().unwrap_or_default();
        let h = std::thread::Builder::new().stack_size(512 << 20).spawn(move || rtfile(&path)).expect("spawn");
        let _ = h.join();
        return;
    }
    let seed: u64 = args.first().and_then(|s| s.parse().ok()).unwrap_or(1);
    let tier = args.get(1).map(|s| s.as_str()).unwrap_or("quick").to_string();
    // deep texts / values: run on a thread with a large stack
    let h = std::thread::Builder::new().stack_size(512 << 20).spawn(move || go(seed, &tier)).expect("spawn");
    let _ = h.join();
}

/// Why the printed form of a VALUE cannot be parsed back (structural reasons read off the value itself).
fn bad_str(s: &str) -> bool { s.chars().any(|c| "(){},#".contains(c)) }
fn creasons(p: &C, out: &mut std::collections::BTreeSet<&'static str>) {
    match p {
        C::Key(k) => {
            if bad_str(k) {
                out.insert("structural-key");
            }
        }
        C::Sha256(h) | C::Hash256(h) | C::Ripemd160(h) | C::Hash160(h) => {
            if bad_str(h) {
                out.insert("structural-key");
            }
        }
        C::And(subs) => {
            if subs.is_empty() {
                out.insert("empty-and-or");
            } else if subs.len() != 2 {
                out.insert("concrete-nary");
            }
            for x in subs {
                creasons(x, out);
            }
        }
        C::Or(subs) => {
            if subs.is_empty() {
                out.insert("empty-and-or");
            } else if subs.len() != 2 {
                out.insert("concrete-nary");
            }
            for (w, x) in subs {
                if *w == 0 {
                    out.insert("zero-odds");
                }
                if (*w as u128) > u32::MAX as u128 {
                    out.insert("odds-over-u32");
                }
                creasons(x, out);
            }
        }
        C::Thresh(t) => {
            for x in t.iter() {
                creasons(x, out);
            }
        }
        _ => {}
    }
}
fn sreasons(p: &S, out: &mut std::collections::BTreeSet<&'static str>) {
    match p {
        S::Key(k) => {
            if bad_str(k) {
                out.insert("structural-key");
            }
        }
        S::Sha256(h) | S::Hash256(h) | S::Ripemd160(h) | S::Hash160(h) => {
            if bad_str(h) {
                out.insert("structural-key");
            }
        }
        S::Thresh(t) => {
            if t.n() == 1 {
                out.insert("semantic-1of1");
            }
            for x in t.iter() {
                sreasons(x, out);
            }
        }
        _ => {}
    }
}

fn go(seed: u64, tier: &str) {
    let thorough = tier == "thorough";
    let mul: usize = if thorough { 4 } else { 1 };
    let mut r = Rng(seed ^ 0x9017_e87a);
    let mut cases: Vec<(String, &'static str)> = Vec::new();

    // 1. structured valid policies
    let mut gen_texts: Vec<String> = Vec::new();
    for i in 0..(900 * mul) {
        let style = (i % 3) as u32;
        let depth = 1 + (i as u32 / 3) % 6;
        let mut t = gen_text(&mut r, depth, style);
        let mut tries = 0;
        while t.len() > 400 && tries < 20 {
            t = gen_text(&mut r, depth.min(3), style);
            tries += 1;
        }
        gen_texts.push(t.clone());
        cases.push((t, ["gen-concrete", "gen-semantic", "gen-mixed"][style as usize]));
    }

    // 2. values
    let weights = or_weights();
    let mut cvals: Vec<C> = directed_cvals();
    let n_cdir = cvals.len();
    while cvals.len() < n_cdir.max(650 * mul) {
        let depth = 1 + r.below(6) as u32;
        let mut budget: i64 = 40;
        cvals.push(gen_c(&mut r, depth, &mut budget, &weights));
    }
    let mut svals: Vec<S> = directed_svals();
    let n_sdir = svals.len();
    while svals.len() < n_sdir.max(650 * mul) {
        let depth = 1 + r.below(6) as u32;
        let mut budget: i64 = 40;
        svals.push(gen_s(&mut r, depth, &mut budget));
    }

    let mut noreparse: Vec<String> = Vec::new();
    let mut nore_c = 0usize;
    let mut nore_s = 0usize;
    let mut reasons: BTreeMap<String, (usize, String)> = Default::default();
    let mut cval_items: Vec<String> = Vec::new();
    let mut cval_eq = 0usize;
    let mut cval_display_panics = 0usize;
    for v in &cvals {
        let printed = match guarded(|| v.to_string()) {
            Some(p) => p,
            None => {
                cval_display_panics += 1;
                continue;
            }
        };
        let mut orig = vec![0u64];
        ctokens(v, &mut orig);
        let (obs, _, _) = observe_c(&printed);
        let eq = obs == orig;
        if eq {
            cval_eq += 1;
        } else {
            if nore_c < 12 {
                noreparse.push(format!("POLTEXTNOREPARSE conc {} {}", printed, lst(&obs[..obs.len().min(40)])));
            }
            nore_c += 1;
            let mut rs = Default::default();
            creasons(v, &mut rs);
            let key = if rs.is_empty() { "unexplained".to_string() } else { rs.iter().cloned().collect::<Vec<_>>().join("+") };
            let e = reasons.entry(format!("concrete {}", key)).or_insert((0usize, printed.clone()));
            e.0 += 1;
            if printed.len() < e.1.len() {
                e.1 = printed.clone();
            }
        }
        cval_items.push(format!("({}, {}, {})", cterm(v), coq_case(1, printed.as_bytes()), eq));
        cases.push((printed, "value-printed"));
    }
    let mut sval_items: Vec<String> = Vec::new();
    let mut sval_eq = 0usize;
    let mut sval_display_panics = 0usize;
    for v in &svals {
        let printed = match guarded(|| v.to_string()) {
            Some(p) => p,
            None => {
                sval_display_panics += 1;
                continue;
            }
        };
        let mut orig = vec![0u64];
        stokens(v, &mut orig);
        let (obs, _, _) = observe_s(&printed);
        let eq = obs == orig;
        if eq {
            sval_eq += 1;
        } else {
            if nore_s < 12 {
                noreparse.push(format!("POLTEXTNOREPARSE sem {} {}", printed, lst(&obs[..obs.len().min(40)])));
            }
            nore_s += 1;
            let mut rs = Default::default();
            sreasons(v, &mut rs);
            let key = if rs.is_empty() { "unexplained".to_string() } else { rs.iter().cloned().collect::<Vec<_>>().join("+") };
            let e = reasons.entry(format!("semantic {}", key)).or_insert((0usize, printed.clone()));
            e.0 += 1;
            if printed.len() < e.1.len() {
                e.1 = printed.clone();
            }
        }
        sval_items.push(format!("({}, {}, {})", sterm(v), coq_case(1, printed.as_bytes()), eq));
        cases.push((printed, "value-printed"));
    }

    // 3. directed
    for s in directed_texts() {
        cases.push((s, "directed"));
    }

    // 4. seeded edits
    let mut made = 0;
    let mut guard = 0;
    while made < 900 * mul && guard < 100000 {
        guard += 1;
        let s = r.pick(&gen_texts).clone();
        if s.len() > 160 {
            continue;
        }
        cases.push((mutate(&s, &mut r), "edited"));
        made += 1;
    }

    // observe and emit
    let mut out = String::new();
    out.push_str("From Coq Require Import List NArith Uint63.\nImport ListNotations.\nFrom Verif Require Import PolSemantic PolTextModel.\nLocal Open Scope uint63_scope.\n");
    let mut khist: BTreeMap<String, usize> = Default::default();
    let mut chist: BTreeMap<String, usize> = Default::default();
    let mut shist: BTreeMap<String, usize> = Default::default();
    let mut samples: Vec<String> = Vec::new();
    let mut surprises: Vec<String> = Vec::new();
    let mut items: Vec<String> = Vec::with_capacity(cases.len());
    for (i, (s, kind)) in cases.iter().enumerate() {
        *khist.entry(kind.to_string()).or_default() += 1;
        let (co, cp, cd) = observe_c(s);
        let (so, sp, sd) = observe_s(s);
        let ck = outcome(&co);
        let sk = outcome(&so);
        *chist.entry(ck.clone()).or_default() += 1;
        *shist.entry(sk.clone()).or_default() += 1;
        if (co[0] == 2 || so[0] == 2 || cd.is_some() || sd.is_some()) && surprises.len() < 20 {
            let short: String = s.chars().take(120).collect();
            surprises.push(format!("POLTEXTSURPRISE {:?} [{}] conc={} sem={} cdbg={:?} sdbg={:?}", short, kind, ck, sk, cd, sd));
        }
        if samples.len() < 8 && s.len() < 60 && i % 397 == 0 {
            samples.push(format!("POLTEXTSAMPLE {:?} [{}] -> conc={} sem={} printed={:?}/{:?}", s, kind, ck, sk, cp, sp));
        }
        let pr = |p: &Option<String>| match p {
            Some(p) => coq_case(1, p.as_bytes()),
            None => "[0;0]".to_string(),
        };
        items.push(format!("({}, ({}, {}), ({}, {}))", coq_case(0, s.as_bytes()), lst(&co), pr(&cp), lst(&so), pr(&sp)));
    }
    emit_chunks(&mut out, "poltext_cases", "list (list int * (list int * list int) * (list int * list int))", &items);
    emit_chunks(&mut out, "poltext_cvals", "list (wpol * list int * bool)", &cval_items);
    emit_chunks(&mut out, "poltext_svals", "list (spol * list int * bool)", &sval_items);
    print!("{}", out);
    for (k, (n, w)) in &reasons {
        eprintln!("POLTEXTVALUE {} n={} witness={}", k, n, w);
    }
    eprintln!(
        "POLTEXT cases={} cvals={} svals={} cval_reparse_equal={} sval_reparse_equal={} kinds={} conc_outcomes={} sem_outcomes={}",
        cases.len(),
        cval_items.len(),
        sval_items.len(),
        cval_eq,
        sval_eq,
        serde_like(&khist),
        serde_like(&chist),
        serde_like(&shist)
    );
    if cval_display_panics + sval_display_panics > 0 {
        eprintln!("POLTEXTDISPLAYPANIC conc={} sem={}", cval_display_panics, sval_display_panics);
    }
    for s in samples {
        eprintln!("{}", s);
    }
    for s in noreparse {
        eprintln!("{}", s);
    }
    for s in surprises {
        eprintln!("{}", s);
    }
}
