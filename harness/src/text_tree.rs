pub fn run(_seed: u64, _tier: &str) { println!("(tree engine: not built yet)"); }
