//! Expression-tree parser observations: `expression::Tree::from_str` on generated, edited and
//! exhaustively enumerated small strings, dumped as a Coq file (compared with the model in Coq).
use super::{guarded, Rng};
use miniscript::descriptor::checksum::Error as CkError;
use miniscript::expression::{Parens, Tree};
use miniscript::{Error, ParseError, ParseTreeError};
use std::fmt::Write as _;

/// Observation as a list of numbers:
///   [0; n; (name_pos, name_len, parens, n_children, parent+1, last_child+1, right_sibling+1) * n]
///   [1; class; x; y]   error
///   [2]                panic
pub fn observe(s: &str) -> Vec<u64> {
    let r = guarded(|| match Tree::from_str(s) {
        Ok(t) => {
            let root = t.root();
            let mut v = vec![0u64, 0];
            let mut n = 0u64;
            for it in root.pre_order_iter() {
                n += 1;
                v.push(it.name_pos() as u64);
                v.push(it.name().len() as u64);
                v.push(match it.parens() {
                    Parens::None => 0,
                    Parens::Round => 1,
                    Parens::Curly => 2,
                });
                v.push(it.n_children() as u64);
                v.push(it.parent().map(|p| p.index() as u64 + 1).unwrap_or(0));
                v.push(it.children().last().map(|p| p.index() as u64 + 1).unwrap_or(0));
                v.push(it.right_sibling().map(|p| p.index() as u64 + 1).unwrap_or(0));
                // the name must be the slice of the input at name_pos (names are not transported)
                let np = it.name_pos();
                let stripped = s.as_bytes();
                if np + it.name().len() > stripped.len() || &stripped[np..np + it.name().len()] != it.name().as_bytes() {
                    return vec![3];
                }
                if it.index() as u64 + 1 != n {
                    return vec![3];
                }
            }
            v[1] = n;
            v
        }
        Err(Error::Parse(ParseError::Tree(e))) => {
            let (c, x, y) = match e {
                ParseTreeError::Checksum(CkError::InvalidCharacter { pos, .. }) => (10, pos, 0),
                ParseTreeError::Checksum(CkError::InvalidChecksumLength { actual, .. }) => (11, actual, 0),
                ParseTreeError::Checksum(CkError::InvalidChecksum { .. }) => (12, 0, 0),
                ParseTreeError::MaxRecursionDepthExceeded { actual, .. } => (2, actual, 0),
                ParseTreeError::ExpectedParenOrComma { pos, .. } => (3, pos, 0),
                ParseTreeError::UnmatchedOpenParen { pos, .. } => (4, pos, 0),
                ParseTreeError::UnmatchedCloseParen { pos, .. } => (5, pos, 0),
                ParseTreeError::MismatchedParens { open_pos, close_pos, .. } => (6, open_pos, close_pos),
                ParseTreeError::TrailingCharacter { pos, .. } => (7, pos, 0),
                _ => (99, 0, 0),
            };
            vec![1, c, x as u64, y as u64]
        }
        Err(_) => vec![1, 98, 0, 0],
    });
    r.unwrap_or_else(|| vec![2])
}

fn gen_tree(r: &mut Rng, depth: u32, out: &mut String) {
    const NAMECH: &[u8] = b"abcxyz019:@_/'*[]<>;. #";
    let nl = match r.below(6) {
        0 => 0,
        1..=3 => 1 + r.below(3),
        _ => 1 + r.below(9),
    };
    for _ in 0..nl {
        let c = NAMECH[r.below(NAMECH.len() as u64 - 1) as usize]; // '#' excluded here (last entry)
        out.push(c as char);
    }
    if depth > 0 && r.chance(3, 5) {
        let curly = r.chance(1, 4);
        out.push(if curly { '{' } else { '(' });
        let k = 1 + r.below(4);
        for i in 0..k {
            if i > 0 {
                out.push(',');
            }
            gen_tree(r, depth - 1, out);
        }
        out.push(if curly { '}' } else { ')' });
    }
}

pub fn run(seed: u64, tier: &str) {
    let thorough = tier == "thorough";
    let mut r = Rng(seed ^ 0x7233);
    let mut cases: Vec<String> = Vec::new();
    let mut kinds: Vec<&'static str> = Vec::new();
    let push = |cases: &mut Vec<String>, kinds: &mut Vec<&'static str>, s: String, k: &'static str| {
        cases.push(s);
        kinds.push(k);
    };
    // (c) every string over {a ( ) { } ,} up to length 5 (6 in the thorough tier)
    let alpha = ['a', '(', ')', '{', '}', ','];
    let maxlen = if thorough { 6 } else { 5 };
    for len in 0..=maxlen {
        let total = 6usize.pow(len as u32);
        for mut k in 0..total {
            let mut s = String::new();
            for _ in 0..len {
                s.push(alpha[k % 6]);
                k /= 6;
            }
            push(&mut cases, &mut kinds, s, "exhaustive-small");
        }
    }
    // (a) printed random trees, (b) edits, (e) checksummed / corrupted
    let n_trees = if thorough { 1500 } else { 500 };
    for _ in 0..n_trees {
        let mut s = String::new();
        let depth = r.below(7) as u32;
        gen_tree(&mut r, depth, &mut s);
        push(&mut cases, &mut kinds, s.clone(), "printed-tree");
        // structural edits
        for _ in 0..2 {
            let mut v: Vec<char> = s.chars().collect();
            let structural = ['(', ')', '{', '}', ',', 'q', '#'];
            match r.below(3) {
                0 if !v.is_empty() => {
                    let p = r.below(v.len() as u64) as usize;
                    v[p] = *r.pick(&structural);
                }
                1 => {
                    let p = r.below(v.len() as u64 + 1) as usize;
                    v.insert(p, *r.pick(&structural));
                }
                _ if !v.is_empty() => {
                    let p = r.below(v.len() as u64) as usize;
                    v.remove(p);
                }
                _ => {}
            }
            push(&mut cases, &mut kinds, v.into_iter().collect(), "edited-tree");
        }
        if r.chance(1, 3) {
            if let Some(ck) = super::ck::checksum_of(&s) {
                let good = format!("{}#{}", s, ck);
                push(&mut cases, &mut kinds, good.clone(), "checksummed");
                let mut v: Vec<char> = good.chars().collect();
                let p = r.below(v.len() as u64) as usize;
                v[p] = if v[p] == 'q' { 'p' } else { 'q' };
                push(&mut cases, &mut kinds, v.into_iter().collect(), "checksum-corrupted");
            }
        }
    }
    // (d) deep nesting around the limit, wide nodes, odd characters
    for d in [1usize, 2, 100, 401, 402, 403, 404, 600] {
        let s = format!("{}b{}", "a(".repeat(d), ")".repeat(d));
        push(&mut cases, &mut kinds, s, "deep");
        let s = format!("{}b{}", "{".repeat(d), "}".repeat(d));
        push(&mut cases, &mut kinds, s, "deep");
    }
    push(&mut cases, &mut kinds, format!("{}b", "a(".repeat(403)), "deep");
    push(&mut cases, &mut kinds, format!("m({})", vec!["k"; 1500].join(",")), "wide");
    push(&mut cases, &mut kinds, format!("({})", ",".repeat(800)), "wide");
    for s in ["a\tb", "a(\u{e9})", "pk(\u{20ac},b)", "a(b)\n", "\u{7f}"] {
        push(&mut cases, &mut kinds, s.to_string(), "non-alphabet");
    }
    // emit
    let mut out = String::new();
    out.push_str("(* GENERATED by `verif-harness text tree` from the compiled library; do not edit. *)\n");
    out.push_str("From Coq Require Import List Uint63.\nImport ListNotations.\nLocal Open Scope uint63_scope.\n");
    let mut parts = Vec::new();
    let mut hist: std::collections::BTreeMap<String, usize> = Default::default();
    let mut khist: std::collections::BTreeMap<&str, usize> = Default::default();
    let mut samples = Vec::new();
    for (ci, chunk) in cases.chunks(150).enumerate() {
        let pn = format!("tree_cases_p{}", ci);
        let _ = write!(out, "Definition {} : list (list int * list int) := [", pn);
        for (j, s) in chunk.iter().enumerate() {
            if j > 0 {
                out.push(';');
            }
            let obs = observe(s);
            let key = match obs[0] {
                0 => "ok".to_string(),
                1 => format!("err{}", obs[1]),
                2 => "panic".to_string(),
                _ => "inconsistent".to_string(),
            };
            *hist.entry(key).or_default() += 1;
            if samples.len() < 6 && s.len() > 6 && s.len() < 40 && (ci * 150 + j) % 97 == 0 {
                samples.push(format!("{:?} -> {:?}", s, &obs[..obs.len().min(12)]));
            }
            let _ = write!(out, "({}, [", super::coq_case(0, s.as_bytes()));
            for (k, x) in obs.iter().enumerate() {
                if k > 0 {
                    out.push(';');
                }
                let _ = write!(out, "{}", x);
            }
            out.push_str("])");
        }
        out.push_str("].\n");
        parts.push(pn);
    }
    for k in &kinds {
        *khist.entry(k).or_default() += 1;
    }
    let _ = writeln!(out, "Definition tree_cases : list (list int * list int) := {}.", parts.join(" ++ "));
    print!("{}", out);
    eprintln!("TREE cases={} kinds={:?} outcomes={:?}", cases.len(), khist, hist);
    for s in samples {
        eprintln!("TREESAMPLE {}", s);
    }
}

/// Replay helper: observe every line of a file.
pub fn observe_file(path: Option<&str>) {
    let text = path.map(|p| std::fs::read_to_string(p).unwrap_or_default()).unwrap_or_default();
    for line in text.lines() {
        let obs = observe(line);
        println!("TREEOBS {:?} {}", obs, line);
    }
}
