//! Shared AST utilities: deterministic key/preimage world, type-directed random
//! generator building ASTs bottom-up with `Miniscript::from_ast`, and a canonical
//! prefix-token dump of `Terminal` trees (independent of the library's Display).
use bitcoin::hashes::{hash160, ripemd160, sha256, Hash};
use bitcoin::secp256k1::{Secp256k1, SecretKey};
use miniscript::miniscript::ScriptContext;
use miniscript::{
    hash256, AbsLockTime, DefiniteDescriptorKey, Miniscript, RelLockTime, Terminal, Threshold,
};
use std::str::FromStr;
use std::sync::Arc;

pub type Key = DefiniteDescriptorKey;

pub struct Rng(pub u64);
impl Rng {
    pub fn next(&mut self) -> u64 {
        self.0 = self.0.wrapping_add(0x9E3779B97F4A7C15);
        let mut z = self.0;
        z = (z ^ (z >> 30)).wrapping_mul(0xBF58476D1CE4E5B9);
        z = (z ^ (z >> 27)).wrapping_mul(0x94D049BB133111EB);
        z ^ (z >> 31)
    }
    pub fn below(&mut self, n: u64) -> u64 { self.next() % n }
    pub fn chance(&mut self, num: u64, den: u64) -> bool { self.below(den) < num }
}

pub const N_KEYS: usize = 8; // 0..5 compressed; 6,7 uncompressed (Bare/Legacy only)
pub const N_PRE: usize = 4;

pub struct World {
    pub secp: Secp256k1<bitcoin::secp256k1::All>,
    pub sks: Vec<SecretKey>,
    pub pks: Vec<bitcoin::PublicKey>,
    pub preimages: Vec<[u8; 32]>,
}

impl World {
    pub fn new() -> Self {
        let secp = Secp256k1::new();
        let mut sks = Vec::new();
        let mut pks = Vec::new();
        for i in 0..N_KEYS {
            let h = sha256::Hash::hash(format!("verif key {}", i).as_bytes());
            let sk = SecretKey::from_slice(h.as_byte_array()).unwrap();
            let pk = bitcoin::secp256k1::PublicKey::from_secret_key(&secp, &sk);
            let pk = bitcoin::PublicKey { inner: pk, compressed: i < 6 };
            sks.push(sk);
            pks.push(pk);
        }
        let preimages = (0..N_PRE)
            .map(|j| *sha256::Hash::hash(format!("verif preimage {}", j).as_bytes()).as_byte_array())
            .collect();
        World { secp, sks, pks, preimages }
    }
    /// descriptor key for index i; x-only form in Tap
    pub fn key(&self, i: usize, tap: bool) -> Key {
        // in Tap, odd-numbered keys are written in their 33-byte form (the library treats them
        // as x-only ones), even-numbered keys as x-only
        let s = if tap && i % 2 == 0 {
            let (x, _) = self.pks[i].inner.x_only_public_key();
            format!("{}", x)
        } else if tap {
            let mut pk = self.pks[i];
            pk.compressed = true;
            format!("{}", pk)
        } else {
            format!("{}", self.pks[i])
        };
        Key::from_str(&s).unwrap()
    }
    pub fn key_index(&self, k: &Key) -> usize {
        use miniscript::ToPublicKey;
        let x = k.to_x_only_pubkey();
        for i in 0..N_KEYS {
            if self.pks[i].inner.x_only_public_key().0 == x {
                return i;
            }
        }
        panic!("unknown key {}", k)
    }
    /// bytes pushed in the script for key i in the given context
    pub fn key_bytes(&self, i: usize, tap: bool) -> Vec<u8> {
        if tap {
            self.pks[i].inner.x_only_public_key().0.serialize().to_vec()
        } else {
            self.pks[i].to_bytes()
        }
    }
    pub fn sha256_img(&self, j: usize) -> sha256::Hash { sha256::Hash::hash(&self.preimages[j]) }
    pub fn hash256_img(&self, j: usize) -> hash256::Hash { hash256::Hash::hash(&self.preimages[j]) }
    pub fn ripemd160_img(&self, j: usize) -> ripemd160::Hash {
        ripemd160::Hash::hash(&self.preimages[j])
    }
    pub fn hash160_img(&self, j: usize) -> hash160::Hash { hash160::Hash::hash(&self.preimages[j]) }
}

pub fn hex(b: &[u8]) -> String {
    let mut s = String::with_capacity(b.len() * 2);
    for x in b {
        s.push_str(&format!("{:02x}", x));
    }
    if s.is_empty() {
        s.push('-');
    }
    s
}

/// Canonical prefix-token dump of a Terminal tree. Keys as indices into the World.
pub fn dump<Ctx: ScriptContext>(w: &World, t: &Terminal<Key, Ctx>, out: &mut Vec<String>) {
    let keys = |th: &[Key], out: &mut Vec<String>| {
        for k in th {
            out.push(w.key_index(k).to_string());
        }
    };
    match t {
        Terminal::True => out.push("1".into()),
        Terminal::False => out.push("0".into()),
        Terminal::PkK(k) => {
            out.push("pk_k".into());
            out.push(w.key_index(k).to_string())
        }
        Terminal::PkH(k) => {
            out.push("pk_h".into());
            out.push(w.key_index(k).to_string())
        }
        Terminal::RawPkH(h) => {
            out.push("raw_pk_h".into());
            out.push(hex(h.as_byte_array()))
        }
        Terminal::After(t) => {
            out.push("after".into());
            out.push(t.to_consensus_u32().to_string())
        }
        Terminal::Older(t) => {
            out.push("older".into());
            out.push(t.to_consensus_u32().to_string())
        }
        Terminal::Sha256(h) => {
            out.push("sha256".into());
            out.push(hex(h.as_byte_array()))
        }
        Terminal::Hash256(h) => {
            out.push("hash256".into());
            out.push(hex(h.as_byte_array()))
        }
        Terminal::Ripemd160(h) => {
            out.push("ripemd160".into());
            out.push(hex(h.as_byte_array()))
        }
        Terminal::Hash160(h) => {
            out.push("hash160".into());
            out.push(hex(h.as_byte_array()))
        }
        Terminal::Alt(x) => {
            out.push("a".into());
            dump(w, &x.node, out)
        }
        Terminal::Swap(x) => {
            out.push("s".into());
            dump(w, &x.node, out)
        }
        Terminal::Check(x) => {
            out.push("c".into());
            dump(w, &x.node, out)
        }
        Terminal::DupIf(x) => {
            out.push("d".into());
            dump(w, &x.node, out)
        }
        Terminal::Verify(x) => {
            out.push("v".into());
            dump(w, &x.node, out)
        }
        Terminal::NonZero(x) => {
            out.push("j".into());
            dump(w, &x.node, out)
        }
        Terminal::ZeroNotEqual(x) => {
            out.push("n".into());
            dump(w, &x.node, out)
        }
        Terminal::AndV(x, y) => {
            out.push("and_v".into());
            dump(w, &x.node, out);
            dump(w, &y.node, out)
        }
        Terminal::AndB(x, y) => {
            out.push("and_b".into());
            dump(w, &x.node, out);
            dump(w, &y.node, out)
        }
        Terminal::AndOr(a, b, c) => {
            out.push("andor".into());
            dump(w, &a.node, out);
            dump(w, &b.node, out);
            dump(w, &c.node, out)
        }
        Terminal::OrB(x, y) => {
            out.push("or_b".into());
            dump(w, &x.node, out);
            dump(w, &y.node, out)
        }
        Terminal::OrD(x, y) => {
            out.push("or_d".into());
            dump(w, &x.node, out);
            dump(w, &y.node, out)
        }
        Terminal::OrC(x, y) => {
            out.push("or_c".into());
            dump(w, &x.node, out);
            dump(w, &y.node, out)
        }
        Terminal::OrI(x, y) => {
            out.push("or_i".into());
            dump(w, &x.node, out);
            dump(w, &y.node, out)
        }
        Terminal::Thresh(th) => {
            out.push("thresh".into());
            out.push(th.k().to_string());
            out.push(th.n().to_string());
            for x in th.iter() {
                dump(w, &x.node, out);
            }
        }
        Terminal::Multi(th) => {
            out.push("multi".into());
            out.push(th.k().to_string());
            out.push(th.n().to_string());
            keys(th.data(), out)
        }
        Terminal::SortedMulti(th) => {
            out.push("sortedmulti".into());
            out.push(th.k().to_string());
            out.push(th.n().to_string());
            keys(th.data(), out)
        }
        Terminal::MultiA(th) => {
            out.push("multi_a".into());
            out.push(th.k().to_string());
            out.push(th.n().to_string());
            keys(th.data(), out)
        }
        Terminal::SortedMultiA(th) => {
            out.push("sortedmulti_a".into());
            out.push(th.k().to_string());
            out.push(th.n().to_string());
            keys(th.data(), out)
        }
    }
}

pub fn dump_str<Ctx: ScriptContext>(w: &World, t: &Terminal<Key, Ctx>) -> String {
    let mut v = Vec::new();
    dump(w, t, &mut v);
    v.join(" ")
}

#[derive(Copy, Clone, PartialEq, Eq, Debug)]
pub enum B {
    B,
    V,
    K,
    W,
}

/// What the generator may use in a context
#[derive(Copy, Clone)]
pub struct CtxInfo {
    pub tap: bool,
    pub legacy_like: bool, // Bare/Legacy: no d:, or_i under MINIMALIF rules (check_global rejects)
    pub n_keys: usize,     // keys 0..n_keys usable
}

pub struct Gen<'a> {
    pub w: &'a World,
    pub rng: Rng,
    pub ci: CtxInfo,
    pub next_key: usize, // rotate keys so that duplicates are rare but possible
    pub dup_keys: bool,
    pub abs_pool: Vec<u32>,
    pub rel_pool: Vec<u32>,
}

type Ms<Ctx> = Miniscript<Key, Ctx>;

impl<'a> Gen<'a> {
    pub fn new(w: &'a World, seed: u64, ci: CtxInfo) -> Self {
        Gen { w, rng: Rng(seed), ci, next_key: 0, dup_keys: false, abs_pool: Vec::new(), rel_pool: Vec::new() }
    }
    fn key(&mut self) -> Key {
        let i = if self.dup_keys && self.rng.chance(1, 3) {
            self.rng.below(self.ci.n_keys as u64) as usize
        } else {
            let i = self.next_key % self.ci.n_keys;
            self.next_key += 1;
            i
        };
        self.w.key(i, self.ci.tap)
    }
    fn abs(&mut self) -> AbsLockTime {
        // repeat an earlier value half of the time: equal locks on one path matter
        if !self.abs_pool.is_empty() && self.rng.chance(1, 2) {
            let v = self.abs_pool[self.rng.below(self.abs_pool.len() as u64) as usize];
            return AbsLockTime::from_consensus(v).unwrap();
        }
        let v = self.abs_fresh();
        self.abs_pool.push(v);
        AbsLockTime::from_consensus(v).unwrap()
    }
    fn abs_fresh(&mut self) -> u32 {
        match self.rng.below(6) {
            0 => 1,
            1 => 1 + self.rng.below(1000) as u32,
            2 => 499_999_999,
            3 => 500_000_000 + self.rng.below(1000) as u32,
            4 => 1 + self.rng.below(16) as u32,
            _ => 100 + self.rng.below(100_000) as u32,
        }
    }
    fn rel(&mut self) -> RelLockTime {
        if !self.rel_pool.is_empty() && self.rng.chance(1, 2) {
            let v = self.rel_pool[self.rng.below(self.rel_pool.len() as u64) as usize];
            return RelLockTime::from_consensus(v).unwrap();
        }
        let v = self.rel_fresh();
        self.rel_pool.push(v);
        RelLockTime::from_consensus(v).unwrap()
    }
    fn rel_fresh(&mut self) -> u32 {
        match self.rng.below(9) {
            0 => 1,
            1 => 1 + self.rng.below(16) as u32,
            2 => 65535,
            3 => 0x400000 | (1 + self.rng.below(1000) as u32),
            4 => 0x400000 | 65535,
            // values with bits BIP 68 does not read (16..21, 23..30): older(65541) is 5 blocks
            5 => (1 << (16 + self.rng.below(6) as u32)) | (1 + self.rng.below(20) as u32),
            6 => [0x10000u32, 0x20000, 0x7fbf0000, 0x7fbf0000 | 7, 0x400000 | 0x10000 | 3][self.rng.below(5) as usize],
            _ => 1 + self.rng.below(65535) as u32,
        }
    }
    fn leaf_b<Ctx: ScriptContext>(&mut self) -> Option<Ms<Ctx>> {
        let t: Terminal<Key, Ctx> = match self.rng.below(16) {
            0 => Terminal::True,
            1 => Terminal::False,
            2 | 3 => {
                if self.rng.chance(1, 40) {
                    // a lock value the constructors must refuse (0, 2^31): generated only if accepted
                    let v = if self.rng.chance(1, 2) { 0 } else { 0x8000_0000 };
                    match AbsLockTime::from_consensus(v) {
                        Ok(t) => Terminal::After(t),
                        Err(_) => Terminal::After(self.abs()),
                    }
                } else {
                    Terminal::After(self.abs())
                }
            }
            4 | 5 => {
                if self.rng.chance(1, 40) {
                    let v = if self.rng.chance(1, 2) { 0 } else { 0x8000_0000 };
                    match RelLockTime::from_consensus(v) {
                        Ok(t) => Terminal::Older(t),
                        Err(_) => Terminal::Older(self.rel()),
                    }
                } else {
                    Terminal::Older(self.rel())
                }
            }
            6 => Terminal::Sha256(self.w.sha256_img(self.rng.below(N_PRE as u64) as usize)),
            7 => Terminal::Hash256(self.w.hash256_img(self.rng.below(N_PRE as u64) as usize)),
            8 => Terminal::Ripemd160(self.w.ripemd160_img(self.rng.below(N_PRE as u64) as usize)),
            9 => Terminal::Hash160(self.w.hash160_img(self.rng.below(N_PRE as u64) as usize)),
            10 | 11 => {
                let n = 1 + self.rng.below(4) as usize;
                let k = 1 + self.rng.below(n as u64) as usize;
                let keys: Vec<Key> = (0..n).map(|_| self.key()).collect();
                let sorted = self.rng.chance(1, 3);
                // now and then try the multisig flavour the context forbids: it must be rejected
                let wrong_flavour = self.rng.chance(1, 5);
                if self.ci.tap != wrong_flavour {
                    let th = Threshold::new(k, keys).ok()?;
                    if sorted {
                        Terminal::SortedMultiA(th)
                    } else {
                        Terminal::MultiA(th)
                    }
                } else {
                    let th = Threshold::new(k, keys).ok()?;
                    if sorted {
                        Terminal::SortedMulti(th)
                    } else {
                        Terminal::Multi(th)
                    }
                }
            }
            _ => {
                let k = self.gen::<Ctx>(B::K, 0)?;
                Terminal::Check(Arc::new(k))
            }
        };
        Miniscript::from_ast(t).ok()
    }

    /// Generate a miniscript of base type `b` with at most `depth` levels below.
    pub fn gen<Ctx: ScriptContext>(&mut self, b: B, depth: u32) -> Option<Ms<Ctx>> {
        for _attempt in 0..6 {
            if let Some(m) = self.try_gen::<Ctx>(b, depth) {
                return Some(m);
            }
        }
        // guaranteed fallbacks
        let pk = Miniscript::from_ast(Terminal::PkK(self.key())).ok()?;
        match b {
            B::K => Some(pk),
            B::B => Miniscript::from_ast(Terminal::Check(Arc::new(pk))).ok(),
            B::V => {
                let c = Miniscript::from_ast(Terminal::Check(Arc::new(pk))).ok()?;
                Miniscript::from_ast(Terminal::Verify(Arc::new(c))).ok()
            }
            B::W => {
                let c = Miniscript::from_ast(Terminal::Check(Arc::new(pk))).ok()?;
                Miniscript::from_ast(Terminal::Alt(Arc::new(c))).ok()
            }
        }
    }

    fn try_gen<Ctx: ScriptContext>(&mut self, b: B, depth: u32) -> Option<Ms<Ctx>> {
        let d = depth.saturating_sub(1);
        let a = |m: Ms<Ctx>| Arc::new(m);
        let t: Terminal<Key, Ctx> = match b {
            B::K => match if depth == 0 { self.rng.below(2) } else { self.rng.below(6) } {
                0 => Terminal::PkK(self.key()),
                1 => Terminal::PkH(self.key()),
                2 | 3 => Terminal::AndV(a(self.gen(B::V, d)?), a(self.gen(B::K, d)?)),
                4 => Terminal::OrI(a(self.gen(B::K, d)?), a(self.gen(B::K, d)?)),
                _ => Terminal::AndOr(a(self.gen(B::B, d)?), a(self.gen(B::K, d)?), a(self.gen(B::K, d)?)),
            },
            B::W => match self.rng.below(2) {
                0 => Terminal::Alt(a(self.gen(B::B, depth)?)),
                _ => Terminal::Swap(a(self.gen(B::B, depth)?)),
            },
            B::V => match if depth == 0 { 0 } else { self.rng.below(8) } {
                0 | 1 | 2 => Terminal::Verify(a(self.gen(B::B, d)?)),
                3 | 4 => Terminal::AndV(a(self.gen(B::V, d)?), a(self.gen(B::V, d)?)),
                5 => Terminal::OrC(a(self.gen(B::B, d)?), a(self.gen(B::V, d)?)),
                6 => Terminal::OrI(a(self.gen(B::V, d)?), a(self.gen(B::V, d)?)),
                _ => Terminal::AndOr(a(self.gen(B::B, d)?), a(self.gen(B::V, d)?), a(self.gen(B::V, d)?)),
            },
            B::B => {
                if depth == 0 {
                    return self.leaf_b();
                }
                match self.rng.below(20) {
                    0 | 1 | 2 => return self.leaf_b(),
                    3 => Terminal::DupIf(a(self.gen(B::V, d)?)),
                    4 => Terminal::NonZero(a(self.gen(B::B, d)?)),
                    5 => Terminal::ZeroNotEqual(a(self.gen(B::B, d)?)),
                    6 | 7 => Terminal::AndV(a(self.gen(B::V, d)?), a(self.gen(B::B, d)?)),
                    8 | 9 => Terminal::AndB(a(self.gen(B::B, d)?), a(self.gen(B::W, d)?)),
                    10 | 11 => Terminal::OrB(a(self.gen(B::B, d)?), a(self.gen(B::W, d)?)),
                    12 | 13 => Terminal::OrD(a(self.gen(B::B, d)?), a(self.gen(B::B, d)?)),
                    14 | 15 => Terminal::OrI(a(self.gen(B::B, d)?), a(self.gen(B::B, d)?)),
                    16 | 17 => Terminal::AndOr(a(self.gen(B::B, d)?), a(self.gen(B::B, d)?), a(self.gen(B::B, d)?)),
                    _ => {
                        let n = 1 + self.rng.below(4) as usize;
                        let k = 1 + self.rng.below(n as u64) as usize;
                        let mut subs = vec![a(self.gen(B::B, d)?)];
                        for _ in 1..n {
                            subs.push(a(self.gen(B::W, d)?));
                        }
                        Terminal::Thresh(Threshold::new(k, subs).ok()?)
                    }
                }
            }
        };
        Miniscript::from_ast(t).ok()
    }
}
