//! `ext` engine (C09): static size / resource figures.
//!  R lines: every public `ExtData::*` rule function on seeded random plain data (incl. `None`s,
//!           zeros, values near the usize limits), result or PANIC.
//!  T lines: generated + directed miniscripts in the four contexts: `ms.ext` field by field,
//!           `script_size`, `encode().len()`, `max_satisfaction_size`, `max_satisfaction_witness_elements`.
//!  D/L/S/P lines: generated descriptors (machinery of the `sat` engine), `max_weight_to_satisfy`,
//!           and for every satisfaction / plan the implementation produces under asset subsets the
//!           MEASURED sizes (computed here from the raw bytes, never through miniscript).
use crate::ast::*;
use crate::sat::{key_masks, lock_envs, make_case, sign_case, spend_tx, Assets, Case, TxEnv};
use bitcoin::script::Instruction;
use bitcoin::secp256k1::Message;
use bitcoin::sighash::EcdsaSighashType;
use bitcoin::{absolute, Amount, ScriptBuf, Sequence};
use miniscript::miniscript::types::extra_props::{ExtData, SatData, TimelockInfo};
use miniscript::miniscript::ScriptContext;
use miniscript::{AbsLockTime, BareCtx, Descriptor, Legacy, Miniscript, RelLockTime, Segwitv0, Tap, Threshold};
use std::fmt::Write as _;
use std::panic::{catch_unwind, AssertUnwindSafe};

// ------------------------------------------------------------------ printing
fn sd_str(d: &Option<SatData>) -> String {
    match d {
        None => "N".into(),
        Some(d) => format!(
            "S:{}:{}:{}:{}:{}",
            d.max_witness_stack_size, d.max_witness_stack_count, d.max_script_sig_size, d.max_exec_stack_count, d.max_exec_op_count
        ),
    }
}
fn tl_str(t: &TimelockInfo) -> String {
    format!(
        "{}{}{}{}{}",
        t.csv_with_height as u8, t.csv_with_time as u8, t.cltv_with_height as u8, t.cltv_with_time as u8, t.contains_combination as u8
    )
}
pub fn ext_str(e: &ExtData) -> String {
    format!(
        "{} {} {} {} {} {} {}",
        e.pk_cost, e.has_free_verify as u8, e.static_ops, sd_str(&e.sat_data), sd_str(&e.dissat_data), tl_str(&e.timelock_info), e.tree_height
    )
}
fn res_str(r: std::thread::Result<ExtData>) -> String {
    match r {
        Ok(e) => ext_str(&e),
        Err(_) => "PANIC".into(),
    }
}

// ------------------------------------------------------------------ random plain data
fn rand_usize(rng: &mut Rng, profile: u64) -> usize {
    match profile {
        0 => rng.below(40) as usize,
        1 => match rng.below(4) {
            0 => 0,
            1 => rng.below(8) as usize,
            2 => rng.below(600) as usize,
            _ => rng.below(100_000) as usize,
        },
        2 => ((1u64 << 57) - 5 + rng.below(10)) as usize,
        _ => match rng.below(3) {
            0 => usize::MAX - rng.below(4) as usize,
            1 => (usize::MAX / 2) - 2 + rng.below(5) as usize,
            _ => rng.below(50) as usize,
        },
    }
}
fn rand_sd(rng: &mut Rng, profile: u64) -> Option<SatData> {
    if rng.chance(1, 5) {
        return None;
    }
    // per-field profile so that sat < dissat and ties both occur
    let f = |rng: &mut Rng| {
        let p = if profile == 9 { if rng.chance(1, 3) { 3 } else { 1 } } else { profile };
        rand_usize(rng, p)
    };
    Some(SatData {
        max_witness_stack_size: f(rng),
        max_witness_stack_count: f(rng),
        max_script_sig_size: f(rng),
        max_exec_stack_count: f(rng),
        max_exec_op_count: f(rng),
    })
}
/// profile: 0 small, 1 mixed, 2 large but summable (threshold-safe), 3 huge scalar fields only,
/// 9 huge anywhere (non-threshold rules)
fn rand_ext(rng: &mut Rng, profile: u64) -> ExtData {
    let (scalar_p, sd_p) = match profile {
        0 => (0, 0),
        1 => (1, 1),
        2 => (2, 2),
        3 => (3, 1),
        _ => (3, 9),
    };
    let b = |rng: &mut Rng| rng.chance(1, 3);
    ExtData {
        pk_cost: rand_usize(rng, scalar_p).max(if profile <= 1 { 1 } else { 0 }),
        has_free_verify: rng.chance(1, 2),
        static_ops: rand_usize(rng, scalar_p),
        sat_data: rand_sd(rng, sd_p),
        dissat_data: rand_sd(rng, sd_p),
        timelock_info: TimelockInfo {
            csv_with_height: b(rng),
            csv_with_time: b(rng),
            cltv_with_height: b(rng),
            cltv_with_time: b(rng),
            contains_combination: rng.chance(1, 6),
        },
        tree_height: rand_usize(rng, scalar_p),
    }
}

fn rules(seed: u64, n: u64) {
    let w = World::new();
    let mut rng = Rng(seed ^ 0xE87);
    let mut out = String::new();
    // constants and leaves
    for (name, e) in [
        ("FALSE", ExtData::FALSE),
        ("TRUE", ExtData::TRUE),
        ("sha256", ExtData::sha256()),
        ("hash256", ExtData::hash256()),
        ("ripemd160", ExtData::ripemd160()),
        ("hash160", ExtData::hash160()),
    ] {
        writeln!(out, "R const {} => {}", name, ext_str(&e)).unwrap();
    }
    for ki in 0..N_KEYS {
        for tapkey in [false, true] {
            let k = w.key(ki, tapkey);
            let kt = tapkey as u8;
            writeln!(out, "R pk_k bare {} {} => {}", ki, kt, res_str(catch_unwind(|| ExtData::pk_k::<Key, BareCtx>(&k)))).unwrap();
            writeln!(out, "R pk_k legacy {} {} => {}", ki, kt, res_str(catch_unwind(|| ExtData::pk_k::<Key, Legacy>(&k)))).unwrap();
            writeln!(out, "R pk_k segwitv0 {} {} => {}", ki, kt, res_str(catch_unwind(|| ExtData::pk_k::<Key, Segwitv0>(&k)))).unwrap();
            writeln!(out, "R pk_k tap {} {} => {}", ki, kt, res_str(catch_unwind(|| ExtData::pk_k::<Key, Tap>(&k)))).unwrap();
            writeln!(out, "R pk_h bare {} {} => {}", ki, kt, res_str(catch_unwind(|| ExtData::pk_h::<Key, BareCtx>(Some(&k))))).unwrap();
            writeln!(out, "R pk_h legacy {} {} => {}", ki, kt, res_str(catch_unwind(|| ExtData::pk_h::<Key, Legacy>(Some(&k))))).unwrap();
            writeln!(out, "R pk_h segwitv0 {} {} => {}", ki, kt, res_str(catch_unwind(|| ExtData::pk_h::<Key, Segwitv0>(Some(&k))))).unwrap();
            writeln!(out, "R pk_h tap {} {} => {}", ki, kt, res_str(catch_unwind(|| ExtData::pk_h::<Key, Tap>(Some(&k))))).unwrap();
        }
    }
    writeln!(out, "R pk_h bare - 0 => {}", res_str(catch_unwind(|| ExtData::pk_h::<Key, BareCtx>(None)))).unwrap();
    writeln!(out, "R pk_h legacy - 0 => {}", res_str(catch_unwind(|| ExtData::pk_h::<Key, Legacy>(None)))).unwrap();
    writeln!(out, "R pk_h segwitv0 - 0 => {}", res_str(catch_unwind(|| ExtData::pk_h::<Key, Segwitv0>(None)))).unwrap();
    writeln!(out, "R pk_h tap - 0 => {}", res_str(catch_unwind(|| ExtData::pk_h::<Key, Tap>(None)))).unwrap();
    // locks: break points of script_num_size and of the unit tests
    let mut abs_vals: Vec<u32> = vec![1, 16, 17, 127, 128, 32767, 32768, 8388607, 8388608, 499_999_999, 500_000_000, 500_000_001, 2147483647, 2147483648, 4294967295];
    let mut rel_vals: Vec<u32> = vec![1, 16, 17, 127, 128, 32767, 32768, 65535, 0x400000, 0x400001, 0x40ffff, 0x410000 | 5, 0x7fffffff];
    for _ in 0..20 {
        abs_vals.push(rng.next() as u32);
        rel_vals.push((rng.next() as u32) & 0x7fffffff);
    }
    for t in abs_vals {
        if let Ok(l) = AbsLockTime::from_consensus(t) {
            writeln!(out, "R after {} => {}", t, res_str(catch_unwind(|| ExtData::after(l)))).unwrap();
        }
    }
    for t in rel_vals {
        if let Ok(l) = RelLockTime::from_consensus(t) {
            writeln!(out, "R older {} => {}", t, res_str(catch_unwind(|| ExtData::older(l)))).unwrap();
        }
    }
    // multi / sortedmulti on key lists (uncompressed keys included), every k
    for n in 1..=20usize {
        for rep in 0..2 {
            let idx: Vec<usize> = (0..n).map(|j| if rep == 0 { j % 6 } else { rng.below(N_KEYS as u64) as usize }).collect();
            let keys: Vec<Key> = idx.iter().map(|&i| w.key(i, false)).collect();
            for k in [1, (n + 1) / 2, n, 16.min(n), 17.min(n)] {
                if let Ok(th) = Threshold::<Key, 20>::new(k, keys.clone()) {
                    let ks: Vec<String> = idx.iter().map(|i| i.to_string()).collect();
                    writeln!(out, "R multi {} {} {} => {}", k, n, ks.join(" "), res_str(catch_unwind(|| ExtData::multi(&th)))).unwrap();
                    writeln!(out, "R sortedmulti {} {} {} => {}", k, n, ks.join(" "), res_str(catch_unwind(|| ExtData::sortedmulti(&th)))).unwrap();
                }
            }
        }
    }
    // multi_a(k, n) on plain numbers
    let mut kn: Vec<(usize, usize)> = vec![(0, 0), (1, 0), (0, 1), (1, 1), (2, 1), (16, 16), (16, 17), (17, 17), (17, 16), (999, 999), (1, 999)];
    kn.push((usize::MAX, usize::MAX));
    kn.push((1, usize::MAX));
    kn.push((1, usize::MAX / 33));
    kn.push((1, usize::MAX / 33 + 1));
    kn.push((usize::MAX / 66, usize::MAX / 66));
    kn.push((usize::MAX / 66 + 1, usize::MAX / 66 + 1));
    for _ in 0..40 {
        let n = rand_usize(&mut rng, 1);
        let k = if rng.chance(1, 4) { rand_usize(&mut rng, 1) } else { rng.below(n as u64 + 1) as usize };
        kn.push((k, n));
    }
    for (k, n) in kn {
        writeln!(out, "R multi_a {} {} => {}", k, n, res_str(catch_unwind(|| ExtData::multi_a(k, n)))).unwrap();
        writeln!(out, "R sortedmulti_a {} {} => {}", k, n, res_str(catch_unwind(|| ExtData::sortedmulti_a(k, n)))).unwrap();
    }
    // random rule applications
    for c in 0..n {
        let profile = match c % 10 {
            0 | 1 | 2 => 0,
            3 | 4 | 5 | 6 => 1,
            7 => 2,
            8 => 3,
            _ => 9,
        };
        let a = rand_ext(&mut rng, profile);
        let b = rand_ext(&mut rng, profile);
        let d = rand_ext(&mut rng, profile);
        let (sa, sb, sdd) = (ext_str(&a), ext_str(&b), ext_str(&d));
        macro_rules! un {
            ($name:ident) => {
                writeln!(out, "R {} {} => {}", stringify!($name), sa, res_str(catch_unwind(|| ExtData::$name(a)))).unwrap();
            };
        }
        macro_rules! bin {
            ($name:ident) => {
                writeln!(out, "R {} {} {} => {}", stringify!($name), sa, sb, res_str(catch_unwind(|| ExtData::$name(a, b)))).unwrap();
            };
        }
        match c % 4 {
            0 => {
                un!(cast_alt);
                un!(cast_swap);
                un!(cast_check);
                un!(cast_dupif);
                un!(cast_verify);
                un!(cast_nonzero);
                un!(cast_zeronotequal);
                un!(cast_true);
                un!(cast_unlikely);
                un!(cast_likely);
            }
            1 => {
                bin!(and_b);
                bin!(and_v);
                bin!(or_b);
                bin!(or_d);
                bin!(or_c);
                bin!(or_i);
            }
            2 => {
                writeln!(out, "R and_or {} {} {} => {}", sa, sb, sdd, res_str(catch_unwind(|| ExtData::and_or(a, b, d)))).unwrap();
            }
            _ => {
                // threshold: sat fields stay summable (profiles 0..3), k arbitrary
                let tp = if profile == 9 { 3 } else { profile };
                let nsub = match rng.below(8) {
                    0 => 0,
                    1 => 1,
                    _ => 1 + rng.below(7) as usize,
                };
                let subs: Vec<ExtData> = (0..nsub).map(|_| rand_ext(&mut rng, tp)).collect();
                let k = match rng.below(8) {
                    0 => 0,
                    1 => nsub,
                    2 => nsub + 1,
                    3 => usize::MAX,
                    4 => rand_usize(&mut rng, 1),
                    _ => 1 + rng.below(nsub.max(1) as u64) as usize,
                };
                let ss: Vec<String> = subs.iter().map(ext_str).collect();
                let r = catch_unwind(AssertUnwindSafe(|| ExtData::threshold(k, nsub, |i| subs[i])));
                writeln!(out, "R threshold {} {} {} => {}", k, nsub, ss.join(" "), res_str(r)).unwrap();
            }
        }
    }
    print!("{}", out);
}

// ------------------------------------------------------------------ miniscripts
fn ctx_name<Ctx: ScriptContext>() -> &'static str {
    match Ctx::name_str() {
        "Legacy/p2sh" => "legacy",
        "Segwitv0" => "segwitv0",
        "TapscriptCtx" => "tap",
        "BareCtx" => "bare",
        _ => "other",
    }
}

fn tree_line<Ctx: ScriptContext>(w: &World, m: &Miniscript<Key, Ctx>, origin: &str, out: &mut String) {
    let r = catch_unwind(AssertUnwindSafe(|| {
        let ss = m.script_size();
        let enc = m.encode().len();
        let mss = m.max_satisfaction_size().ok();
        let mse = m.max_satisfaction_witness_elements().ok();
        (ss, enc, mss, mse)
    }));
    let o = |x: Option<usize>| x.map(|v| v.to_string()).unwrap_or("-".into());
    match r {
        Ok((ss, enc, mss, mse)) => writeln!(
            out,
            "T {} {} | {} | {} | {} {} {} {}",
            ctx_name::<Ctx>(),
            origin,
            dump_str(w, &m.node),
            ext_str(&m.ext),
            ss,
            enc,
            o(mss),
            o(mse)
        )
        .unwrap(),
        Err(_) => writeln!(out, "T {} {} | {} | PANIC", ctx_name::<Ctx>(), origin, dump_str(w, &m.node)).unwrap(),
    }
}

/// directed corpus: `Kn` = key n, `H` = sha256 image 0; parsed without sanity checks
const CORPUS: &[&str] = &[
    // DESIGN 10-c: sat < dissat children make top-(k+1) an under-estimate
    "thresh(1,ln:older(1),aln:older(2),aln:older(3))",
    "and_v(v:pk(K0),thresh(1,ln:older(1),aln:older(2),aln:older(3)))",
    "thresh(2,ln:older(1),aln:older(2),aln:older(3),aln:older(4))",
    "thresh(1,pk(K0),s:pk(K1),s:pk(K2))",
    "thresh(2,pk(K0),s:pk(K1),s:pk(K2))",
    "thresh(3,pk(K0),s:pk(K1),s:pk(K2))",
    "thresh(2,pk(K0),a:sha256(H),sdv:older(3))",
    // seeded change C09-9: children that rank differently by witness bytes and by witness elements
    "thresh(2,pk(K0),s:pk(K1),ajt:and_v(v:sha256(H),v:sha256(H)))",
    "thresh(1,pk(K0),ajt:and_v(v:sha256(H),and_v(v:sha256(H),v:sha256(H))),s:pk(K1))",
    "or_d(pk(K0),and_v(v:pk(K1),older(100)))",
    "andor(pk(K0),older(10),pk(K1))",
    "or_i(and_v(v:pk(K0),pk(K1)),pk(K2))",
    "or_b(or_i(and_v(v:or_i(0,or_i(0,or_i(0,or_i(0,1)))),0),sha256(H)),s:pk(K3))",
    "or_d(c:pk_h(K0),dv:older(5))",
    "and_v(v:pk(K0),or_d(j:pk(K1),dv:after(9)))",
    "and_b(pk(K0),a:or_i(0,1))",
    "and_v(v:pk(K0),or_d(dv:older(5),dv:older(6)))",
    // accepted by the 520-byte P2SH check on ext.pk_cost although it encodes to more (uncompressed pk_k counted as 65)
    "and_v(v:pk(K6),and_v(v:pk(K7),and_v(v:pk(K6),and_v(v:pk(K7),and_v(v:pk(K6),and_v(v:pk(K7),and_v(v:pk(K6),and_v(v:older(1),and_v(v:older(2),and_v(v:older(3),and_v(v:older(4),and_v(v:after(65535),pk(K1)))))))))))))",
];

fn corpus_ms<Ctx: ScriptContext>(w: &World, tap: bool, s: &str) -> Option<Miniscript<Key, Ctx>> {
    let mut t = s.to_string();
    for i in (0..N_KEYS).rev() {
        t = t.replace(&format!("K{}", i), &format!("{}", w.key(i, tap)));
    }
    t = t.replace("(H)", &format!("({})", w.sha256_img(0)));
    let r = Miniscript::<Key, Ctx>::from_str_insane(&t);
    if let (Err(e), true) = (&r, std::env::var("VERIF_DEBUG").is_ok()) {
        eprintln!("corpus reject [{}] {}: {:?}", ctx_name::<Ctx>(), s, e);
    }
    r.ok()
}

/// Legacy scripts around the 520-byte P2SH limit, built bottom-up with `from_ast` (the path on which
/// only `check_global_validity`, i.e. the comparison of ext.pk_cost with the limit, decides).
fn near_limit(w: &World, out: &mut String) {
    use miniscript::Terminal as T;
    use std::sync::Arc;
    let ms = |t: T<Key, Legacy>| Miniscript::<Key, Legacy>::from_ast(t).ok();
    for n_unc in 5..=8usize {
        for n_old in 0..=6u32 {
            let build = || -> Option<Miniscript<Key, Legacy>> {
                let mut acc = ms(T::Check(Arc::new(ms(T::PkK(w.key(1, false)))?)))?;
                for j in 0..n_old {
                    let o = ms(T::Older(RelLockTime::from_consensus(j + 1).ok()?))?;
                    let v = ms(T::Verify(Arc::new(o)))?;
                    acc = ms(T::AndV(Arc::new(v), Arc::new(acc)))?;
                }
                for j in 0..n_unc {
                    let c = ms(T::Check(Arc::new(ms(T::PkK(w.key(6 + j % 2, false)))?)))?;
                    let v = ms(T::Verify(Arc::new(c)))?;
                    acc = ms(T::AndV(Arc::new(v), Arc::new(acc)))?;
                }
                Some(acc)
            };
            if let Ok(Some(m)) = catch_unwind(AssertUnwindSafe(build)) {
                tree_line(w, &m, "nearlimit", out);
            }
        }
    }
}

fn trees(seed: u64, n: u64) {
    let w = World::new();
    let mut out = String::new();
    near_limit(&w, &mut out);
    limit_cases(&w, &mut out);
    depth_cases(&w, &mut out);
    rawpkh_cases(&w, &mut out);
    translated_trees(&w, seed, n / 6, &mut out);
    for s in CORPUS {
        if let Some(m) = corpus_ms::<Segwitv0>(&w, false, s) {
            tree_line(&w, &m, "corpus", &mut out);
        }
        if let Some(m) = corpus_ms::<Tap>(&w, true, s) {
            tree_line(&w, &m, "corpus", &mut out);
        }
        let legacy_s = if s.contains("K6") { s.to_string() } else { s.replace("K0", "K6").replace("K1", "K7") };
        if let Some(m) = corpus_ms::<Legacy>(&w, false, &legacy_s) {
            tree_line(&w, &m, "corpus", &mut out);
        }
        if let Some(m) = corpus_ms::<BareCtx>(&w, false, s) {
            tree_line(&w, &m, "corpus", &mut out);
        }
    }
    for c in 0..n {
        let cseed = seed.wrapping_mul(7_000_003).wrapping_add(c);
        let depth = (c % 5) as u32;
        let base = match (c / 5) % 8 {
            0 => B::K,
            1 => B::V,
            2 => B::W,
            _ => B::B,
        };
        macro_rules! go {
            ($ctx:ty, $ci:expr) => {{
                let r = catch_unwind(AssertUnwindSafe(|| {
                    let mut g = Gen::new(&w, cseed, $ci);
                    g.dup_keys = c % 7 == 0;
                    g.gen::<$ctx>(base, depth)
                }));
                if let Ok(Some(m)) = r {
                    tree_line(&w, &m, "gen", &mut out);
                }
            }};
        }
        match c % 4 {
            0 => go!(Segwitv0, CtxInfo { tap: false, legacy_like: false, n_keys: 6 }),
            1 => go!(Legacy, CtxInfo { tap: false, legacy_like: true, n_keys: 8 }),
            2 => go!(BareCtx, CtxInfo { tap: false, legacy_like: true, n_keys: 8 }),
            _ => go!(Tap, CtxInfo { tap: true, legacy_like: false, n_keys: 5 }),
        }
        if out.len() > 1 << 16 {
            print!("{}", out);
            out.clear();
        }
    }
    print!("{}", out);
}

// ------------------------------------------------------------------ descriptors: measured sizes
fn varint(n: usize) -> usize {
    if n < 253 {
        1
    } else if n <= 0xffff {
        3
    } else if n <= 0xffff_ffff {
        5
    } else {
        9
    }
}
fn wit_ser(items: &[Vec<u8>]) -> usize { varint(items.len()) + items.iter().map(|i| varint(i.len()) + i.len()).sum::<usize>() }

/// ECDSA signature of maximal encoded length for a low-S signature (71-byte DER + sighash byte),
/// so that measured sizes are the worst case the 73-byte allowance is meant for.
fn grind_sig(w: &World, i: usize, msg: Message) -> bitcoin::ecdsa::Signature {
    let mut c: u32 = 0;
    loop {
        let mut nd = [0u8; 32];
        nd[..4].copy_from_slice(&c.to_le_bytes());
        let sig = w.secp.sign_ecdsa_with_noncedata(&msg, &w.sks[i], &nd);
        if sig.serialize_der().len() == 71 || c > 200 {
            return bitcoin::ecdsa::Signature { signature: sig, sighash_type: EcdsaSighashType::All };
        }
        c += 1;
    }
}

/// pushes of a scriptSig (None if it is not push-only)
fn pushes(s: &ScriptBuf) -> Option<Vec<Vec<u8>>> {
    let mut v = Vec::new();
    for ins in s.instructions() {
        match ins {
            Ok(Instruction::PushBytes(b)) => v.push(b.as_bytes().to_vec()),
            Ok(Instruction::Op(op)) => {
                let c = op.to_u8();
                if c == 0x4f {
                    v.push(vec![0x81]);
                } else if (0x51..=0x60).contains(&c) {
                    v.push(vec![c - 0x50]);
                } else {
                    return None;
                }
            }
            Err(_) => return None,
        }
    }
    Some(v)
}

/// ItemSize of src/util.rs re-derived here (the trait is crate-private)
fn item_size(p: &miniscript::miniscript::satisfy::Placeholder<Key>) -> usize {
    use miniscript::miniscript::satisfy::Placeholder as P;
    match p {
        P::Pubkey(_, sz) | P::PubkeyHash(_, sz) => *sz,
        P::EcdsaSigPk(_) | P::EcdsaSigPkHash(_) => 73,
        P::SchnorrSigPk(_, _, sz) | P::SchnorrSigPkHash(_, _, sz) => sz + 1,
        P::HashDissatisfaction | P::Sha256Preimage(_) | P::Hash256Preimage(_) | P::Ripemd160Preimage(_) | P::Hash160Preimage(_) => 33,
        P::PushOne => 2,
        P::PushZero => 1,
        P::TapScript(sc) => sc.len() + varint(sc.len()),
        P::TapControlBlock(cb) => {
            let l = cb.serialize().len();
            l + varint(l)
        }
    }
}

struct Measured {
    leaf: i64,        // tr: index of the leaf whose script is in the witness, -1 key spend; else 0
    n_inner: usize,   // items consumed by the miniscript itself
    inner_wsize: usize, // sum over those items of varint(len)+len (witness form)
    inner_ssig: usize,  // bytes of scriptSig pushing those items (legacy form), 0 for segwit
    wit_items: usize,
    wit_ser: usize,   // serialized witness incl. the count varint (0 if there is no witness)
    ssig_len: usize,
    weight: usize,    // 4*(varint(ssig)+ssig - 1) + (wit_ser - 1 or 0)
    script_item: usize, // varint(len)+len of the witness script / push size of the redeem script
}

fn measure(c: &Case, wit: &[Vec<u8>], ssig: &ScriptBuf) -> Option<Measured> {
    let ssig_len = ssig.len();
    let ws = if wit.is_empty() { 0 } else { wit_ser(wit) };
    let weight = 4 * (varint(ssig_len) + ssig_len - 1) + if wit.is_empty() { 0 } else { ws - 1 };
    let (leaf, inner, inner_ssig, script_item): (i64, Vec<Vec<u8>>, usize, usize) = match c.kind {
        "wsh" | "shwsh" => {
            let (sc, rest) = wit.split_last()?;
            (0, rest.to_vec(), 0, varint(sc.len()) + sc.len())
        }
        "sh" => {
            let p = pushes(ssig)?;
            let (sc, rest) = p.split_last()?;
            let sc_push = ScriptBuf::builder().push_slice(<&bitcoin::script::PushBytes>::try_from(sc.as_slice()).ok()?).into_script().len();
            (0, rest.to_vec(), ssig_len - sc_push, sc_push)
        }
        "bare" => {
            let p = pushes(ssig)?;
            (0, p, ssig_len, 0)
        }
        // key-only descriptors: no miniscript items, only the total weight is judged
        "pkh" | "wpkh" | "shwpkh" => (-1, Vec::new(), 0, 0),
        _ => {
            if wit.len() < 2 {
                (-1, wit.to_vec(), 0, 0)
            } else {
                let sc = &wit[wit.len() - 2];
                let idx = c.ms_dump.iter().position(|(_, b)| b == sc)? as i64;
                (idx, wit[..wit.len() - 2].to_vec(), 0, varint(sc.len()) + sc.len())
            }
        }
    };
    let inner_wsize = inner.iter().map(|i| varint(i.len()) + i.len()).sum();
    Some(Measured { leaf, n_inner: inner.len(), inner_wsize, inner_ssig, wit_items: wit.len(), wit_ser: ws, ssig_len, weight, script_item })
}

fn desc_block(w: &World, c: &Case, env: &TxEnv, id: u64, sane: bool, rng: &mut Rng, out: &mut String) {
    let spk = c.desc.script_pubkey();
    let value = Amount::from_sat(100_000);
    let (tx, _lock, _seq) = spend_tx(env);
    let mw = catch_unwind(AssertUnwindSafe(|| c.desc.max_weight_to_satisfy()));
    let mw_s = match mw {
        Ok(Ok(x)) => x.to_wu().to_string(),
        Ok(Err(_)) => "ERR".into(),
        Err(_) => "PANIC".into(),
    };
    writeln!(out, "D {} {} sane={} mw={} desc={}", id, c.kind, sane as u8, mw_s, c.desc).unwrap();
    // the deprecated figure (absolute weight of scriptSig with its length prefix + witness) and, for the
    // key-only kinds, whether the key is an uncompressed one
    #[allow(deprecated)]
    let msw = catch_unwind(AssertUnwindSafe(|| c.desc.max_satisfaction_weight()));
    let msw_s = match msw {
        Ok(Ok(x)) => x.to_string(),
        Ok(Err(_)) => "ERR".into(),
        Err(_) => "PANIC".into(),
    };
    writeln!(out, "W msw={} unc={}", msw_s, c.keys.first().map(|&i| (i >= 6) as u8).unwrap_or(0)).unwrap();
    // per leaf: depth, dump (the T-line style figures are recomputed by the model from the dump)
    match &c.desc {
        Descriptor::Tr(tr) => {
            let mut i = 0;
            if let Some(tree) = tr.tap_tree() {
                for leaf in tree.leaves() {
                    let m = leaf.miniscript();
                    writeln!(out, "L {} depth={} ctx=tap | {} | {} | {}", i, leaf.depth(), dump_str(w, &m.node), ext_str(&m.ext), m.script_size()).unwrap();
                    i += 1;
                }
            }
        }
        Descriptor::Wsh(x) => {
            let m = x.as_inner();
            writeln!(out, "L 0 depth=0 ctx=segwitv0 | {} | {} | {}", dump_str(w, &m.node), ext_str(&m.ext), m.script_size()).unwrap();
        }
        Descriptor::Sh(x) => match x.as_inner() {
            miniscript::descriptor::ShInner::Wsh(x) => {
                let m = x.as_inner();
                writeln!(out, "L 0 depth=0 ctx=segwitv0 | {} | {} | {}", dump_str(w, &m.node), ext_str(&m.ext), m.script_size()).unwrap();
            }
            miniscript::descriptor::ShInner::Ms(m) => {
                writeln!(out, "L 0 depth=0 ctx=legacy | {} | {} | {}", dump_str(w, &m.node), ext_str(&m.ext), m.script_size()).unwrap();
            }
            _ => {}
        },
        Descriptor::Bare(x) => {
            let m = x.as_inner();
            writeln!(out, "L 0 depth=0 ctx=bare | {} | {} | {}", dump_str(w, &m.node), ext_str(&m.ext), m.script_size()).unwrap();
        }
        _ => {}
    }
    let mut scratch = String::new();
    let sigs = sign_case(w, c, &tx, value, &spk, &grind_sig, &mut scratch);
    let masks = key_masks(c, rng);
    let premasks: Vec<u32> = vec![(1 << N_PRE) - 1, 0, rng.below(1 << N_PRE) as u32];
    for &km in masks.iter() {
        for (pi, &pm) in premasks.iter().enumerate() {
            if pi == 2 && (pm == 0 || pm == (1 << N_PRE) - 1) {
                continue;
            }
            let assets = Assets {
                w,
                keymask: km,
                premask: pm,
                lock_time: env.lock_time.map(absolute::LockTime::from_consensus),
                sequence: env.sequence.map(Sequence),
                ecdsa: &sigs.ecdsa,
                tapleaf: &sigs.tapleaf,
                tapkey: sigs.tapkey,
                internal_idx: c.internal,
                cbmap: sigs.cbmap.as_ref(),
            };
            for mall in [false, true] {
                let mode = if mall { "mall" } else { "nonmall" };
                let r = catch_unwind(AssertUnwindSafe(|| if mall { c.desc.get_satisfaction_mall(&assets) } else { c.desc.get_satisfaction(&assets) }));
                match r {
                    Err(_) => writeln!(out, "S {} {} {} PANIC", mode, km, pm).unwrap(),
                    Ok(Err(_)) => writeln!(out, "S {} {} {} ERR", mode, km, pm).unwrap(),
                    Ok(Ok((wit, ssig))) => match measure(c, &wit, &ssig) {
                        Some(m) => writeln!(
                            out,
                            "S {} {} {} OK leaf={} n_inner={} inner_wsize={} inner_ssig={} wit_items={} wit_ser={} ssig_len={} weight={} script_item={}",
                            mode, km, pm, m.leaf, m.n_inner, m.inner_wsize, m.inner_ssig, m.wit_items, m.wit_ser, m.ssig_len, m.weight, m.script_item
                        )
                        .unwrap(),
                        None => writeln!(out, "S {} {} {} UNPARSED", mode, km, pm).unwrap(),
                    },
                }
                // the plan for the same assets: announced sizes next to the completed plan's real sizes
                let pr = catch_unwind(AssertUnwindSafe(|| {
                    let p = if mall { c.desc.clone().into_plan_mall(&assets) } else { c.desc.clone().into_plan(&assets) };
                    match p {
                        Err(_) => None,
                        Ok(plan) => {
                            let ann = (plan.witness_size(), plan.scriptsig_size(), plan.satisfaction_weight());
                            let sizes: Vec<String> = plan.witness_template().iter().map(|p| item_size(p).to_string()).collect();
                            let sizes = if sizes.is_empty() { "-".to_string() } else { sizes.join(",") };
                            let real = plan.satisfy(&assets).ok().map(|(stack, ss)| {
                                let rw = if stack.is_empty() { 0 } else { wit_ser(&stack) };
                                let rs = varint(ss.len()) + ss.len();
                                // pre-segwit plans put the items into the scriptSig
                                let items: Vec<Vec<u8>> = if stack.is_empty() { pushes(&ss).unwrap_or_default() } else { stack.clone() };
                                let item_ok = items.len() >= plan.witness_template().len()
                                    && plan.witness_template().iter().zip(items.iter()).all(|(p, it)| varint(it.len()) + it.len() <= item_size(p));
                                (rw, rs, stack.len(), item_ok)
                            });
                            Some((ann, real, sizes))
                        }
                    }
                }));
                match pr {
                    Err(_) => writeln!(out, "P {} {} {} PANIC", mode, km, pm).unwrap(),
                    Ok(None) => writeln!(out, "P {} {} {} NONE", mode, km, pm).unwrap(),
                    Ok(Some((ann, None, sizes))) => writeln!(out, "P {} {} {} INCOMPLETE ann_w={} ann_s={} ann_sw={} sizes={}", mode, km, pm, ann.0, ann.1, ann.2, sizes).unwrap(),
                    Ok(Some((ann, Some((rw, rs, items, item_ok)), sizes))) => writeln!(
                        out,
                        "P {} {} {} OK ann_w={} ann_s={} ann_sw={} real_w={} real_s={} real_sw={} items={} item_ok={} sizes={}",
                        mode, km, pm, ann.0, ann.1, ann.2, rw, rs, rw + 4 * rs, items, item_ok as u8, sizes
                    )
                    .unwrap(),
                }
            }
        }
    }
    writeln!(out, "E").unwrap();
}

/// directed descriptors (sane and insane) that exercise the known weak spots
const DESC_CORPUS: &[(&str, &str)] = &[
    ("wsh", "and_v(v:pk(K0),thresh(1,ln:older(1),aln:older(2),aln:older(3)))"),
    ("wsh", "thresh(1,ln:older(1),aln:older(2),aln:older(3))"),
    ("wsh", "or_d(pk(K0),dv:older(5))"),
    ("wsh", "thresh(2,pk(K0),s:pk(K1),ajt:and_v(v:sha256(H),v:sha256(H)))"),
    ("sh", "thresh(2,pk(K0),s:pk(K1),ajt:and_v(v:sha256(H),v:sha256(H)))"),
    ("wsh", "or_b(or_i(and_v(v:or_i(0,or_i(0,or_i(0,or_i(0,1)))),0),sha256(H)),s:pk(K3))"),
    ("sh", "c:pk_h(K6)"),
    ("sh", "multi(4,K0,K1,K2,K3)"),
    ("sh", "and_v(v:pk(K6),pk(K7))"),
    ("bare", "multi(3,K0,K6,K7)"),
    ("wsh", "multi(4,K0,K1,K2,K3)"),
];

fn corpus_case(w: &World, kind: &'static str, s: &str) -> Option<Case> {
    let mut keys = Vec::new();
    let mut abs = Vec::new();
    let mut rel = Vec::new();
    macro_rules! fill {
        ($m:expr) => {{
            for k in $m.iter_pk() {
                let i = w.key_index(&k);
                if !keys.contains(&i) {
                    keys.push(i);
                }
            }
            for x in $m.iter() {
                match x.node {
                    miniscript::Terminal::After(t) => abs.push(t.to_consensus_u32()),
                    miniscript::Terminal::Older(t) => rel.push(t.to_consensus_u32()),
                    _ => {}
                }
            }
        }};
    }
    let ext_s;
    let (desc, dump) = match kind {
        "wsh" => {
            let m = corpus_ms::<Segwitv0>(w, false, s)?;
            fill!(m);
            ext_s = ext_str(&m.ext);
            let d = (dump_str(w, &m.node), m.encode().into_bytes());
            (Descriptor::new_wsh(m).ok()?, d)
        }
        "sh" => {
            let m = corpus_ms::<Legacy>(w, false, s)?;
            fill!(m);
            ext_s = ext_str(&m.ext);
            let d = (dump_str(w, &m.node), m.encode().into_bytes());
            (Descriptor::new_sh(m).ok()?, d)
        }
        _ => {
            let m = corpus_ms::<BareCtx>(w, false, s)?;
            fill!(m);
            ext_s = ext_str(&m.ext);
            let d = (dump_str(w, &m.node), m.encode().into_bytes());
            (Descriptor::new_bare(m).ok()?, d)
        }
    };
    Some(Case { desc, kind, ms_dump: vec![dump], exts: vec![ext_s], keys, abs, rel, internal: None })
}

// ------------------------------------------------------------------ translated objects
// A descriptor is often written over abstract names or compressed keys and instantiated later with
// `translate_pk`. The figures of the TRANSLATED object must describe the translated script: the ext
// record depends on the keys (an uncompressed key is 66 bytes per key slot, a compressed one 34).

/// Key -> "K<i>"
struct ToNames<'a>(&'a World);
impl<'a> miniscript::Translator<Key> for ToNames<'a> {
    type TargetPk = String;
    type Error = ();
    fn pk(&mut self, k: &Key) -> Result<String, ()> { Ok(format!("K{}", self.0.key_index(k))) }
    fn sha256(&mut self, h: &bitcoin::hashes::sha256::Hash) -> Result<String, ()> { Ok(h.to_string()) }
    fn hash256(&mut self, h: &miniscript::hash256::Hash) -> Result<String, ()> { Ok(h.to_string()) }
    fn ripemd160(&mut self, h: &bitcoin::hashes::ripemd160::Hash) -> Result<String, ()> { Ok(h.to_string()) }
    fn hash160(&mut self, h: &bitcoin::hashes::hash160::Hash) -> Result<String, ()> { Ok(h.to_string()) }
}
/// "K<i>" -> key map[i]
struct FromNames<'a>(&'a World, [usize; N_KEYS]);
impl<'a> miniscript::Translator<String> for FromNames<'a> {
    type TargetPk = Key;
    type Error = ();
    fn pk(&mut self, name: &String) -> Result<Key, ()> {
        let i: usize = name.strip_prefix('K').ok_or(())?.parse().map_err(|_| ())?;
        Ok(self.0.key(self.1[i], false))
    }
    fn sha256(&mut self, h: &String) -> Result<bitcoin::hashes::sha256::Hash, ()> { std::str::FromStr::from_str(h).map_err(|_| ()) }
    fn hash256(&mut self, h: &String) -> Result<miniscript::hash256::Hash, ()> { std::str::FromStr::from_str(h).map_err(|_| ()) }
    fn ripemd160(&mut self, h: &String) -> Result<bitcoin::hashes::ripemd160::Hash, ()> { std::str::FromStr::from_str(h).map_err(|_| ()) }
    fn hash160(&mut self, h: &String) -> Result<bitcoin::hashes::hash160::Hash, ()> { std::str::FromStr::from_str(h).map_err(|_| ()) }
}
/// key i -> key map[i]
struct Remap<'a>(&'a World, [usize; N_KEYS]);
impl<'a> miniscript::Translator<Key> for Remap<'a> {
    type TargetPk = Key;
    type Error = ();
    fn pk(&mut self, k: &Key) -> Result<Key, ()> { Ok(self.0.key(self.1[self.0.key_index(k)], false)) }
    fn sha256(&mut self, h: &bitcoin::hashes::sha256::Hash) -> Result<bitcoin::hashes::sha256::Hash, ()> { Ok(*h) }
    fn hash256(&mut self, h: &miniscript::hash256::Hash) -> Result<miniscript::hash256::Hash, ()> { Ok(*h) }
    fn ripemd160(&mut self, h: &bitcoin::hashes::ripemd160::Hash) -> Result<bitcoin::hashes::ripemd160::Hash, ()> { Ok(*h) }
    fn hash160(&mut self, h: &bitcoin::hashes::hash160::Hash) -> Result<bitcoin::hashes::hash160::Hash, ()> { Ok(*h) }
}

/// every compressed key becomes an uncompressed one / every other one does
const MAP_UNC: [usize; N_KEYS] = [6, 7, 6, 7, 6, 7, 6, 7];
const MAP_MIXED: [usize; N_KEYS] = [6, 1, 7, 3, 6, 5, 6, 7];

/// the same tree built bottom-up with `from_ast` (every node re-typed): what the translated object must equal
fn rebuild<Ctx: ScriptContext>(m: &Miniscript<Key, Ctx>) -> Option<Miniscript<Key, Ctx>> {
    use miniscript::Terminal as T;
    use std::sync::Arc;
    let r = |x: &Arc<Miniscript<Key, Ctx>>| rebuild::<Ctx>(x).map(Arc::new);
    let t: T<Key, Ctx> = match &m.node {
        T::True => T::True,
        T::False => T::False,
        T::PkK(k) => T::PkK(k.clone()),
        T::PkH(k) => T::PkH(k.clone()),
        T::RawPkH(h) => T::RawPkH(*h),
        T::After(t) => T::After(*t),
        T::Older(t) => T::Older(*t),
        T::Sha256(h) => T::Sha256(*h),
        T::Hash256(h) => T::Hash256(*h),
        T::Ripemd160(h) => T::Ripemd160(*h),
        T::Hash160(h) => T::Hash160(*h),
        T::Alt(x) => T::Alt(r(x)?),
        T::Swap(x) => T::Swap(r(x)?),
        T::Check(x) => T::Check(r(x)?),
        T::DupIf(x) => T::DupIf(r(x)?),
        T::Verify(x) => T::Verify(r(x)?),
        T::NonZero(x) => T::NonZero(r(x)?),
        T::ZeroNotEqual(x) => T::ZeroNotEqual(r(x)?),
        T::AndV(x, y) => T::AndV(r(x)?, r(y)?),
        T::AndB(x, y) => T::AndB(r(x)?, r(y)?),
        T::AndOr(x, y, z) => T::AndOr(r(x)?, r(y)?, r(z)?),
        T::OrB(x, y) => T::OrB(r(x)?, r(y)?),
        T::OrD(x, y) => T::OrD(r(x)?, r(y)?),
        T::OrC(x, y) => T::OrC(r(x)?, r(y)?),
        T::OrI(x, y) => T::OrI(r(x)?, r(y)?),
        T::Thresh(th) => {
            let subs: Option<Vec<_>> = th.iter().map(|x| r(x)).collect();
            T::Thresh(Threshold::new(th.k(), subs?).ok()?)
        }
        T::Multi(th) => T::Multi(th.clone()),
        T::SortedMulti(th) => T::SortedMulti(th.clone()),
        T::MultiA(th) => T::MultiA(th.clone()),
        T::SortedMultiA(th) => T::SortedMultiA(th.clone()),
    };
    Miniscript::from_ast(t).ok()
}

/// the translations of a compressed-keyed source: directly (Key -> Key) and through abstract names
fn translations<Ctx: ScriptContext>(w: &World, m: &Miniscript<Key, Ctx>) -> Vec<(&'static str, Miniscript<Key, Ctx>)> {
    let mut v = Vec::new();
    for (name, map) in [("unc", MAP_UNC), ("mixed", MAP_MIXED)] {
        if let Ok(Ok(t)) = catch_unwind(AssertUnwindSafe(|| m.translate_pk(&mut Remap(w, map)))) {
            v.push((if name == "unc" { "translated-key-unc" } else { "translated-key-mixed" }, t));
        }
        let via = catch_unwind(AssertUnwindSafe(|| {
            let named: Miniscript<String, Ctx> = m.translate_pk(&mut ToNames(w)).ok()?;
            named.translate_pk(&mut FromNames(w, map)).ok()
        }));
        if let Ok(Some(t)) = via {
            v.push((if name == "unc" { "translated-name-unc" } else { "translated-name-mixed" }, t));
        }
    }
    v
}

/// T line (tie + size oracles) and X line (translated.ext == from_ast-rebuilt.ext) of a translated miniscript
fn translated_lines<Ctx: ScriptContext>(w: &World, origin: &str, t: &Miniscript<Key, Ctx>, out: &mut String) {
    tree_line(w, t, origin, out);
    let rb = catch_unwind(AssertUnwindSafe(|| rebuild::<Ctx>(t)));
    let (same, rbs) = match rb {
        Ok(Some(r)) => ((r.ext == t.ext && r.ty == t.ty) as u8, ext_str(&r.ext)),
        Ok(None) => (0, "REJECTED".to_string()),
        Err(_) => (0, "PANIC".to_string()),
    };
    writeln!(out, "Y {} {} | {} | same={} | {} | {}", ctx_name::<Ctx>(), origin, dump_str(w, &t.node), same, ext_str(&t.ext), rbs).unwrap();
}

const TRANSLATE_SOURCES: &[&str] = &[
    "c:pk_h(K0)",
    "and_v(v:pk(K0),pk(K1))",
    "multi(2,K0,K1,K2)",
    "and_v(v:c:pk_h(K0),multi(2,K1,K2,K3))",
    "or_d(pk(K0),and_v(v:c:pk_h(K1),older(10)))",
    "thresh(2,pk(K0),s:pk(K1),a:c:pk_h(K2))",
    // 8 key slots: 531 bytes once every key is uncompressed, beyond the 520-byte P2SH limit
    "multi(8,K0,K1,K2,K3,K4,K5,K0,K1)",
];

fn translated_trees(w: &World, seed: u64, n: u64, out: &mut String) {
    for s in TRANSLATE_SOURCES {
        if let Some(m) = corpus_ms::<Legacy>(w, false, s) {
            for (o, t) in translations(w, &m) {
                translated_lines(w, o, &t, out);
            }
        }
        if let Some(m) = corpus_ms::<BareCtx>(w, false, s) {
            for (o, t) in translations(w, &m) {
                translated_lines(w, o, &t, out);
            }
        }
    }
    for c in 0..n {
        let cseed = seed.wrapping_mul(9_000_011).wrapping_add(c);
        let ci = CtxInfo { tap: false, legacy_like: true, n_keys: 6 };
        let depth = (c % 4) as u32;
        if c % 2 == 0 {
            let r = catch_unwind(AssertUnwindSafe(|| Gen::new(w, cseed, ci).gen::<Legacy>(B::B, depth)));
            if let Ok(Some(m)) = r {
                for (o, t) in translations(w, &m) {
                    translated_lines(w, o, &t, out);
                }
            }
        } else {
            let r = catch_unwind(AssertUnwindSafe(|| Gen::new(w, cseed, ci).gen::<BareCtx>(B::B, depth)));
            if let Ok(Some(m)) = r {
                for (o, t) in translations(w, &m) {
                    translated_lines(w, o, &t, out);
                }
            }
        }
    }
}

fn case_of_legacy(w: &World, m: Miniscript<Key, Legacy>) -> Option<Case> {
    let mut keys = Vec::new();
    let mut abs = Vec::new();
    let mut rel = Vec::new();
    for k in m.iter_pk() {
        let i = w.key_index(&k);
        if !keys.contains(&i) {
            keys.push(i);
        }
    }
    for x in m.iter() {
        match x.node {
            miniscript::Terminal::After(t) => abs.push(t.to_consensus_u32()),
            miniscript::Terminal::Older(t) => rel.push(t.to_consensus_u32()),
            _ => {}
        }
    }
    let dump = (dump_str(w, &m.node), m.encode().into_bytes());
    let ext_s = ext_str(&m.ext);
    let desc = Descriptor::new_sh(m).ok()?;
    Some(Case { desc, kind: "sh", ms_dump: vec![dump], exts: vec![ext_s], keys, abs, rel, internal: None })
}
fn case_of_bare(w: &World, m: Miniscript<Key, BareCtx>) -> Option<Case> {
    let mut keys = Vec::new();
    let mut abs = Vec::new();
    let mut rel = Vec::new();
    for k in m.iter_pk() {
        let i = w.key_index(&k);
        if !keys.contains(&i) {
            keys.push(i);
        }
    }
    for x in m.iter() {
        match x.node {
            miniscript::Terminal::After(t) => abs.push(t.to_consensus_u32()),
            miniscript::Terminal::Older(t) => rel.push(t.to_consensus_u32()),
            _ => {}
        }
    }
    let dump = (dump_str(w, &m.node), m.encode().into_bytes());
    let ext_s = ext_str(&m.ext);
    let desc = Descriptor::new_bare(m).ok()?;
    Some(Case { desc, kind: "bare", ms_dump: vec![dump], exts: vec![ext_s], keys, abs, rel, internal: None })
}

/// descriptors over translated miniscripts: measured satisfactions / plans against the announced figures
fn translated_descs(w: &World, seed: u64, n: u64, rng: &mut Rng, id: &mut u64) {
    let mut emit = |case: Option<Case>, rng: &mut Rng, id: &mut u64| {
        if let Some(case) = case {
            for env in lock_envs(&case, rng) {
                *id += 1;
                let mut s = String::new();
                desc_block(w, &case, &env, *id, false, rng, &mut s);
                print!("{}", s);
            }
        }
    };
    for s in TRANSLATE_SOURCES {
        if let Some(m) = corpus_ms::<Legacy>(w, false, s) {
            for (_, t) in translations(w, &m) {
                let c = catch_unwind(AssertUnwindSafe(|| case_of_legacy(w, t))).ok().flatten();
                emit(c, rng, id);
            }
        }
        if let Some(m) = corpus_ms::<BareCtx>(w, false, s) {
            for (o, t) in translations(w, &m) {
                if o.starts_with("translated-name") {
                    let c = catch_unwind(AssertUnwindSafe(|| case_of_bare(w, t))).ok().flatten();
                    emit(c, rng, id);
                }
            }
        }
    }
    for c in 0..n {
        let cseed = seed.wrapping_mul(9_000_011).wrapping_add(c);
        let ci = CtxInfo { tap: false, legacy_like: true, n_keys: 6 };
        let depth = 1 + (c % 3) as u32;
        let r = catch_unwind(AssertUnwindSafe(|| Gen::new(w, cseed, ci).gen::<Legacy>(B::B, depth)));
        if let Ok(Some(m)) = r {
            let mut ts = translations(w, &m);
            if !ts.is_empty() {
                let (_, t) = ts.swap_remove((c as usize) % ts.len());
                let cs = catch_unwind(AssertUnwindSafe(|| case_of_legacy(w, t))).ok().flatten();
                emit(cs, rng, id);
            }
        }
    }
}

/// tr() over a lopsided 9-leaf "ladder": leaf i sits at depth i+1 (the last two at depth 8). Only key 7
/// gets signatures, and it appears only in the leaves at depth >= 7, so the planner / satisfier must take a
/// leaf whose control block (33 + 32*7 = 257 bytes) needs a 3-byte length prefix in the witness.
fn ladder_case(w: &World) -> Option<Case> {
    use miniscript::descriptor::TapTree;
    let specs = [
        "pk(K0)", "pk(K1)", "pk(K2)", "pk(K3)", "pk(K4)", "pk(K6)",
        "and_v(v:pk(K7),older(1))", "pk(K7)", "and_v(v:pk(K7),sha256(H))",
    ];
    let mut leaves = Vec::new();
    let mut dumps = Vec::new();
    let mut exts = Vec::new();
    for s in specs.iter() {
        let m = corpus_ms::<Tap>(w, true, s)?;
        dumps.push((dump_str(w, &m.node), m.encode().into_bytes()));
        exts.push(ext_str(&m.ext));
        leaves.push(m);
    }
    let mut t = TapTree::leaf(leaves.pop().unwrap());
    while let Some(l) = leaves.pop() {
        t = TapTree::combine(TapTree::leaf(l), t).ok()?;
    }
    let desc = Descriptor::new_tr(w.key(5, true), Some(t)).ok()?;
    Some(Case { desc, kind: "tr", ms_dump: dumps, exts, keys: vec![7], abs: vec![], rel: vec![1], internal: Some(5) })
}

fn descs(seed: u64, n: u64) {
    let w = World::new();
    let mut rng = Rng(seed ^ 0x5151);
    let mut id = 0u64;
    for (kind, s) in DESC_CORPUS {
        match catch_unwind(AssertUnwindSafe(|| corpus_case(&w, kind, s))) {
            Ok(Some(case)) => {
                for env in lock_envs(&case, &mut rng) {
                    id += 1;
                    let mut s = String::new();
                    desc_block(&w, &case, &env, id, false, &mut rng, &mut s);
                    print!("{}", s);
                }
            }
            _ => println!("X corpus-rejected {} {}", kind, s),
        }
    }
    match catch_unwind(AssertUnwindSafe(|| ladder_case(&w))) {
        Ok(Some(case)) => {
            for env in lock_envs(&case, &mut rng) {
                id += 1;
                let mut s = String::new();
                desc_block(&w, &case, &env, id, false, &mut rng, &mut s);
                print!("{}", s);
            }
        }
        _ => println!("X corpus-rejected tr ladder"),
    }
    wide_descs(&w, &mut rng, &mut id);
    translated_descs(&w, seed, n / 8, &mut rng, &mut id);
    for c in 0..n {
        let cseed = seed.wrapping_mul(1_000_003).wrapping_add(c);
        let depth = 1 + (c % 4) as u32;
        let sane = c % 3 != 2;
        let case = match catch_unwind(AssertUnwindSafe(|| make_case(&w, cseed, c, depth, sane))) {
            Ok(Some(x)) => x,
            _ => continue,
        };
        for env in lock_envs(&case, &mut rng) {
            id += 1;
            let mut s = String::new();
            desc_block(&w, &case, &env, id, sane, &mut rng, &mut s);
            print!("{}", s);
        }
    }
    // directed key-only descriptors: pkh over compressed and uncompressed keys, wpkh, sh(wpkh)
    for (kind, i) in [("pkh", 0usize), ("pkh", 3), ("pkh", 6), ("pkh", 7), ("wpkh", 0), ("wpkh", 5), ("shwpkh", 0), ("shwpkh", 5), ("wpkh", 6), ("shwpkh", 7)] {
        let k = w.key(i, false);
        let d = catch_unwind(AssertUnwindSafe(|| match kind {
            "pkh" => Descriptor::new_pkh(k).ok(),
            "wpkh" => Descriptor::new_wpkh(k).ok(),
            _ => Descriptor::new_sh_wpkh(k).ok(),
        }));
        match d {
            Ok(Some(desc)) => {
                let case = Case { desc, kind, ms_dump: vec![], exts: vec![], keys: vec![i], abs: vec![], rel: vec![], internal: None };
                for env in lock_envs(&case, &mut rng) {
                    id += 1;
                    let mut s = String::new();
                    desc_block(&w, &case, &env, id, true, &mut rng, &mut s);
                    print!("{}", s);
                }
            }
            // wpkh / sh(wpkh) over an uncompressed key must be refused
            _ => println!("K rejected {} unc={}", kind, (i >= 6) as u8),
        }
    }
}

// ------------------------------------------------------------------ directed wide / near-limit scripts
// The world has eight keys; wide fragments repeat keys 1..4, which every parse used here permits
// (`from_str_insane`; the validation verdict below is asked with `allow_duplicate_keys`).

fn wide_multi_a(k: usize, n: usize) -> String {
    let mut s = format!("multi_a({}", k);
    for i in 0..n {
        s.push_str(&format!(",K{}", 1 + i % 4));
    }
    s.push(')');
    s
}

/// shape 0: multi_a(k, n keys)                       n witness elements, grows by 1
/// shape 1: and_v(v:pk(K0), multi_a(k, n keys))      n + 1 elements, grows by 1
/// shape 2: and_v(v:pkh(K0), multi_a(k, n keys))     n + 2 elements, grows by 2
fn wide_leaf(shape: usize, k: usize, n: usize) -> String {
    match shape {
        0 => wide_multi_a(k, n),
        1 => format!("and_v(v:pk(K0),{})", wide_multi_a(k, n)),
        _ => format!("and_v(v:pkh(K0),{})", wide_multi_a(k, n)),
    }
}

/// and_v(v:pk(K1),and_v(v:pk(K2),... pk(Kx))) with n keys: n witness elements (Segwitv0: 100 items)
fn pk_chain(n: usize) -> String {
    let mut s = format!("pk(K{})", 1 + (n - 1) % 4);
    for i in (0..n - 1).rev() {
        s = format!("and_v(v:pk(K{}),{})", 1 + i % 4, s);
    }
    s
}

fn verdict_class(e: &miniscript::ValidationError) -> String {
    use miniscript::ValidationError as V;
    match e {
        V::MaxExecStackSizeExceeded { .. } => "stack".into(),
        V::MaxWitnessItemsExceeded { .. } => "witems".into(),
        V::MaxOpCountExceeded { .. } => "ops".into(),
        V::MaxScriptSizeExceeded { .. } => "size".into(),
        other => format!("other:{:?}", other).split_whitespace().collect::<Vec<_>>().join("_"),
    }
}

/// the library's two limit verdicts on one script: `validate_non_top_level` under the context's SANE
/// parameters (duplicate keys allowed: the world is small), and `within_resource_limits`
fn sane_verdict<Ctx: ScriptContext>(m: &Miniscript<Key, Ctx>) -> (String, String) {
    let mut params: miniscript::ValidationParams = Ctx::SANE;
    params.allow_duplicate_keys = true;
    let v = match catch_unwind(AssertUnwindSafe(|| m.validate_non_top_level(&params))) {
        Ok(Ok(())) => "ok".to_string(),
        Ok(Err(e)) => verdict_class(&e),
        Err(_) => "PANIC".to_string(),
    };
    let wr = match catch_unwind(AssertUnwindSafe(|| m.within_resource_limits())) {
        Ok(b) => (b as u8).to_string(),
        Err(_) => "PANIC".to_string(),
    };
    (v, wr)
}

fn verdict_line<Ctx: ScriptContext>(w: &World, m: &Miniscript<Key, Ctx>, origin: &str, out: &mut String) {
    let (v, wr) = sane_verdict(m);
    writeln!(out, "V {} {} | {} | verdict={} within={}", ctx_name::<Ctx>(), origin, dump_str(w, &m.node), v, wr).unwrap();
}

/// (shape, k, n) of the tapscript leaves around the 1000-element stack limit
const TAP_LIMIT_SHAPES: &[(usize, usize, usize)] = &[
    (0, 1, 997), (0, 1, 998), (0, 1, 999), (0, 2, 999),
    (1, 1, 997), (1, 1, 998), (1, 1, 999), (1, 2, 999),
    (2, 1, 995), (2, 1, 996), (2, 1, 997),
];

fn limit_cases(w: &World, out: &mut String) {
    for &(shape, k, n) in TAP_LIMIT_SHAPES {
        let s = wide_leaf(shape, k, n);
        match corpus_ms::<Tap>(w, true, &s) {
            Some(m) => {
                tree_line(w, &m, "limit", out);
                verdict_line(w, &m, "limit", out);
            }
            None => writeln!(out, "X limit-rejected tap shape={} k={} n={}", shape, k, n).unwrap(),
        }
    }
    // leaf satisfactions of 249..253 elements (the item count of a script-path witness crosses 252/253)
    for n in 248..=253usize {
        for shape in 0..2usize {
            if let Some(m) = corpus_ms::<Tap>(w, true, &wide_leaf(shape, 1, n - shape)) {
                tree_line(w, &m, "wide", out);
            }
        }
    }
    // Segwitv0: 100 witness items (the witness script is one of them)
    for n in 97..=101usize {
        match corpus_ms::<Segwitv0>(w, false, &pk_chain(n)) {
            Some(m) => {
                tree_line(w, &m, "limit", out);
                verdict_line(w, &m, "limit", out);
            }
            None => writeln!(out, "X limit-rejected segwitv0 pk_chain n={}", n).unwrap(),
        }
    }
}

/// H lines: the recursion-depth checks. `n:` wrappers above `c:pk_k(K0)` built bottom-up with `from_ast`
/// (level L has tree height L + 1) until `from_ast` refuses; for the accepted levels from 396 on the
/// height the library reports and `validate_non_top_level` with `max_recursive_depth` = height - 1 / height.
fn depth_cases(w: &World, out: &mut String) {
    use miniscript::Terminal as T;
    use std::sync::Arc;
    let base = Miniscript::<Key, Tap>::from_ast(T::PkK(w.key(0, true)))
        .and_then(|m| Miniscript::<Key, Tap>::from_ast(T::Check(Arc::new(m))));
    let mut cur = match base {
        Ok(m) => m,
        Err(_) => {
            writeln!(out, "X depth-base-rejected").unwrap();
            return;
        }
    };
    for level in 1..=410usize {
        let child = cur.clone();
        let r = catch_unwind(AssertUnwindSafe(|| Miniscript::<Key, Tap>::from_ast(T::ZeroNotEqual(Arc::new(child)))));
        match r {
            Ok(Ok(m)) => {
                if level >= 396 {
                    let h = m.ext.tree_height;
                    let vd = |lim: usize| -> String {
                        let mut p: miniscript::ValidationParams = Tap::SANE;
                        p.allow_duplicate_keys = true;
                        p.max_recursive_depth = lim;
                        match m.validate_non_top_level(&p) {
                            Ok(()) => "ok".to_string(),
                            Err(miniscript::ValidationError::MaxRecursiveDepthExceeded { .. }) => "depth".to_string(),
                            Err(e) => verdict_class(&e),
                        }
                    };
                    writeln!(out, "H tap {} accepted height={} lim={}:{} lim={}:{}", level, h, h - 1, vd(h - 1), h, vd(h)).unwrap();
                }
                cur = m;
            }
            Ok(Err(e)) => {
                let c: String = format!("{:?}", e).chars().take_while(|c| c.is_alphanumeric()).collect();
                writeln!(out, "H tap {} rejected:{}", level, c).unwrap();
                return;
            }
            Err(_) => {
                writeln!(out, "H tap {} PANIC", level).unwrap();
                return;
            }
        }
    }
    writeln!(out, "H tap 411 never-rejected").unwrap();
}

// ------------------------------------------------------------------ raw key hashes (Q lines)
// `expr_raw_pkh` only arises when a script is decoded from bytes. Each case encodes a script with
// pk_h over a world key, decodes it (`decode_consensus`: no context checks, so that an uncompressed key
// hash is also seen under Segwitv0), and satisfies the DECODED miniscript through a satisfier that
// resolves the hash (`lookup_raw_pkh_pk` / `lookup_raw_pkh_ecdsa_sig`, x-only forms in Tap). Sizes are
// measured on the returned bytes and printed next to the decoded object's own figures.
struct RawSat<'a> {
    w: &'a World,
    sig: bitcoin::ecdsa::Signature,
    xsig: bitcoin::taproot::Signature,
}

impl<'a> RawSat<'a> {
    fn find(&self, h: &bitcoin::hashes::hash160::Hash) -> Option<bitcoin::PublicKey> {
        use bitcoin::hashes::Hash;
        self.w.pks.iter().copied().find(|pk| bitcoin::hashes::hash160::Hash::hash(&pk.to_bytes()) == *h)
    }
    fn find_x(&self, h: &bitcoin::hashes::hash160::Hash) -> Option<bitcoin::secp256k1::XOnlyPublicKey> {
        use bitcoin::hashes::Hash;
        self.w.pks.iter().map(|pk| pk.inner.x_only_public_key().0).find(|x| bitcoin::hashes::hash160::Hash::hash(&x.serialize()) == *h)
    }
}

impl<'a> miniscript::Satisfier<bitcoin::PublicKey> for RawSat<'a> {
    fn lookup_ecdsa_sig(&self, _: &bitcoin::PublicKey) -> Option<bitcoin::ecdsa::Signature> { Some(self.sig) }
    fn lookup_raw_pkh_pk(&self, h: &bitcoin::hashes::hash160::Hash) -> Option<bitcoin::PublicKey> { self.find(h) }
    fn lookup_raw_pkh_ecdsa_sig(&self, h: &bitcoin::hashes::hash160::Hash) -> Option<(bitcoin::PublicKey, bitcoin::ecdsa::Signature)> {
        self.find(h).map(|pk| (pk, self.sig))
    }
}

impl<'a> miniscript::Satisfier<bitcoin::secp256k1::XOnlyPublicKey> for RawSat<'a> {
    fn lookup_tap_leaf_script_sig(&self, _: &bitcoin::secp256k1::XOnlyPublicKey, _: &bitcoin::taproot::TapLeafHash) -> Option<bitcoin::taproot::Signature> {
        Some(self.xsig)
    }
    fn lookup_raw_pkh_x_only_pk(&self, h: &bitcoin::hashes::hash160::Hash) -> Option<bitcoin::secp256k1::XOnlyPublicKey> { self.find_x(h) }
    fn lookup_raw_pkh_tap_leaf_script_sig(
        &self,
        hl: &(bitcoin::hashes::hash160::Hash, bitcoin::taproot::TapLeafHash),
    ) -> Option<(bitcoin::secp256k1::XOnlyPublicKey, bitcoin::taproot::Signature)> {
        self.find_x(&hl.0).map(|x| (x, self.xsig))
    }
}

fn push_size(n: usize) -> usize {
    n + if n < 76 { 1 } else if n < 256 { 2 } else { 3 }
}

fn rawpkh_shape(shape: usize, i: usize) -> String {
    match shape {
        0 => format!("c:pk_h(K{})", i),
        1 => format!("and_v(vc:pk_h(K{}),pk(K1))", i),
        _ => format!("or_d(c:pk_h(K{}),pk(K2))", i),
    }
}

fn rawpkh_cases(w: &World, out: &mut String) {
    use bitcoin::hashes::Hash;
    let msg = Message::from_digest([7u8; 32]);
    let sig = grind_sig(w, 0, msg); // 71-byte DER + sighash byte: the longest low-S form
    let kp = bitcoin::secp256k1::Keypair::from_secret_key(&w.secp, &w.sks[0]);
    let xs = w.secp.sign_schnorr_no_aux_rand(&msg, &kp);
    let rs = RawSat { w, sig, xsig: bitcoin::taproot::Signature { signature: xs, sighash_type: bitcoin::sighash::TapSighashType::Default } };
    macro_rules! go {
        ($src:ty, $ctx:ty, $pk:ty, $tap:expr, $shape:expr, $i:expr, $kk:expr) => {{
            let src = rawpkh_shape($shape, $i);
            match corpus_ms::<$src>(w, $tap, &src) {
                None => writeln!(out, "Q {} shape={} key={} SRC-REJECTED", ctx_name::<$ctx>(), $shape, $kk).unwrap(),
                Some(m) => {
                    let script = m.encode();
                    match Miniscript::<$pk, $ctx>::decode_consensus(&script) {
                        Err(_) => writeln!(out, "Q {} shape={} key={} DECODE-ERR", ctx_name::<$ctx>(), $shape, $kk).unwrap(),
                        Ok(d) => {
                            let raw = d.iter().filter(|x| matches!(x.node, miniscript::Terminal::RawPkH(_))).count();
                            let dump = dump_str(w, &m.node).replace(&format!("pk_h {}", $i), "raw_pk_h 00");
                            let mss = d.max_satisfaction_size().ok();
                            let mse = d.max_satisfaction_witness_elements().ok();
                            let o = |x: Option<usize>| x.map(|v| v.to_string()).unwrap_or("-".into());
                            let r = catch_unwind(AssertUnwindSafe(|| d.satisfy(&rs)));
                            let meas = match r {
                                Err(_) => "status=PANIC".to_string(),
                                Ok(Err(_)) => "status=ERR".to_string(),
                                Ok(Ok(items)) => format!(
                                    "status=OK n={} wsize={} ssig={}",
                                    items.len(),
                                    items.iter().map(|i| varint(i.len()) + i.len()).sum::<usize>(),
                                    items.iter().map(|i| if i.is_empty() { 1 } else { push_size(i.len()) }).sum::<usize>()
                                ),
                            };
                            writeln!(
                                out,
                                "Q {} shape={} key={} | {} | {} | raw={} ss={} enc={} mss={} mse={} {}",
                                ctx_name::<$ctx>(), $shape, $kk, dump, ext_str(&d.ext), raw, d.script_size(), script.len(), o(mss), o(mse), meas
                            )
                            .unwrap();
                        }
                    }
                }
            }
        }};
    }
    for shape in 0..3usize {
        for &(i, kk) in &[(3usize, "c"), (6usize, "u")] {
            go!(Legacy, Segwitv0, bitcoin::PublicKey, false, shape, i, kk);
            go!(Legacy, Legacy, bitcoin::PublicKey, false, shape, i, kk);
            go!(Legacy, BareCtx, bitcoin::PublicKey, false, shape, i, kk);
        }
        go!(Tap, Tap, bitcoin::secp256k1::XOnlyPublicKey, true, shape, 4usize, "x");
    }
    let _ = bitcoin::hashes::hash160::Hash::all_zeros();
}

/// tr(K5, leaves...) over directed leaf strings (one leaf, or a right-leaning tree)
fn wide_tr_case(w: &World, specs: &[String], keys: Vec<usize>) -> Option<Case> {
    use miniscript::descriptor::TapTree;
    let mut leaves = Vec::new();
    let mut dumps = Vec::new();
    let mut exts = Vec::new();
    for s in specs.iter() {
        let m = corpus_ms::<Tap>(w, true, s)?;
        dumps.push((dump_str(w, &m.node), m.encode().into_bytes()));
        exts.push(ext_str(&m.ext));
        leaves.push(m);
    }
    let mut t = TapTree::leaf(leaves.pop()?);
    while let Some(l) = leaves.pop() {
        t = TapTree::combine(TapTree::leaf(l), t).ok()?;
    }
    let desc = Descriptor::new_tr(w.key(5, true), Some(t)).ok()?;
    Some(Case { desc, kind: "tr", ms_dump: dumps, exts, keys, abs: vec![], rel: vec![], internal: Some(5) })
}

/// descriptors whose script-path witness has 251..255 items
fn wide_descs(w: &World, rng: &mut Rng, id: &mut u64) {
    let mut specs: Vec<(Vec<String>, Vec<usize>)> = Vec::new();
    for n in 249..=253usize {
        specs.push((vec![wide_leaf(0, 1, n)], vec![1]));
    }
    for n in 250..=252usize {
        specs.push((vec!["pk(K2)".to_string(), wide_leaf(1, 1, n - 1)], vec![0, 1]));
    }
    for (leaves, keys) in specs {
        match catch_unwind(AssertUnwindSafe(|| wide_tr_case(w, &leaves, keys))) {
            Ok(Some(case)) => {
                for env in lock_envs(&case, rng) {
                    *id += 1;
                    let mut s = String::new();
                    desc_block(w, &case, &env, *id, false, rng, &mut s);
                    print!("{}", s);
                }
            }
            _ => println!("X corpus-rejected tr wide {}", leaves.last().map(|l| l.len()).unwrap_or(0)),
        }
    }
}

/// `ext limits`: sat-engine protocol blocks (read by ocaml/driver_ext) for tr descriptors over the
/// near-limit tapscript leaves. `sane=1` marks a leaf that `validate_non_top_level` accepts under
/// Tap::SANE: its produced satisfactions must run within 1000 stack elements.
pub fn run_limits() {
    let w = World::new();
    print!("{}", crate::sat::world_header(&w));
    let mut rng = Rng(0x5151);
    let mut id = 0u64;
    for &(shape, k, n) in TAP_LIMIT_SHAPES {
        let s = wide_leaf(shape, k, n);
        let m = match corpus_ms::<Tap>(&w, true, &s) {
            Some(m) => m,
            None => {
                println!("X limit-rejected tap shape={} k={} n={}", shape, k, n);
                continue;
            }
        };
        let (v, _) = sane_verdict(&m);
        let keys = if shape == 0 { vec![1, 2] } else { vec![0, 1, 2] };
        let case = match catch_unwind(AssertUnwindSafe(|| wide_tr_case(&w, &[s.clone()], keys))) {
            Ok(Some(c)) => c,
            _ => {
                println!("X limit-rejected tr shape={} k={} n={}", shape, k, n);
                continue;
            }
        };
        for env in lock_envs(&case, &mut rng) {
            id += 1;
            let mut o = String::new();
            if catch_unwind(AssertUnwindSafe(|| crate::sat::emit_case(&w, &case, &env, id, v == "ok", &mut rng, &mut o))).is_err() {
                println!("END");
                println!("PANIC emit_case limit shape={} k={} n={}", shape, k, n);
                continue;
            }
            print!("{}", o);
        }
    }
    println!("DONE limits");
}

pub fn run(args: &[String]) {
    if args.first().map(|s| s.as_str()) == Some("limits") {
        return run_limits();
    }
    let seed: u64 = args.first().and_then(|s| s.parse().ok()).unwrap_or(1);
    let n_rules: u64 = args.get(1).and_then(|s| s.parse().ok()).unwrap_or(400);
    let n_trees: u64 = args.get(2).and_then(|s| s.parse().ok()).unwrap_or(400);
    let n_descs: u64 = args.get(3).and_then(|s| s.parse().ok()).unwrap_or(100);
    rules(seed, n_rules);
    trees(seed, n_trees);
    descs(seed, n_descs);
}
