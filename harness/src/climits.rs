//! Near-limit stream of the `compile` engine (property C08).
//!
//! Families of policies with one integer parameter x whose compiled result grows with x in the
//! resource a context limits (executed non-push opcodes 201; script size 520 / 3600 / 10000;
//! witness items 100; Tap stack 1000), with granularity 1 in that resource.  For each family and
//! context the Ok/Err boundary of the library under test is found by bisection on its own answer,
//! and the cases x in [boundary-2, boundary+2] are emitted through the ordinary dump
//! (compile::<Ctx> + the context's descriptor entry points), so that the validator sees results
//! at limit-1 / limit and the refusals just above.  Every family ends in a key, the shape for
//! which the cheapest script is a cast applied at the very top (c:and_v(..,pk_k)).
//!
//! usage: verif-harness compile-limits <seed> [family [ctx]] | compile-limits 0 list
use crate::compile::{ok_in_ctx, run_case, P, UNC_FROM};

fn chain(mut leaves: Vec<P>) -> P {
    // left-nested and(and(a,b),c) for short lists (the shape of hand-written policies), balanced
    // beyond that (the tree depth of the result stays far below the 402 recursion limit)
    if leaves.len() == 1 {
        return leaves.pop().unwrap();
    }
    if leaves.len() <= 120 {
        let mut it = leaves.into_iter();
        let mut acc = it.next().unwrap();
        for x in it {
            acc = P::And(vec![acc, x]);
        }
        acc
    } else {
        let right = leaves.split_off(leaves.len() / 2);
        P::And(vec![chain(leaves), chain(right)])
    }
}

/// fillers of exactly `bytes` script bytes (v:older(n) = push(n) CSV VERIFY: 3, 4 or 5 bytes);
/// 1 and 2 are not representable (nothing is added)
fn fillers(bytes: usize) -> Vec<P> {
    let mut sizes: Vec<usize> = Vec::new();
    let mut b = bytes;
    while b > 8 {
        sizes.push(5);
        b -= 5;
    }
    match b {
        3 => sizes.push(3),
        4 => sizes.push(4),
        5 => sizes.push(5),
        6 => sizes.extend([3, 3]),
        7 => sizes.extend([3, 4]),
        8 => sizes.extend([4, 4]),
        _ => {}
    }
    sizes
        .into_iter()
        .map(|t| match t {
            3 => P::Older(1),   // OP_1 CSV VERIFY
            4 => P::Older(17),  // 01 11 CSV VERIFY
            _ => P::Older(300), // 02 2c 01 CSV VERIFY
        })
        .collect()
}

fn keys(from: usize, n: usize) -> Vec<P> { (from..from + n).map(P::Key).collect() }

struct Fam {
    name: &'static str,
    ctxs: &'static [&'static str],
    modes: &'static [&'static str],
    lo: usize,
    hi: usize,
    f: fn(usize, &str) -> P,
}

// ---- the families (x is the scanned parameter; `c` the context name) ----
/// two signatures and x sha256 preimages: 4x + 2 executed opcodes (the shape of the classic
/// HTLC-like conjunction)
fn f_ops_hash(x: usize, _c: &str) -> P {
    let mut l = vec![P::Key(20)];
    l.extend((0..x).map(|j| P::Hash(0, j)));
    l.push(P::Key(21));
    chain(l)
}
/// x executed opcodes exactly: (x-k)/2 relative locks (2 opcodes each) and k in {1,2} keys
fn f_ops_exact(x: usize, _c: &str) -> P {
    let k = if x % 2 == 1 { 1 } else { 2 };
    let a = (x - k) / 2;
    let mut l: Vec<P> = (0..a).map(|_| P::Older(1)).collect();
    l.extend(keys(20, k));
    chain(l)
}
/// x opcodes with hash160 locks (4 opcodes, 27 bytes) and keys for the remainder
fn f_ops_hash160(x: usize, _c: &str) -> P {
    let h = 44; // 176 opcodes
    let mut l: Vec<P> = (0..h).map(|j| P::Hash(3, j)).collect();
    l.extend(keys(20, x - 4 * h));
    chain(l)
}
/// x keys: x witness items (+ the script), 35 bytes and 1 opcode each
fn f_keys(x: usize, _c: &str) -> P { chain(keys(20, x)) }
/// 13 keys (455 bytes) and x filler bytes: P2SH 520-byte limit
fn f_size_sh(x: usize, _c: &str) -> P {
    let mut l = fillers(x);
    l.extend(keys(20, 13));
    chain(l)
}
/// 5 x multi(1, 20 keys) + 4 keys + x filler bytes: the 3600-byte P2WSH standardness limit with
/// few opcodes and few witness items
fn f_size_wsh(x: usize, _c: &str) -> P {
    let mut l: Vec<P> = (0..5).map(|i| P::Thresh(1, keys(100 + 20 * i, 20))).collect();
    l.extend(fillers(x));
    l.extend(keys(20, 4));
    chain(l)
}
/// 7 x multi(1, 20 uncompressed keys) + multi(1, 10 uncompressed keys) + x filler bytes + a key: the 10000-byte
/// consensus limit of a bare script (real keys only)
fn f_size_bare(x: usize, _c: &str) -> P {
    // single uncompressed keys would be compiled as pk_h (4 opcodes each) and hit the opcode limit
    // first: only multis carry the bytes, one compressed key closes the conjunction
    let mut l: Vec<P> = (0..7).map(|i| P::Thresh(1, keys(UNC_FROM + 20 * i, 20))).collect();
    l.push(P::Thresh(1, keys(UNC_FROM + 140, 10)));
    l.extend(fillers(x));
    l.push(P::Key(20));
    chain(l)
}
/// thresh(x/2, x keys): multi up to 20 keys, thresh(pk, s:pk, ..) (3 opcodes per key) beyond;
/// multi_a in Tap (up to 999 keys, 1000 stack elements)
fn f_thresh_n(x: usize, _c: &str) -> P { P::Thresh(std::cmp::max(1, x / 2), keys(20, x)) }
/// thresh(30, 60 keys) and x more keys: opcode granularity 1 around a large threshold
fn f_thresh_plus(x: usize, _c: &str) -> P {
    let mut l = vec![P::Thresh(30, keys(100, 60))];
    l.extend(keys(20, x));
    chain(l)
}
/// thresh(1, x keys) and thresh(x-1, x keys) in Tap (x-of-x is compiled as a 1000-deep conjunction: far too slow): multi_a at the 999-key / 1000-element limit
/// multi_a over 985 keys and x more keys: Tap stack granularity 1 with a short conjunction
fn f_tap_thresh_plus(x: usize, _c: &str) -> P {
    let mut l = vec![P::Thresh(400, keys(100, 985))];
    l.extend(keys(20, x));
    chain(l)
}
fn f_thresh_one(x: usize, _c: &str) -> P { P::Thresh(1, keys(20, x)) }
fn f_thresh_all(x: usize, _c: &str) -> P { P::Thresh(x - 1, keys(20, x)) }

const NONTAP: &[&str] = &["bare", "legacy", "segwitv0"];
const ANYMODE: &[&str] = &["string", "real"];

fn families() -> Vec<Fam> {
    vec![
        Fam { name: "ops-2sig-xsha256", ctxs: &["segwitv0", "bare"], modes: ANYMODE, lo: 40, hi: 60, f: f_ops_hash },
        Fam { name: "ops-exact-older", ctxs: NONTAP, modes: ANYMODE, lo: 190, hi: 214, f: f_ops_exact },
        Fam { name: "ops-hash160-keys", ctxs: &["segwitv0", "bare"], modes: ANYMODE, lo: 180, hi: 215, f: f_ops_hash160 },
        Fam { name: "items-keys", ctxs: &["segwitv0"], modes: ANYMODE, lo: 80, hi: 120, f: f_keys },
        Fam { name: "size520-keys-fillers", ctxs: &["legacy"], modes: ANYMODE, lo: 20, hi: 110, f: f_size_sh },
        Fam { name: "size3600-multis-fillers", ctxs: &["segwitv0"], modes: ANYMODE, lo: 10, hi: 120, f: f_size_wsh },
        Fam { name: "size10000-uncompressed", ctxs: &["bare"], modes: &["real"], lo: 5, hi: 90, f: f_size_bare },
        Fam { name: "thresh-half-of-x", ctxs: &["legacy"], modes: ANYMODE, lo: 5, hi: 22, f: f_thresh_n },
        Fam { name: "thresh-half-of-x", ctxs: &["segwitv0", "bare"], modes: ANYMODE, lo: 21, hi: 90, f: f_thresh_n },
        Fam { name: "thresh30of60-plus-keys", ctxs: &["segwitv0", "bare"], modes: ANYMODE, lo: 1, hi: 60, f: f_thresh_plus },
        Fam { name: "tap-multi_a985-plus-keys", ctxs: &["tap"], modes: ANYMODE, lo: 1, hi: 30, f: f_tap_thresh_plus },
        // ~1000-leaf conjunction: minutes of compilation, thorough tier only
        Fam { name: "slow-tap-keys", ctxs: &["tap"], modes: ANYMODE, lo: 996, hi: 1003, f: f_keys },
        Fam { name: "tap-thresh-half-of-x", ctxs: &["tap"], modes: ANYMODE, lo: 992, hi: 1004, f: f_thresh_n },
        Fam { name: "tap-thresh-1-of-x", ctxs: &["tap"], modes: ANYMODE, lo: 992, hi: 1004, f: f_thresh_one },
        Fam { name: "tap-thresh-xminus1-of-x", ctxs: &["tap"], modes: ANYMODE, lo: 992, hi: 1004, f: f_thresh_all },
    ]
}

fn body(args: &[String]) {
    let seed: u64 = args.first().and_then(|s| s.parse().ok()).unwrap_or(1);
    let filter = args.get(1).cloned().unwrap_or_default();
    let ctx_filter = args.get(2).cloned().unwrap_or_default();
    if filter == "list" {
        for fam in families().iter() {
            for ctx in fam.ctxs.iter() {
                println!("{} {}", fam.name, ctx);
            }
        }
        return;
    }
    for (fi, fam) in families().iter().enumerate() {
        if !filter.is_empty() && fam.name != filter && !(ctx_filter.is_empty() && fam.name.contains(&filter)) {
            continue;
        }
        for (ci, ctx) in fam.ctxs.iter().enumerate() {
            if !ctx_filter.is_empty() && *ctx != ctx_filter {
                continue;
            }
            // one key mode per (family, context) and run, alternating with the seed
            let mode = fam.modes[((seed as usize) + fi + ci) % fam.modes.len()];
            let ok = |x: usize| ok_in_ctx(&(fam.f)(x, ctx), mode, ctx);
            let (mut lo, mut hi) = (fam.lo, fam.hi);
            if !ok(lo) || ok(hi) {
                println!("LIMSKIP family={} ctx={} mode={} reason={}", fam.name, ctx, mode,
                         if !ok(lo) { "low-end-refused" } else { "high-end-accepted" });
                // still emit the two ends so that whatever is returned is judged
                for x in [fam.lo, fam.hi] {
                    let mut out = String::new();
                    let id = format!("lim-{}-{}-{}", fam.name, ctx, x);
                    run_case(&mut out, &id, &format!("limit:{}", fam.name), &(fam.f)(x, ctx), mode, Some(if *ctx == "tap" { "taplim" } else { ctx }));
                    print!("{}", out);
                }
                continue;
            }
            while hi - lo > 1 {
                let mid = (lo + hi) / 2;
                if ok(mid) {
                    lo = mid
                } else {
                    hi = mid
                }
            }
            // lo = last accepted, hi = first refused (under the library being tested)
            println!("LIMBOUND family={} ctx={} mode={} last_ok={} first_err={}", fam.name, ctx, mode, lo, hi);
            let from = std::cmp::max(fam.lo, lo.saturating_sub(2));
            for x in from..=(hi + 1) {
                let mut out = String::new();
                let id = format!("lim-{}-{}-{}", fam.name, ctx, x);
                run_case(&mut out, &id, &format!("limit:{}", fam.name), &(fam.f)(x, ctx), mode, Some(if *ctx == "tap" { "taplim" } else { ctx }));
                print!("{}", out);
            }
        }
    }
}

pub fn run(args: &[String]) {
    // deep conjunctions: give the recursive walks plenty of stack
    let a: Vec<String> = args.to_vec();
    std::thread::Builder::new()
        .stack_size(1 << 30)
        .spawn(move || body(&a))
        .unwrap()
        .join()
        .unwrap();
}
