//! Miniscript text layer observations (property C10, model coq/Ms/MsTextModel.v):
//! `expression::Tree::from_str` + `Miniscript::<String, Ctx>::from_tree` (no `validate` step) in the
//! four contexts and `Display` of the parsed object, dumped as a Coq file.  Compared with the model's
//! `from_tree` / `to_tree` inside Coq (Tables/MsTextCasesCheck.v).
//!
//! Observation per context (list of numbers):
//!   [0; tokens...]   parsed; prefix-token dump of the AST (see `tokens`)
//!   [1; class]       error class (see `class`)
//!   [2]              panic
//!   [3]              Error::ContextError (context rules are not part of the text model; skipped in Coq)
//!   [4]              the contexts that accept disagree on the printed text
use super::rt::{render_full, MsGen, G};
use super::{coq_case, guarded, Rng};
use miniscript::expression::{FromTree, Tree};
use miniscript::{
    BareCtx, Error, Legacy, Miniscript, ParseError, ParseNumError, ParseThresholdError, ParseTreeError, ScriptContext, Segwitv0, Tap,
    Terminal,
};
use std::collections::BTreeMap;
use std::fmt::Write as _;

fn tok_str(out: &mut Vec<u64>, s: &str) {
    out.push(s.len() as u64);
    out.extend(s.bytes().map(|b| b as u64));
}

fn tokens<Ctx: ScriptContext>(t: &Terminal<String, Ctx>, out: &mut Vec<u64>) {
    let un = |tag: u64, x: &std::sync::Arc<Miniscript<String, Ctx>>, out: &mut Vec<u64>| {
        out.push(tag);
        tokens(x.as_inner(), out);
    };
    let bin = |tag: u64, x: &std::sync::Arc<Miniscript<String, Ctx>>, y: &std::sync::Arc<Miniscript<String, Ctx>>, out: &mut Vec<u64>| {
        out.push(tag);
        tokens(x.as_inner(), out);
        tokens(y.as_inner(), out);
    };
    let keys = |tag: u64, k: usize, ks: &[String], out: &mut Vec<u64>| {
        out.push(tag);
        out.push(k as u64);
        out.push(ks.len() as u64);
        for x in ks {
            tok_str(out, x);
        }
    };
    match t {
        Terminal::True => out.push(1),
        Terminal::False => out.push(2),
        Terminal::PkK(k) => {
            out.push(3);
            tok_str(out, k)
        }
        Terminal::PkH(k) => {
            out.push(4);
            tok_str(out, k)
        }
        Terminal::RawPkH(h) => {
            out.push(5);
            let b: &[u8] = h.as_ref();
            out.push(b.len() as u64);
            out.extend(b.iter().map(|x| *x as u64));
        }
        Terminal::After(n) => {
            out.push(6);
            out.push(n.to_consensus_u32() as u64)
        }
        Terminal::Older(n) => {
            out.push(7);
            out.push(n.to_consensus_u32() as u64)
        }
        Terminal::Sha256(h) => {
            out.push(8);
            tok_str(out, h)
        }
        Terminal::Hash256(h) => {
            out.push(9);
            tok_str(out, h)
        }
        Terminal::Ripemd160(h) => {
            out.push(10);
            tok_str(out, h)
        }
        Terminal::Hash160(h) => {
            out.push(11);
            tok_str(out, h)
        }
        Terminal::Alt(x) => un(12, x, out),
        Terminal::Swap(x) => un(13, x, out),
        Terminal::Check(x) => un(14, x, out),
        Terminal::DupIf(x) => un(15, x, out),
        Terminal::Verify(x) => un(16, x, out),
        Terminal::NonZero(x) => un(17, x, out),
        Terminal::ZeroNotEqual(x) => un(18, x, out),
        Terminal::AndV(a, b) => bin(19, a, b, out),
        Terminal::AndB(a, b) => bin(20, a, b, out),
        Terminal::AndOr(a, b, c) => {
            out.push(21);
            tokens(a.as_inner(), out);
            tokens(b.as_inner(), out);
            tokens(c.as_inner(), out);
        }
        Terminal::OrB(a, b) => bin(22, a, b, out),
        Terminal::OrD(a, b) => bin(23, a, b, out),
        Terminal::OrC(a, b) => bin(24, a, b, out),
        Terminal::OrI(a, b) => bin(25, a, b, out),
        Terminal::Thresh(th) => {
            out.push(26);
            out.push(th.k() as u64);
            out.push(th.data().len() as u64);
            for x in th.data() {
                tokens(x.as_inner(), out);
            }
        }
        Terminal::Multi(th) => keys(27, th.k(), th.data(), out),
        Terminal::SortedMulti(th) => keys(28, th.k(), th.data(), out),
        Terminal::MultiA(th) => keys(29, th.k(), th.data(), out),
        Terminal::SortedMultiA(th) => keys(30, th.k(), th.data(), out),
    }
}

fn class(e: &Error) -> Vec<u64> {
    let num = |e: &ParseNumError| match e {
        ParseNumError::InvalidLeadingDigit(..) => 0,
        ParseNumError::StdParse(..) => 1,
        _ => 90,
    };
    let c = match e {
        Error::Parse(ParseError::Tree(ParseTreeError::MultipleSeparators { .. })) => 1,
        Error::Parse(ParseError::Tree(ParseTreeError::IncorrectNumberOfChildren { .. })) => 2,
        Error::Parse(ParseError::Tree(ParseTreeError::UnknownName { .. })) => 3,
        Error::Parse(ParseError::Tree(ParseTreeError::IllegalCurlyBrace { .. })) => 4,
        Error::UnknownWrapper(..) => 5,
        Error::Parse(ParseError::Num(n)) => 6 + num(n),
        Error::Parse(ParseError::AbsoluteLockTime(..)) => 8,
        Error::Parse(ParseError::RelativeLockTime(..)) => 9,
        Error::Parse(ParseError::FromStr(..)) => 10,
        Error::ParseThreshold(ParseThresholdError::NoChildren) => 11,
        Error::ParseThreshold(ParseThresholdError::KNotTerminal) => 12,
        Error::ParseThreshold(ParseThresholdError::ParseK(n)) => 13 + num(n),
        Error::ParseThreshold(ParseThresholdError::Threshold(..)) => 15,
        Error::TypeCheck(..) | Error::MaxRecursiveDepthExceeded => 16,
        Error::ContextError(..) => return vec![3],
        _ => 99,
    };
    vec![1, c]
}

fn observe<Ctx: ScriptContext>(s: &str) -> (Vec<u64>, Option<String>) {
    guarded(|| match Tree::from_str(s) {
        Err(_) => (vec![1, 50], None),
        Ok(top) => match Miniscript::<String, Ctx>::from_tree(top.root()) {
            Ok(ms) => {
                let mut v = vec![0u64];
                tokens(ms.as_inner(), &mut v);
                (v, Some(ms.to_string()))
            }
            Err(e) => (class(&e), None),
        },
    })
    .unwrap_or((vec![2], None))
}

const H40: &str = "00112233445566778899aabbccddeeff01234567";

/// Bodies for the exhaustive wrapper sweep: every fragment kind with well-typed arguments.
fn sweep_bodies() -> Vec<String> {
    let mut v: Vec<String> = [
        "0", "1", "pk_k(A)", "pk_h(A)", "pk(A)", "pkh(A)", "after(7)", "older(9)", "sha256(H)", "hash256(H)", "ripemd160(H)",
        "hash160(H)", "and_v(v:pk(A),pk(B))", "and_b(pk(A),s:pk(B))", "and_n(pk(A),pk(B))", "andor(pk(A),pk(B),pk(C))",
        "or_b(pk(A),s:pk(B))", "or_d(pk(A),pk(B))", "or_c(pk(A),v:pk(B))", "or_i(pk(A),pk(B))", "thresh(2,pk(A),s:pk(B),s:pk(C))",
        "multi(1,A,B)", "sortedmulti(2,A,B)", "multi_a(1,A,B)", "sortedmulti_a(2,A,B)",
    ]
    .iter()
    .map(|s| s.to_string())
    .collect();
    v.push(format!("expr_raw_pkh({})", H40));
    v
}

fn directed() -> Vec<String> {
    let mut v: Vec<String> = [
        // wrapper prefix
        "x:pk(A)", "ax:pk(A)", "xa:pk(A)", "A:pk(A)", "a::pk(A)", "a:s:pk(A)", ":pk(A)", "a:", ":", "::", "a:b:c:d", "1:1", "a:1",
        "and_v(:pk(A),pk(B))", "and_v(v::pk(A),pk(B))", "and_v(vx:pk(A),pk(B))", "thresh(1,pk(A),:pk(B))", "multi:(1,A)",
        "s:thresh(1,pk(A))", "a:multi(1,A:B,C::D)", "x:multi(1,A)", "thresh:x(1,pk(A))", "a:b:thresh(1,pk(A))",
        "and_v(v:1,a:b:multi(1,A))", "or_i(0,a:b:c(1,2))",
        // arity
        "pk()", "pk(A,B)", "pk", "pk_k", "pk_k()", "pk_h(A,B)", "pkh", "pk(pk(A))", "pk(A(B))", "sha256(a(b))", "sha256", "sha256(H,H)",
        "and_v(pk(A))", "and_v(v:pk(A),pk(B),pk(C))", "and_v", "and_v(1)", "and_b(1)", "andor(pk(A),pk(B))", "andor(1)", "andor",
        "andor(pk(A),pk(B),pk(C),pk(D))", "and_n(pk(A))", "and_n(pk(A),pk(B),pk(C))", "or_b(1)", "or_c(1,1,1)", "or_d", "or_i(1)", "1(x)",
        "0(x)", "1()", "0(1,2)", "after", "after()", "after(1,2)", "older", "older(1,2)", "after(1(2))", "older(pk(A))",
        // thresholds
        "thresh(0,pk(A))", "thresh(3,pk(A),s:pk(B))", "thresh(1)", "thresh(2)", "thresh()", "thresh", "thresh(pk(A),pk(B))",
        "thresh(1(x),pk(A))", "thresh(1,1)", "thresh(1,0)", "thresh(1,pk(A))", "thresh(2,pk(A),s:pk(B))", "thresh(01,pk(A))",
        "thresh(+1,pk(A))", "thresh(4294967297,pk(A))", "thresh(4294967295,pk(A))", "thresh(,pk(A))", "thresh(1x,pk(A))", "thresh(-1,pk(A))",
        "thresh(00,pk(A))", "thresh(k,pk(A))", "thresh(1,pk(A),x)", "thresh(1,x,pk(A))", "thresh(1,1,1)", "thresh(2,1,1)",
        "multi(0,A)", "multi(2,A)", "multi(1)", "multi()", "multi", "multi(1,A(x))", "multi(1,A,B(x),C(y(z)))", "multi(A,B)", "multi(1(x),A)",
        "multi(01,A)", "multi(+1,A)", "multi(1,A,B,C)", "multi_a(3,A,B)", "multi_a(0,A)", "sortedmulti(1)", "sortedmulti_a(2,A)",
        "multi(1,)", "multi(,A)", "multi(1,and_v)", "multi(1,1)", "multi(1,pk(A))",
        // numbers
        "after(0)", "after(1)", "after(01)", "after(+1)", "after(2147483647)", "after(2147483648)", "after(4294967295)", "after(4294967296)",
        "after(99999999999999999999)", "after(a)", "after(1x)", "after(-1)", "after(00)", "after( 1)", "after(1 )", "after(0x10)",
        "after(500000000)", "after(499999999)", "older(0)", "older(00)", "older(1)", "older(2147483647)", "older(2147483648)",
        "older(4294967295)", "older(4294967296)", "older(65536)", "older(4194305)", "older(+5)", "older(05)", "older()", "older(x)",
        // curly braces, names
        "and_v{v:pk(A),pk(B)}", "pk{A}", "and_v(v:pk{A},pk(B))", "foo(A)", "PK(A)", "", "and_v(pk(A),)", "and_v(,)", "(A)", "()", "2", "00", "01",
        "and_v(v:pk(A),2)", "after(1,2,3)", "and_b (pk(A),s:pk(B))", "expr_raw_pk_h(A)", "pk_k(A)x",
        // leaves 0 / 1 in every position, sugar corner cases
        "v:1", "and_v(v:1,1)", "or_i(0,0)", "or_i(0,1)", "or_i(1,0)", "or_i(1,1)", "andor(1,1,0)", "andor(1,0,0)", "and_n(1,1)", "and_v(1,1)",
        "and_v(v:1,0)", "t:1", "t:v:1", "tv:1", "l:0", "u:0", "l:1", "u:1", "lu:0", "ul:0", "ll:1", "uu:1", "tl:1", "and_v(v:pk(A),1)",
        "or_i(0,pk(A))", "or_i(pk(A),0)", "andor(pk(A),pk(B),0)", "andor(pk(A),0,pk(B))", "andor(pk(A),0,0)", "c:pk_k(A)", "c:pk_h(A)",
        "cc:pk_k(A)", "ac:pk_k(A)", "ca:pk_k(A)", "and_v(vc:pk_k(A),c:pk_h(B))", "t:or_c(pk(A),v:pk(B))", "and_v(or_c(pk(A),v:pk(B)),1)",
        "c:and_v(v:pk(A),pk_k(B))", "c:or_i(pk_k(A),pk_h(B))", "c:andor(pk(A),pk_k(B),pk_h(C))", "dv:older(5)", "j:pk(A)", "n:pk(A)", "nj:pk(A)",
        "thresh(2,c:pk_k(A),sc:pk_k(B),a:pk(C))", "thresh(1,l:1,a:u:1)", "or_d(multi(1,A),t:v:1)",
    ]
    .iter()
    .map(|s| s.to_string())
    .collect();
    v.push(format!("expr_raw_pkh({})", H40));
    v.push(format!("c:expr_raw_pkh({})", H40));
    v.push(format!("c:expr_raw_pkh({})", H40.to_uppercase()));
    v.push(format!("expr_raw_pkh({})", &H40[..38]));
    v.push(format!("expr_raw_pkh({}00)", H40));
    v.push("expr_raw_pkh(zz)".to_string());
    v.push(format!("expr_raw_pkh({}g)", &H40[..39]));
    v.push("expr_raw_pkh()".to_string());
    v.push(format!("expr_raw_pkh({},{})", H40, H40));
    v.push(format!("and_v(v:c:expr_raw_pkh({}),pk(A))", H40));
    let keys = |n: usize| (0..n).map(|i| format!("K{}", i)).collect::<Vec<_>>().join(",");
    for n in [19usize, 20, 21] {
        v.push(format!("multi({},{})", n.min(20), keys(n)));
        v.push(format!("sortedmulti(1,{})", keys(n)));
        v.push(format!("multi_a({},{})", n, keys(n)));
    }
    v
}

fn mutate(s: &str, r: &mut Rng) -> String {
    const ALPH: &[u8] = b":(),01x+a:(),{2tv";
    let mut b = s.as_bytes().to_vec();
    let n = 1 + r.below(2);
    for _ in 0..n {
        let pos = r.below(b.len() as u64 + 1) as usize;
        match r.below(4) {
            0 if pos < b.len() => {
                b.remove(pos);
            }
            1 => b.insert(pos.min(b.len()), *r.pick(ALPH)),
            2 if pos + 1 < b.len() => b.swap(pos, pos + 1),
            _ if pos < b.len() => b[pos] = *r.pick(ALPH),
            _ => b.push(*r.pick(ALPH)),
        }
    }
    String::from_utf8_lossy(&b).into_owned()
}

pub fn run(seed: u64, tier: &str) {
    let thorough = tier == "thorough";
    let mut r = Rng(seed ^ 0x3c10_7e87);
    let mut cases: Vec<(String, &'static str)> = Vec::new();
    // (a) generated miniscripts in three spellings (the C10 round-trip generator), and the printed text
    let keyf = |i: u32| format!("K{}", i);
    let hashf = |_k: &'static str, i: u32| format!("H{}", i);
    let ngen = if thorough { 1500 } else { 260 };
    let mut gen_texts = Vec::new();
    for i in 0..ngen {
        let mut rr = Rng(r.next());
        let mut gen = MsGen { r: &mut rr, tap: i % 4 == 3, nkeys: 0, keyf: &keyf, hashf: &hashf };
        let g: G = gen.b((i % 4) as u32);
        let sugar = render_full(&g, &mut || true);
        let plain = render_full(&g, &mut || false);
        let mut flip = Rng(r.next());
        let mixed = render_full(&g, &mut || flip.chance(1, 2));
        gen_texts.push(sugar.clone());
        cases.push((sugar.clone(), "gen-sugar"));
        if plain != sugar {
            cases.push((plain.clone(), "gen-plain"));
        }
        if mixed != sugar && mixed != plain {
            cases.push((mixed, "gen-mixed"));
        }
    }
    // (b) every wrapper prefix of length <= 2 (thorough: <= 3) over every fragment kind; a seeded sample of length 3
    let wr: Vec<char> = "ascdvjntul".chars().collect();
    let bodies = sweep_bodies();
    let mut prefixes: Vec<String> = vec![];
    for a in &wr {
        prefixes.push(a.to_string());
        for b in &wr {
            prefixes.push(format!("{}{}", a, b));
        }
    }
    let mut p3: Vec<String> = vec![];
    for a in &wr {
        for b in &wr {
            for c in &wr {
                p3.push(format!("{}{}{}", a, b, c));
            }
        }
    }
    for body in &bodies {
        cases.push((body.clone(), "sweep"));
        for p in &prefixes {
            cases.push((format!("{}:{}", p, body), "sweep"));
        }
        if thorough {
            for p in &p3 {
                cases.push((format!("{}:{}", p, body), "sweep3"));
            }
        }
    }
    if !thorough {
        for _ in 0..1500 {
            let p = r.pick(&p3).clone();
            let b = r.pick(&bodies).clone();
            cases.push((format!("{}:{}", p, b), "sweep3"));
        }
    }
    // (c) directed malformed / corner texts
    for s in directed() {
        cases.push((s, "directed"));
    }
    // (d) seeded edits of generated texts
    let nmut = if thorough { 6000 } else { 1200 };
    for _ in 0..nmut {
        let s = r.pick(&gen_texts).clone();
        if s.len() > 160 {
            continue;
        }
        cases.push((mutate(&s, &mut r), "edited"));
    }
    // observe and emit
    let mut out = String::new();
    out.push_str("(* GENERATED by `verif-harness text mstext` from the compiled library; do not edit. *)\n");
    out.push_str("From Coq Require Import List Uint63.\nImport ListNotations.\nLocal Open Scope uint63_scope.\n");
    let mut parts = Vec::new();
    let mut hist: BTreeMap<String, usize> = Default::default();
    let mut khist: BTreeMap<&str, usize> = Default::default();
    let mut samples = Vec::new();
    let mut printed_n = 0usize;
    let mut all_ctx_err = 0usize;
    let lst = |v: &[u64]| format!("[{}]", v.iter().map(|x| x.to_string()).collect::<Vec<_>>().join(";"));
    for (ci, chunk) in cases.chunks(100).enumerate() {
        let pn = format!("mstext_cases_p{}", ci);
        let _ = write!(out, "Definition {} : list (list int * list (list int) * list int) := [", pn);
        for (j, (s, kind)) in chunk.iter().enumerate() {
            if j > 0 {
                out.push(';');
            }
            *khist.entry(kind).or_default() += 1;
            let mut obs = vec![observe::<BareCtx>(s), observe::<Legacy>(s), observe::<Segwitv0>(s), observe::<Tap>(s)];
            let printed: Option<String> = obs.iter().find_map(|o| o.1.clone());
            for o in obs.iter_mut() {
                if o.1.is_some() && o.1 != printed {
                    o.0 = vec![4];
                }
            }
            let key = {
                let best = obs.iter().map(|o| &o.0).find(|o| o[0] != 3).cloned().unwrap_or(vec![3]);
                match best[0] {
                    0 => "ok".to_string(),
                    1 => format!("err{}", best[1]),
                    2 => "panic".to_string(),
                    3 => "context-only".to_string(),
                    _ => "inconsistent".to_string(),
                }
            };
            if key == "context-only" {
                all_ctx_err += 1;
            }
            *hist.entry(key.clone()).or_default() += 1;
            if samples.len() < 8 && s.len() < 60 && (ci * 100 + j) % 211 == 0 {
                samples.push(format!("{:?} [{}] -> {} printed={:?}", s, kind, key, printed));
            }
            if printed.is_some() {
                printed_n += 1;
            }
            let pr = match &printed {
                Some(p) => coq_case(1, p.as_bytes()),
                None => "[0;0]".to_string(),
            };
            let _ = write!(
                out,
                "({}, [{}], {})",
                coq_case(0, s.as_bytes()),
                obs.iter().map(|o| lst(&o.0)).collect::<Vec<_>>().join(";"),
                pr
            );
        }
        out.push_str("].\n");
        parts.push(pn);
    }
    let _ = writeln!(
        out,
        "Definition mstext_cases : list (list int * list (list int) * list int) := {}.",
        if parts.is_empty() { "[]".to_string() } else { parts.join(" ++ ") }
    );
    print!("{}", out);
    eprintln!(
        "MSTEXT cases={} printed={} context_only={} kinds={} outcomes={}",
        cases.len(),
        printed_n,
        all_ctx_err,
        serde_like(&khist.iter().map(|(k, v)| (k.to_string(), *v)).collect()),
        serde_like(&hist)
    );
    for s in samples {
        eprintln!("MSTEXTSAMPLE {}", s);
    }
}

fn serde_like(m: &BTreeMap<String, usize>) -> String {
    format!("{{{}}}", m.iter().map(|(k, v)| format!("\"{}\": {}", k, v)).collect::<Vec<_>>().join(", "))
}

/// Replay helper: observe every line of a file in the four contexts.
pub fn observe_file(path: Option<&str>) {
    let text = path.map(|p| std::fs::read_to_string(p).unwrap_or_default()).unwrap_or_default();
    for line in text.lines() {
        let obs = [observe::<BareCtx>(line), observe::<Legacy>(line), observe::<Segwitv0>(line), observe::<Tap>(line)];
        println!(
            "MSTEXTOBS {:?} printed={:?} {}",
            obs.iter().map(|o| o.0.clone()).collect::<Vec<_>>(),
            obs.iter().find_map(|o| o.1.clone()),
            line
        );
    }
}
