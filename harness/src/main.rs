//! Verification harness: runs the real implementation (path dependency on /repo)
//! and prints canonical observations. One sub-command per engine.
mod policy;
mod tables;

fn main() {
    let args: Vec<String> = std::env::args().collect();
    if args.len() < 2 {
        eprintln!("usage: verif-harness <engine> [args]");
        std::process::exit(2);
    }
    match args[1].as_str() {
        "tables" => tables::run(&args[2..]),
        "policy" => policy::run(&args[2..]),
        other => {
            eprintln!("unknown engine {}", other);
            std::process::exit(2);
        }
    }
}
