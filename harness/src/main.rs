//! Verification harness: runs the real implementation (path dependency on /repo)
//! and prints canonical observations. One sub-command per engine.
mod ast;
mod codec;
mod sat;
mod tables;

fn main() {
    // panics of the library are caught with catch_unwind and reported as observations
    std::panic::set_hook(Box::new(|_| {}));
    let args: Vec<String> = std::env::args().collect();
    if args.len() < 2 {
        eprintln!("usage: verif-harness <engine> [args]");
        std::process::exit(2);
    }
    match args[1].as_str() {
        "tables" => tables::run(&args[2..]),
        "sat" => sat::run(&args[2..]),
        "codec" => codec::run(&args[2..]),
        other => {
            eprintln!("unknown engine {}", other);
            std::process::exit(2);
        }
    }
}
