//! Verification harness: runs the real implementation (path dependency on /repo)
//! and prints canonical observations. One sub-command per engine.
mod ast;
mod codec;
mod decparams;
mod interp;
mod interp_ftx;
mod climits;
mod compile;
mod frags;
mod lift;
mod ext;
mod ext_opsdir;
mod eqord;
mod robust;
mod sat;
mod rawpkh;
mod desc;
mod psbt;
mod policy;
mod poltext;
mod tables;
mod tap;
mod validate;
mod vgen;
mod vxlate;
mod vctor;
mod verboseiter;
mod text;
mod keytext;
mod translate;
mod translate_mp;
mod tree;

fn main() {
    // panics of the library are caught with catch_unwind and reported as observations
    if std::env::var("VERIF_PANIC_VERBOSE").is_err() {
        std::panic::set_hook(Box::new(|_| {}));
    }
    let args: Vec<String> = std::env::args().collect();
    if args.len() < 2 {
        eprintln!("usage: verif-harness <engine> [args]");
        std::process::exit(2);
    }
    match args[1].as_str() {
        "tables" => tables::run(&args[2..]),
        "sat" => sat::run(&args[2..]),
        "rawpkh" => rawpkh::run(&args[2..]),
        "codec" => codec::run(&args[2..]),
        "decparams" => decparams::run(&args[2..]),
        "interp" => interp::run(&args[2..]),
        "compile" => compile::run(&args[2..]),
        "compile-one" => compile::run_one(&args[2..]),
        "compile-limits" => climits::run(&args[2..]),
        "frags" => frags::run(&args[2..]),
        "tap" => tap::run(&args[2..]),
        "desc" => desc::run(&args[2..]),
        "psbt" => psbt::run(&args[2..]),
        "lift" => lift::run(&args[2..]),
        "validate" => validate::run(&args[2..]),
        "text" => text::run(&args[2..]),
        "keytext" => keytext::run(&args[2..]),
        "ext" => ext::run(&args[2..]),
        "opsdir" => ext_opsdir::run(&args[2..]),
        "eqord" => eqord::run(&args[2..]),
        "translate" => translate::run(&args[2..]),
        "translate-mp" => translate_mp::run(&args[2..]),
        "policy" => policy::run(&args[2..]),
        "poltext" => poltext::run(&args[2..]),
        "robust" => robust::run(&args[2..]),
        other => {
            eprintln!("unknown engine {}", other);
            std::process::exit(2);
        }
    }
}
