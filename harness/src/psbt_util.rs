//! Small utilities for the `psbt` engine: seeded PRNG, JSON text, digests.
use bitcoin::hashes::{sha256, Hash};

pub struct Rng(pub u64);
impl Rng {
    pub fn next(&mut self) -> u64 {
        self.0 = self.0.wrapping_add(0x9E37_79B9_7F4A_7C15);
        let mut z = self.0;
        z = (z ^ (z >> 30)).wrapping_mul(0xBF58_476D_1CE4_E5B9);
        z = (z ^ (z >> 27)).wrapping_mul(0x94D0_49BB_1331_11EB);
        z ^ (z >> 31)
    }
    pub fn below(&mut self, n: usize) -> usize {
        if n == 0 {
            0
        } else {
            (self.next() % (n as u64)) as usize
        }
    }
    pub fn chance(&mut self, num: u64, den: u64) -> bool { self.next() % den < num }
    pub fn bytes32(&mut self) -> [u8; 32] {
        let mut b = [0u8; 32];
        for k in 0..4 {
            b[k * 8..k * 8 + 8].copy_from_slice(&self.next().to_be_bytes());
        }
        b
    }
    pub fn shuffle<T>(&mut self, v: &mut [T]) {
        let n = v.len();
        for i in (1..n).rev() {
            let j = self.below(i + 1);
            v.swap(i, j);
        }
    }
    pub fn fork(&mut self) -> Rng { Rng(self.next()) }
}

pub fn hex(b: &[u8]) -> String {
    let mut s = String::with_capacity(b.len() * 2);
    for x in b {
        s.push_str(&format!("{:02x}", x));
    }
    s
}

/// Canonical content identifier: a tag and the first 10 bytes of SHA-256 of the bytes
/// (the empty string keeps the special name "empty").
pub fn dig(tag: &str, b: &[u8]) -> String {
    if b.is_empty() {
        return "empty".to_string();
    }
    let h = sha256::Hash::hash(b);
    format!("{}:{}", tag, hex(&h.to_byte_array()[..10]))
}

/// Minimal JSON value with a canonical printer (object keys keep insertion order).
#[derive(Clone, Debug, PartialEq)]
pub enum J {
    Null,
    B(bool),
    N(i64),
    S(String),
    A(Vec<J>),
    O(Vec<(String, J)>),
}

impl J {
    pub fn s(x: &str) -> J { J::S(x.to_string()) }
    pub fn opt_s(x: Option<String>) -> J {
        match x {
            Some(v) => J::S(v),
            None => J::Null,
        }
    }
    pub fn obj(v: Vec<(&str, J)>) -> J { J::O(v.into_iter().map(|(k, x)| (k.to_string(), x)).collect()) }
    pub fn write(&self, out: &mut String) {
        match self {
            J::Null => out.push_str("null"),
            J::B(b) => out.push_str(if *b { "true" } else { "false" }),
            J::N(n) => out.push_str(&n.to_string()),
            J::S(s) => {
                out.push('"');
                for c in s.chars() {
                    match c {
                        '"' => out.push_str("\\\""),
                        '\\' => out.push_str("\\\\"),
                        '\n' => out.push_str("\\n"),
                        '\t' => out.push_str("\\t"),
                        c if (c as u32) < 0x20 => out.push_str(&format!("\\u{:04x}", c as u32)),
                        c => out.push(c),
                    }
                }
                out.push('"');
            }
            J::A(v) => {
                out.push('[');
                for (i, x) in v.iter().enumerate() {
                    if i > 0 {
                        out.push(',');
                    }
                    x.write(out);
                }
                out.push(']');
            }
            J::O(v) => {
                out.push('{');
                for (i, (k, x)) in v.iter().enumerate() {
                    if i > 0 {
                        out.push(',');
                    }
                    J::S(k.clone()).write(out);
                    out.push(':');
                    x.write(out);
                }
                out.push('}');
            }
        }
    }
    pub fn to_string(&self) -> String {
        let mut s = String::new();
        self.write(&mut s);
        s
    }
}
