//! A plain, mutable mirror of `Terminal` trees used by the eqord / translate engines to build
//! directed variants of generated values. Keys, hashes are indices into the `World`.
use crate::ast::{hex, Key, World, N_PRE};
use bitcoin::hashes::{hash160, Hash};
use miniscript::miniscript::ScriptContext;
use miniscript::{AbsLockTime, Miniscript, RelLockTime, Terminal, Threshold};
use std::sync::Arc;

#[derive(Copy, Clone, PartialEq, Eq, Debug, Hash, PartialOrd, Ord)]
pub enum Tg {
    True,
    False,
    PkK,
    PkH,
    RawPkH,
    After,
    Older,
    Sha256,
    Hash256,
    Ripemd160,
    Hash160,
    Alt,
    Swap,
    Check,
    DupIf,
    Verify,
    NonZero,
    ZeroNotEqual,
    AndV,
    AndB,
    AndOr,
    OrB,
    OrD,
    OrC,
    OrI,
    Thresh,
    Multi,
    SortedMulti,
    MultiA,
    SortedMultiA,
}

impl Tg {
    pub fn name(self) -> &'static str {
        match self {
            Tg::True => "1",
            Tg::False => "0",
            Tg::PkK => "pk_k",
            Tg::PkH => "pk_h",
            Tg::RawPkH => "raw_pk_h",
            Tg::After => "after",
            Tg::Older => "older",
            Tg::Sha256 => "sha256",
            Tg::Hash256 => "hash256",
            Tg::Ripemd160 => "ripemd160",
            Tg::Hash160 => "hash160",
            Tg::Alt => "a",
            Tg::Swap => "s",
            Tg::Check => "c",
            Tg::DupIf => "d",
            Tg::Verify => "v",
            Tg::NonZero => "j",
            Tg::ZeroNotEqual => "n",
            Tg::AndV => "and_v",
            Tg::AndB => "and_b",
            Tg::AndOr => "andor",
            Tg::OrB => "or_b",
            Tg::OrD => "or_d",
            Tg::OrC => "or_c",
            Tg::OrI => "or_i",
            Tg::Thresh => "thresh",
            Tg::Multi => "multi",
            Tg::SortedMulti => "sortedmulti",
            Tg::MultiA => "multi_a",
            Tg::SortedMultiA => "sortedmulti_a",
        }
    }
    pub fn is_multi(self) -> bool {
        matches!(self, Tg::Multi | Tg::SortedMulti | Tg::MultiA | Tg::SortedMultiA)
    }
}

/// `num`: key index (PkK/PkH/RawPkH), lock time (After/Older), preimage index (hashes), k (thresh/multi)
#[derive(Clone, PartialEq, Eq, Debug)]
pub struct T {
    pub tg: Tg,
    pub num: u32,
    pub keys: Vec<usize>,
    pub kids: Vec<T>,
}

impl T {
    pub fn leaf(tg: Tg, num: u32) -> T { T { tg, num, keys: vec![], kids: vec![] } }
    pub fn un(tg: Tg, x: T) -> T { T { tg, num: 0, keys: vec![], kids: vec![x] } }
    pub fn bin(tg: Tg, x: T, y: T) -> T { T { tg, num: 0, keys: vec![], kids: vec![x, y] } }
    pub fn pk(i: usize) -> T { T::un(Tg::Check, T::leaf(Tg::PkK, i as u32)) }
    pub fn size(&self) -> usize { 1 + self.kids.iter().map(|k| k.size()).sum::<usize>() }
    pub fn has(&self, f: &dyn Fn(&T) -> bool) -> bool { f(self) || self.kids.iter().any(|k| k.has(f)) }
}

pub fn raw_pkh(w: &World, i: usize, tap: bool) -> hash160::Hash { hash160::Hash::hash(&w.key_bytes(i, tap)) }

pub fn from_terminal<Ctx: ScriptContext>(w: &World, tap: bool, t: &Terminal<Key, Ctx>) -> T {
    let pre = |f: &dyn Fn(usize) -> Vec<u8>, h: &[u8]| -> u32 {
        (0..N_PRE).find(|&j| f(j) == h).expect("hash from the world") as u32
    };
    let ks = |th: &[Key]| -> Vec<usize> { th.iter().map(|k| w.key_index(k)).collect() };
    let un = |tg: Tg, x: &Arc<Miniscript<Key, Ctx>>| T::un(tg, from_terminal(w, tap, &x.node));
    let bin = |tg: Tg, x: &Arc<Miniscript<Key, Ctx>>, y: &Arc<Miniscript<Key, Ctx>>| {
        T::bin(tg, from_terminal(w, tap, &x.node), from_terminal(w, tap, &y.node))
    };
    match t {
        Terminal::True => T::leaf(Tg::True, 0),
        Terminal::False => T::leaf(Tg::False, 0),
        Terminal::PkK(k) => T::leaf(Tg::PkK, w.key_index(k) as u32),
        Terminal::PkH(k) => T::leaf(Tg::PkH, w.key_index(k) as u32),
        Terminal::RawPkH(h) => {
            let i = (0..crate::ast::N_KEYS).find(|&i| raw_pkh(w, i, tap) == *h).expect("raw pkh from the world");
            T::leaf(Tg::RawPkH, i as u32)
        }
        Terminal::After(x) => T::leaf(Tg::After, x.to_consensus_u32()),
        Terminal::Older(x) => T::leaf(Tg::Older, x.to_consensus_u32()),
        Terminal::Sha256(h) => T::leaf(Tg::Sha256, pre(&|j| w.sha256_img(j).as_byte_array().to_vec(), h.as_byte_array())),
        Terminal::Hash256(h) => T::leaf(Tg::Hash256, pre(&|j| w.hash256_img(j).as_byte_array().to_vec(), h.as_byte_array())),
        Terminal::Ripemd160(h) => {
            T::leaf(Tg::Ripemd160, pre(&|j| w.ripemd160_img(j).as_byte_array().to_vec(), h.as_byte_array()))
        }
        Terminal::Hash160(h) => T::leaf(Tg::Hash160, pre(&|j| w.hash160_img(j).as_byte_array().to_vec(), h.as_byte_array())),
        Terminal::Alt(x) => un(Tg::Alt, x),
        Terminal::Swap(x) => un(Tg::Swap, x),
        Terminal::Check(x) => un(Tg::Check, x),
        Terminal::DupIf(x) => un(Tg::DupIf, x),
        Terminal::Verify(x) => un(Tg::Verify, x),
        Terminal::NonZero(x) => un(Tg::NonZero, x),
        Terminal::ZeroNotEqual(x) => un(Tg::ZeroNotEqual, x),
        Terminal::AndV(x, y) => bin(Tg::AndV, x, y),
        Terminal::AndB(x, y) => bin(Tg::AndB, x, y),
        Terminal::AndOr(a, b, c) => T {
            tg: Tg::AndOr,
            num: 0,
            keys: vec![],
            kids: vec![from_terminal(w, tap, &a.node), from_terminal(w, tap, &b.node), from_terminal(w, tap, &c.node)],
        },
        Terminal::OrB(x, y) => bin(Tg::OrB, x, y),
        Terminal::OrD(x, y) => bin(Tg::OrD, x, y),
        Terminal::OrC(x, y) => bin(Tg::OrC, x, y),
        Terminal::OrI(x, y) => bin(Tg::OrI, x, y),
        Terminal::Thresh(th) => T {
            tg: Tg::Thresh,
            num: th.k() as u32,
            keys: vec![],
            kids: th.iter().map(|x| from_terminal(w, tap, &x.node)).collect(),
        },
        Terminal::Multi(th) => T { tg: Tg::Multi, num: th.k() as u32, keys: ks(th.data()), kids: vec![] },
        Terminal::SortedMulti(th) => T { tg: Tg::SortedMulti, num: th.k() as u32, keys: ks(th.data()), kids: vec![] },
        Terminal::MultiA(th) => T { tg: Tg::MultiA, num: th.k() as u32, keys: ks(th.data()), kids: vec![] },
        Terminal::SortedMultiA(th) => T { tg: Tg::SortedMultiA, num: th.k() as u32, keys: ks(th.data()), kids: vec![] },
    }
}

/// Build the library value bottom-up. `from_ast` where it type-checks; nodes it rejects are still
/// built (`from_components_unchecked` with a placeholder type) because Eq/Ord/Hash/Display are
/// defined on every `Terminal`. Returns (value, whether every node passed `from_ast`).
pub fn build<Ctx: ScriptContext>(w: &World, tap: bool, t: &T) -> Option<(Miniscript<Key, Ctx>, bool)> {
    let mut all_ok = true;
    let mut kids: Vec<Arc<Miniscript<Key, Ctx>>> = Vec::new();
    for k in &t.kids {
        let (m, ok) = build::<Ctx>(w, tap, k)?;
        all_ok &= ok;
        kids.push(Arc::new(m));
    }
    let key = |i: usize| w.key(i, tap);
    let ks = |v: &Vec<usize>| -> Vec<Key> { v.iter().map(|&i| w.key(i, tap)).collect() };
    let j = t.num as usize;
    // The term is constructed afresh for each use (children are shared through Arc): the harness
    // never calls Terminal::clone / Miniscript::clone on its own account, they are observed operations.
    let mk = || -> Option<Terminal<Key, Ctx>> {
        Some(match t.tg {
            Tg::True => Terminal::True,
            Tg::False => Terminal::False,
            Tg::PkK => Terminal::PkK(key(j)),
            Tg::PkH => Terminal::PkH(key(j)),
            Tg::RawPkH => Terminal::RawPkH(raw_pkh(w, j, tap)),
            Tg::After => Terminal::After(AbsLockTime::from_consensus(t.num).ok()?),
            Tg::Older => Terminal::Older(RelLockTime::from_consensus(t.num).ok()?),
            Tg::Sha256 => Terminal::Sha256(w.sha256_img(j)),
            Tg::Hash256 => Terminal::Hash256(w.hash256_img(j)),
            Tg::Ripemd160 => Terminal::Ripemd160(w.ripemd160_img(j)),
            Tg::Hash160 => Terminal::Hash160(w.hash160_img(j)),
            Tg::Alt => Terminal::Alt(Arc::clone(&kids[0])),
            Tg::Swap => Terminal::Swap(Arc::clone(&kids[0])),
            Tg::Check => Terminal::Check(Arc::clone(&kids[0])),
            Tg::DupIf => Terminal::DupIf(Arc::clone(&kids[0])),
            Tg::Verify => Terminal::Verify(Arc::clone(&kids[0])),
            Tg::NonZero => Terminal::NonZero(Arc::clone(&kids[0])),
            Tg::ZeroNotEqual => Terminal::ZeroNotEqual(Arc::clone(&kids[0])),
            Tg::AndV => Terminal::AndV(Arc::clone(&kids[0]), Arc::clone(&kids[1])),
            Tg::AndB => Terminal::AndB(Arc::clone(&kids[0]), Arc::clone(&kids[1])),
            Tg::AndOr => Terminal::AndOr(Arc::clone(&kids[0]), Arc::clone(&kids[1]), Arc::clone(&kids[2])),
            Tg::OrB => Terminal::OrB(Arc::clone(&kids[0]), Arc::clone(&kids[1])),
            Tg::OrD => Terminal::OrD(Arc::clone(&kids[0]), Arc::clone(&kids[1])),
            Tg::OrC => Terminal::OrC(Arc::clone(&kids[0]), Arc::clone(&kids[1])),
            Tg::OrI => Terminal::OrI(Arc::clone(&kids[0]), Arc::clone(&kids[1])),
            Tg::Thresh => Terminal::Thresh(Threshold::new(j, kids.iter().map(Arc::clone).collect()).ok()?),
            Tg::Multi => Terminal::Multi(Threshold::new(j, ks(&t.keys)).ok()?),
            Tg::SortedMulti => Terminal::SortedMulti(Threshold::new(j, ks(&t.keys)).ok()?),
            Tg::MultiA => Terminal::MultiA(Threshold::new(j, ks(&t.keys)).ok()?),
            Tg::SortedMultiA => Terminal::SortedMultiA(Threshold::new(j, ks(&t.keys)).ok()?),
        })
    };
    match Miniscript::from_ast(mk()?) {
        Ok(m) => Some((m, all_ok)),
        Err(_) => {
            let dummy = Miniscript::<Key, Ctx>::TRUE;
            Some((Miniscript::from_components_unchecked(mk()?, dummy.ty, dummy.ext), false))
        }
    }
}

/// The harness's own dump of a `T` in the format of `ast::dump_str` (cross-checks `build`).
pub fn tdump(w: &World, tap: bool, t: &T, out: &mut Vec<String>) {
    out.push(t.tg.name().to_string());
    let j = t.num as usize;
    match t.tg {
        Tg::PkK | Tg::PkH => out.push(j.to_string()),
        Tg::RawPkH => out.push(hex(raw_pkh(w, j, tap).as_byte_array())),
        Tg::After | Tg::Older => out.push(t.num.to_string()),
        Tg::Sha256 => out.push(hex(w.sha256_img(j).as_byte_array())),
        Tg::Hash256 => out.push(hex(w.hash256_img(j).as_byte_array())),
        Tg::Ripemd160 => out.push(hex(w.ripemd160_img(j).as_byte_array())),
        Tg::Hash160 => out.push(hex(w.hash160_img(j).as_byte_array())),
        Tg::Thresh => {
            out.push(t.num.to_string());
            out.push(t.kids.len().to_string());
        }
        Tg::Multi | Tg::SortedMulti | Tg::MultiA | Tg::SortedMultiA => {
            out.push(t.num.to_string());
            out.push(t.keys.len().to_string());
            for k in &t.keys {
                out.push(k.to_string());
            }
        }
        _ => {}
    }
    for k in &t.kids {
        tdump(w, tap, k, out);
    }
}

pub fn tdump_str(w: &World, tap: bool, t: &T) -> String {
    let mut v = Vec::new();
    tdump(w, tap, t, &mut v);
    v.join(" ")
}

/// all paths (child indices from the root) of the tree, pre-order
pub fn paths(t: &T) -> Vec<Vec<usize>> {
    fn go(t: &T, cur: &mut Vec<usize>, out: &mut Vec<Vec<usize>>) {
        out.push(cur.clone());
        for (i, k) in t.kids.iter().enumerate() {
            cur.push(i);
            go(k, cur, out);
            cur.pop();
        }
    }
    let mut out = Vec::new();
    go(t, &mut Vec::new(), &mut out);
    out
}

pub fn at<'a>(t: &'a T, path: &[usize]) -> &'a T {
    let mut cur = t;
    for &i in path {
        cur = &cur.kids[i];
    }
    cur
}

/// copy of `t` with the subtree at `path` replaced
pub fn replace_at(t: &T, path: &[usize], new: T) -> T {
    if path.is_empty() {
        return new;
    }
    let mut c = t.clone();
    c.kids[path[0]] = replace_at(&t.kids[path[0]], &path[1..], new);
    c
}

/// Parse a dump (format of `ast::dump_str`) back into a `T`; used to replay a recorded case.
pub fn parse_dump(w: &World, tap: bool, tok: &[&str], pos: &mut usize) -> Option<T> {
    let name = *tok.get(*pos)?;
    *pos += 1;
    let all = [
        Tg::True, Tg::False, Tg::PkK, Tg::PkH, Tg::RawPkH, Tg::After, Tg::Older, Tg::Sha256, Tg::Hash256, Tg::Ripemd160,
        Tg::Hash160, Tg::Alt, Tg::Swap, Tg::Check, Tg::DupIf, Tg::Verify, Tg::NonZero, Tg::ZeroNotEqual, Tg::AndV, Tg::AndB,
        Tg::AndOr, Tg::OrB, Tg::OrD, Tg::OrC, Tg::OrI, Tg::Thresh, Tg::Multi, Tg::SortedMulti, Tg::MultiA, Tg::SortedMultiA,
    ];
    let tg = *all.iter().find(|t| t.name() == name)?;
    let mut next = |pos: &mut usize| -> Option<&str> {
        let t = *tok.get(*pos)?;
        *pos += 1;
        Some(t)
    };
    let pre = |f: &dyn Fn(usize) -> Vec<u8>, h: &str| -> Option<u32> { (0..N_PRE).find(|&j| hex(&f(j)) == h).map(|j| j as u32) };
    match tg {
        Tg::True | Tg::False => Some(T::leaf(tg, 0)),
        Tg::PkK | Tg::PkH => Some(T::leaf(tg, next(pos)?.parse().ok()?)),
        Tg::RawPkH => {
            let h = next(pos)?;
            let i = (0..crate::ast::N_KEYS).find(|&i| hex(raw_pkh(w, i, tap).as_byte_array()) == h)?;
            Some(T::leaf(tg, i as u32))
        }
        Tg::After | Tg::Older => Some(T::leaf(tg, next(pos)?.parse().ok()?)),
        Tg::Sha256 => Some(T::leaf(tg, pre(&|j| w.sha256_img(j).as_byte_array().to_vec(), next(pos)?)?)),
        Tg::Hash256 => Some(T::leaf(tg, pre(&|j| w.hash256_img(j).as_byte_array().to_vec(), next(pos)?)?)),
        Tg::Ripemd160 => Some(T::leaf(tg, pre(&|j| w.ripemd160_img(j).as_byte_array().to_vec(), next(pos)?)?)),
        Tg::Hash160 => Some(T::leaf(tg, pre(&|j| w.hash160_img(j).as_byte_array().to_vec(), next(pos)?)?)),
        Tg::Alt | Tg::Swap | Tg::Check | Tg::DupIf | Tg::Verify | Tg::NonZero | Tg::ZeroNotEqual => {
            Some(T::un(tg, parse_dump(w, tap, tok, pos)?))
        }
        Tg::AndV | Tg::AndB | Tg::OrB | Tg::OrD | Tg::OrC | Tg::OrI => {
            let x = parse_dump(w, tap, tok, pos)?;
            let y = parse_dump(w, tap, tok, pos)?;
            Some(T::bin(tg, x, y))
        }
        Tg::AndOr => {
            let a = parse_dump(w, tap, tok, pos)?;
            let b = parse_dump(w, tap, tok, pos)?;
            let c = parse_dump(w, tap, tok, pos)?;
            Some(T { tg, num: 0, keys: vec![], kids: vec![a, b, c] })
        }
        Tg::Thresh => {
            let k: u32 = next(pos)?.parse().ok()?;
            let n: usize = next(pos)?.parse().ok()?;
            let mut kids = Vec::new();
            for _ in 0..n {
                kids.push(parse_dump(w, tap, tok, pos)?);
            }
            Some(T { tg, num: k, keys: vec![], kids })
        }
        Tg::Multi | Tg::SortedMulti | Tg::MultiA | Tg::SortedMultiA => {
            let k: u32 = next(pos)?.parse().ok()?;
            let n: usize = next(pos)?.parse().ok()?;
            let mut keys = Vec::new();
            for _ in 0..n {
                keys.push(next(pos)?.parse().ok()?);
            }
            Some(T { tg, num: k, keys, kids: vec![] })
        }
    }
}
