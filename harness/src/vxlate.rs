//! C12: (1) every way of producing a `Threshold` keeps 1 <= k <= n (<= MAX); (2) the TRANSLATING
//! entry points (`Descriptor::<String>::translate_pk`, `Descriptor::parse_descriptor` with public
//! and secret keys, `Descriptor::<DescriptorPublicKey>::translate_pk`, `WalletPolicy::into_descriptor`)
//! for every descriptor type, offered every key kind in every key position, judged by the same
//! oracle as the parsers: accepted implies the context rules hold.
use crate::validate::key_table;
use crate::vgen::*;
use miniscript::bitcoin::{self, bip32, secp256k1};
use miniscript::descriptor::{ShInner, WalletPolicy};
use miniscript::{
    translate_hash_fail, Descriptor, DescriptorPublicKey as DPk, Miniscript, MiniscriptKey, ScriptContext, Terminal, Threshold, Translator,
};
use std::collections::BTreeMap;
use std::panic::{catch_unwind, AssertUnwindSafe};
use std::str::FromStr;

// ------------------------------------------------------------------ thresholds
/// a Vec iterator whose `size_hint` lower bound is overridden
struct Hinted<T> { it: std::vec::IntoIter<T>, lo: usize }
impl<T> Iterator for Hinted<T> {
    type Item = T;
    fn next(&mut self) -> Option<T> { self.it.next() }
    fn size_hint(&self) -> (usize, Option<usize>) { (self.lo, None) }
}
fn hint_for(mode: usize, n: usize) -> usize { match mode { 0 => n, 1 => 0, 2 => n / 2, _ => n + 3 } }
pub fn from_iter_ok<const M: usize>(k: usize, n: usize, mode: usize) -> Option<(usize, usize)> {
    Threshold::<u8, M>::from_iter(k, Hinted { it: vec![0u8; n].into_iter(), lo: hint_for(mode, n) }).ok().map(|t| (t.k(), t.n()))
}
fn in_range(m: usize, k: usize, n: usize) -> bool { k >= 1 && k <= n && (m == 0 || n <= m) }

/// rows for the Coq table: (MAX, k, hint, n, ok)
pub fn from_iter_rows() -> Vec<(usize, usize, usize, usize, bool)> {
    let mut rows = vec![];
    for (m, nmax) in [(0usize, 30usize), (20, 24), (999, 1003)] {
        for n in (0..=nmax).filter(|n| m != 999 || *n <= 4 || *n >= 995) {
            let mut ks = vec![0usize, 1, 2, n.saturating_sub(1), n, n + 1, n + 2, m, m + 1];
            ks.sort(); ks.dedup();
            for k in ks {
                for mode in 0..4 {
                    let r = match m { 0 => from_iter_ok::<0>(k, n, mode), 20 => from_iter_ok::<20>(k, n, mode), _ => from_iter_ok::<999>(k, n, mode) };
                    rows.push((m, k, hint_for(mode, n), n, r.is_some()));
                }
            }
        }
    }
    rows
}

fn jstr(s: &str) -> String { format!("\"{}\"", s.replace('\\', "\\\\").replace('"', "\\\"")) }

/// every producer of a Threshold, at the boundaries: the result must be in range and keep k, n
pub fn threshold_sweep() -> Vec<(String, String, String)> {
    let mut viol = vec![];
    let keys = key_table();
    let mut push = |key: &str, what: String, input: String| viol.push((key.to_string(), what, input));
    for (m, nmax) in [(0usize, 30usize), (20, 24), (999, 1003)] {
        for n in (0..=nmax).filter(|n| m != 999 || *n <= 4 || *n >= 995) {
            for k in [0usize, 1, 2, n.saturating_sub(1), n, n + 1, n + 2, m + 1] {
                for mode in 0..4 {
                    let r = match m { 0 => from_iter_ok::<0>(k, n, mode), 20 => from_iter_ok::<20>(k, n, mode), _ => from_iter_ok::<999>(k, n, mode) };
                    if let Some((rk, rn)) = r {
                        if !in_range(m, rk, rn) || rk != k || rn != n {
                            // the consequence at a constructor: a descriptor the parser refuses
                            let mut cons = String::new();
                            if m == 20 && n >= 1 {
                                let ks: Vec<DPk> = (0..n).map(|i| DPk::from_str(&keys.comp[i].s).unwrap()).collect();
                                let it = Hinted { it: ks.into_iter(), lo: hint_for(mode, n) };
                                let built = catch_unwind(AssertUnwindSafe(|| {
                                    Threshold::<DPk, 20>::from_iter(k, it).ok().map(|t| Descriptor::new_wsh(Miniscript::multi(t)).map(|d| format!("{:#}", d)).map_err(|e| e.to_string()))
                                }));
                                cons = match built {
                                    Ok(Some(Ok(d))) => format!("; Descriptor::new_wsh(Miniscript::multi(..)) then builds `{}`, which Descriptor::from_str {}",
                                        if d.len() > 200 { format!("{}...", &d[..200]) } else { d.clone() },
                                        if Descriptor::<DPk>::from_str(&d).is_ok() { "accepts" } else { "refuses" }),
                                    Ok(Some(Err(e))) => format!("; Descriptor::new_wsh refuses it: {}", e),
                                    Ok(None) => String::new(),
                                    Err(_) => "; building the descriptor panics".into(),
                                };
                            }
                            push(if cons.contains("then builds") { "threshold-from_iter:descriptor" } else { "threshold-from_iter" }, format!("Threshold::<_, {}>::from_iter({}, iterator of {} items with size_hint().0 = {}) returns Ok(k = {}, n = {}); the range is 1 <= k <= n{}{}",
                                m, k, n, hint_for(mode, n), rk, rn, if m == 0 { String::new() } else { format!(" <= {}", m) }, cons),
                                format!("{{\"MAX\":{},\"k\":{},\"n\":{},\"size_hint\":{}}}", m, k, n, hint_for(mode, n)));
                        }
                    } else if in_range(m, k, n) && mode != 3 {
                        push("threshold-from_iter", format!("Threshold::<_, {}>::from_iter({}, {} items, size_hint().0 = {}) is refused although 1 <= k <= n{}", m, k, n, hint_for(mode, n),
                            if m == 0 { String::new() } else { format!(" <= {}", m) }), format!("{{\"MAX\":{},\"k\":{},\"n\":{},\"size_hint\":{}}}", m, k, n, hint_for(mode, n)));
                    }
                }
            }
        }
    }
    // the producers that start from a valid threshold keep k and n
    for (k, n) in [(1usize, 1usize), (1, 3), (2, 3), (3, 3), (20, 20), (1, 20)] {
        let t = Threshold::<u32, 20>::new(k, (0..n as u32).collect()).unwrap();
        let mut outs: Vec<(&str, usize, usize)> = vec![];
        let a = t.clone().map(|x| x + 1); outs.push(("map", a.k(), a.n()));
        let a = t.map_ref(|x| *x as u64); outs.push(("map_ref", a.k(), a.n()));
        let a = t.clone().translate(|x| Ok::<u64, ()>(x as u64)).unwrap(); outs.push(("translate", a.k(), a.n()));
        let a = t.translate_ref(|x| Ok::<u64, ()>(*x as u64)).unwrap(); outs.push(("translate_ref", a.k(), a.n()));
        let a = t.translate_by_index(|i| Ok::<usize, ()>(i)).unwrap(); outs.push(("translate_by_index", a.k(), a.n()));
        let a = t.clone().forget_maximum(); outs.push(("forget_maximum", a.k(), a.n()));
        let a = t.clone().into_sorted(|x| *x); outs.push(("into_sorted", a.k(), a.n()));
        if let Ok(a) = t.clone().set_maximum::<999>() { outs.push(("set_maximum<999>", a.k(), a.n())); } else { push("threshold-producer", format!("set_maximum::<999> refuses a valid {}-of-{}", k, n), format!("{{\"k\":{},\"n\":{}}}", k, n)); }
        if n > 3 { if let Ok(a) = t.clone().set_maximum::<3>() { push("threshold-producer", format!("set_maximum::<3> accepts {}-of-{}", a.k(), a.n()), format!("{{\"k\":{},\"n\":{}}}", k, n)); } }
        for (name, rk, rn) in outs {
            if rk != k || rn != n { push("threshold-producer", format!("Threshold::{} turns {}-of-{} into {}-of-{}", name, k, n, rk, rn), format!("{{\"k\":{},\"n\":{},\"producer\":\"{}\"}}", k, n, name)); }
        }
    }
    let a = Threshold::<u8, 0>::or(1, 2); let b = Threshold::<u8, 0>::and(1, 2);
    if (a.k(), a.n(), b.k(), b.n()) != (1, 2, 2, 2) { push("threshold-producer", "Threshold::or / and are not 1-of-2 / 2-of-2".into(), "{}".into()); }
    let a = Threshold::<u8, 0>::or_n(vec![1, 2, 3]); let b = Threshold::<u8, 0>::and_n(vec![1, 2, 3]);
    if (a.k(), a.n(), b.k(), b.n()) != (1, 3, 3, 3) { push("threshold-producer", "Threshold::or_n / and_n are not 1-of-n / n-of-n".into(), "{}".into()); }
    viol
}

// ------------------------------------------------------------------ translating entry points
struct Subst(BTreeMap<String, DPk>);
impl Translator<String> for Subst {
    type TargetPk = DPk;
    type Error = ();
    fn pk(&mut self, pk: &String) -> Result<DPk, ()> { self.0.get(pk).cloned().ok_or(()) }
    translate_hash_fail!(String, DPk, Self::Error);
}
struct Swap(DPk, DPk);
impl Translator<DPk> for Swap {
    type TargetPk = DPk;
    type Error = ();
    fn pk(&mut self, pk: &DPk) -> Result<DPk, ()> { Ok(if *pk == self.0 { self.1.clone() } else { pk.clone() }) }
    translate_hash_fail!(DPk, DPk, Self::Error);
}

fn ms_to_g<Pk: MiniscriptKey, C: ScriptContext>(ms: &Miniscript<Pk, C>) -> G {
    // keys and shape only (enough for the key-kind and flavour rules)
    let key = |p: &Pk| Key::classify(&p.to_string());
    match ms.as_inner() {
        Terminal::PkK(p) => G::key(K::PkK, key(p)), Terminal::PkH(p) => G::key(K::PkH, key(p)),
        Terminal::Multi(t) => G::multi(K::Multi, t.k() as u64, t.iter().map(key).collect()),
        Terminal::SortedMulti(t) => G::multi(K::SortedMulti, t.k() as u64, t.iter().map(key).collect()),
        Terminal::MultiA(t) => G::multi(K::MultiA, t.k() as u64, t.iter().map(key).collect()),
        Terminal::SortedMultiA(t) => G::multi(K::SortedMultiA, t.k() as u64, t.iter().map(key).collect()),
        Terminal::Check(a) => G::un(K::Check, ms_to_g(a)), Terminal::Verify(a) => G::un(K::Verify, ms_to_g(a)),
        Terminal::Alt(a) => G::un(K::Alt, ms_to_g(a)), Terminal::Swap(a) => G::un(K::Swap, ms_to_g(a)),
        Terminal::AndV(a, b) => G::bin(K::AndV, ms_to_g(a), ms_to_g(b)), Terminal::AndB(a, b) => G::bin(K::AndB, ms_to_g(a), ms_to_g(b)),
        Terminal::OrB(a, b) => G::bin(K::OrB, ms_to_g(a), ms_to_g(b)), Terminal::OrD(a, b) => G::bin(K::OrD, ms_to_g(a), ms_to_g(b)),
        _ => G::leaf(K::True),
    }
}
fn ms_rule<Pk: MiniscriptKey, C: ScriptContext>(cx: Cx, ms: &Miniscript<Pk, C>) -> Option<String> {
    let g = ms_to_g(ms);
    context_rule_broken(cx, &g, script_size(cx, &g), None)
}
/// the first context rule a descriptor breaks (own walk over the public enum; keys judged by their printed form)
pub fn desc_rule_broken(d: &Descriptor<DPk>) -> Option<String> {
    let kind = |p: &DPk| Key::classify(&p.to_string());
    match d {
        Descriptor::Bare(b) => ms_rule(Cx::Bare, b.as_inner()),
        Descriptor::Pkh(p) => if kind(p.as_inner()).xo() { Some("keykind-pkh".into()) } else { None },
        Descriptor::Wpkh(w) => { let k = kind(w.as_inner()); if k.unc() || k.xo() { Some("keykind-wpkh".into()) } else { None } }
        Descriptor::Sh(s) => match s.as_inner() {
            ShInner::Wsh(w) => ms_rule(Cx::Segwitv0, w.as_inner()),
            ShInner::Wpkh(w) => { let k = kind(w.as_inner()); if k.unc() || k.xo() { Some("keykind-sh-wpkh".into()) } else { None } }
            ShInner::Ms(ms) => ms_rule(Cx::Legacy, ms),
        },
        Descriptor::Wsh(w) => ms_rule(Cx::Segwitv0, w.as_inner()),
        Descriptor::Tr(t) => {
            if kind(t.internal_key()).unc() { return Some("keykind-tr-internal".into()); }
            for l in t.leaves() { if let Some(r) = ms_rule(Cx::Tap, l.miniscript()) { return Some(r); } }
            None
        }
    }
}

pub const SHAPES: [&str; 22] = ["pk(A)", "pkh(A)", "wpkh(A)", "sh(wpkh(A))", "sh(pk(A))", "sh(pkh(A))", "sh(multi(1,A,B))", "sh(sortedmulti(1,A,B))",
    "wsh(pk(A))", "wsh(pkh(A))", "wsh(multi(1,A,B))", "wsh(sortedmulti(2,A,B))", "wsh(and_v(v:pk(A),pkh(B)))", "sh(wsh(pk(A)))", "sh(wsh(or_d(pk(A),pkh(B))))",
    "tr(A)", "tr(A,pk(B))", "tr(A,pkh(B))", "tr(A,multi_a(1,B,C))", "tr(A,{pk(B),and_v(v:pk(C),pk(B))})", "multi(1,A,B)", "c:pk_h(A)"];

pub fn translate_sweep() -> (Vec<(String, String, String)>, BTreeMap<String, u64>) {
    let secp = secp256k1::Secp256k1::new();
    let t = key_table();
    let mut viol = vec![]; let mut hist: BTreeMap<String, u64> = BTreeMap::new();
    // key offers: (name, public text, text for parse_descriptor)
    let sk = |b: u8| secp256k1::SecretKey::from_slice(&[b; 32]).unwrap();
    let wif = |b: u8, compressed: bool| bitcoin::PrivateKey { compressed, network: bitcoin::NetworkKind::Main, inner: sk(b) }.to_wif();
    let pubhex = |b: u8, compressed: bool| { let p = secp256k1::PublicKey::from_secret_key(&secp, &sk(b)); if compressed { crate::validate::hex(&p.serialize()) } else { crate::validate::hex(&p.serialize_uncompressed()) } };
    let xprv = bip32::Xpriv::new_master(bitcoin::Network::Bitcoin, &[9u8; 32]).unwrap();
    let xpub = bip32::Xpub::from_priv(&secp, &xprv);
    let offers: Vec<(&str, String, String)> = vec![
        ("compressed", t.comp[7].s.clone(), t.comp[7].s.clone()),
        ("uncompressed", t.unc[7].s.clone(), t.unc[7].s.clone()),
        ("x-only", t.xo[7].s.clone(), t.xo[7].s.clone()),
        ("xpub", format!("{}/0/*", xpub), format!("{}/0/*", xpub)),
        ("compressed-WIF", pubhex(0x31, true), wif(0x31, true)),
        ("uncompressed-WIF", pubhex(0x32, false), wif(0x32, false)),
        ("xprv", format!("{}/0/*", xpub), format!("{}/0/*", xprv)),
    ];
    for shape in SHAPES {
        let names: Vec<&str> = ["A", "B", "C"].into_iter().filter(|n| shape.contains(&format!("{})", n)) || shape.contains(&format!("{},", n))).collect();
        let tap = shape.starts_with("tr(");
        for (pos, name) in names.iter().enumerate() {
            for (oname, pubtext, sectext) in &offers {
                // the other positions get a key every context accepts there
                let good = |i: usize| if tap { t.xo[20 + i].s.clone() } else { t.comp[20 + i].s.clone() };
                let subst = |secret: bool| -> String {
                    let mut s = shape.to_string();
                    for (i, n) in names.iter().enumerate() {
                        let v = if i == pos { if secret { sectext.clone() } else { pubtext.clone() } } else { good(i) };
                        s = s.replace(&format!("{})", n), &format!("{})", v)).replace(&format!("{},", n), &format!("{},", v));
                    }
                    s
                };
                let pubdesc = subst(false);
                let mut judge = |entry: &str, r: Result<Descriptor<DPk>, String>| {
                    let verdict = match &r { Ok(_) => "accept", Err(_) => "reject" };
                    *hist.entry(format!("{} | {} | {} | {}", shape.split('(').next().unwrap_or("") .to_string() + if shape.contains("(wpkh") { "(wpkh" } else if shape.contains("(wsh") { "(wsh" } else { "" }, entry, oname, verdict)).or_insert(0) += 1;
                    if let Ok(d) = r {
                        if let Some(rule) = desc_rule_broken(&d) {
                            viol.push((format!("translate-accepts:{}", rule),
                                format!("{} accepts `{}` with {} key in position {} ({}) although it breaks the context rule `{}`; result: {:#}", entry, shape, oname, name, if entry.contains("parse_descriptor") { subst(true) } else { pubdesc.clone() }, rule, d),
                                format!("{{\"shape\":{},\"position\":{},\"offer\":{},\"entry\":{}}}", jstr(shape), jstr(name), jstr(oname), jstr(entry))));
                        }
                    }
                };
                let is_secret = oname.ends_with("WIF") || *oname == "xprv";
                // reference: the plain parser
                if !is_secret {
                    let r = catch_unwind(AssertUnwindSafe(|| Descriptor::<DPk>::from_str(&pubdesc).map_err(|e| e.to_string()))).unwrap_or(Err("panic".into()));
                    judge("Descriptor::from_str", r);
                }
                // parse_descriptor (public or secret text)
                let text = subst(is_secret);
                let r = catch_unwind(AssertUnwindSafe(|| Descriptor::<DPk>::parse_descriptor(&secp, &text).map(|x| x.0).map_err(|e| e.to_string()))).unwrap_or(Err("panic".into()));
                judge("Descriptor::parse_descriptor", r);
                // a descriptor over named keys, translated
                if let Ok(named) = Descriptor::<String>::from_str(shape) {
                    let mut m = BTreeMap::new();
                    let mut okk = true;
                    for (i, n) in names.iter().enumerate() {
                        match DPk::from_str(&if i == pos { pubtext.clone() } else { good(i) }) { Ok(k) => { m.insert(n.to_string(), k); } Err(_) => okk = false }
                    }
                    if okk {
                        let r = catch_unwind(AssertUnwindSafe(|| named.translate_pk(&mut Subst(m.clone())).map_err(|e| format!("{:?}", e)))).unwrap_or(Err("panic".into()));
                        judge("Descriptor::<String>::translate_pk", r);
                        // a valid descriptor over real keys, one key swapped by translation
                        let all_good: String = { let mut s = shape.to_string(); for (i, n) in names.iter().enumerate() { s = s.replace(&format!("{})", n), &format!("{})", good(i))).replace(&format!("{},", n), &format!("{},", good(i))); } s };
                        if let (Ok(d0), Ok(from), Some(to)) = (Descriptor::<DPk>::from_str(&all_good), DPk::from_str(&good(pos)), m.get(*name)) {
                            let r = catch_unwind(AssertUnwindSafe(|| d0.translate_pk(&mut Swap(from.clone(), to.clone())).map_err(|e| format!("{:?}", e)))).unwrap_or(Err("panic".into()));
                            judge("Descriptor::<DescriptorPublicKey>::translate_pk", r);
                        }
                        // wallet policy: the template of the shape, key information = the offered keys
                        let mut tmpl = shape.to_string();
                        for (i, n) in names.iter().enumerate() { tmpl = tmpl.replace(&format!("{})", n), &format!("@{}/**)", i)).replace(&format!("{},", n), &format!("@{}/**,", i)); }
                        if let Ok(mut wp) = WalletPolicy::from_str(&tmpl) {
                            let infos: Vec<DPk> = names.iter().map(|n| m[*n].clone()).collect();
                            if wp.set_key_info(&infos).is_ok() {
                                let r = catch_unwind(AssertUnwindSafe(|| wp.into_descriptor().map_err(|e| e.to_string()))).unwrap_or(Err("panic".into()));
                                judge("WalletPolicy::into_descriptor", r);
                            }
                        }
                    }
                }
            }
        }
    }
    (viol, hist)
}
fn d0_keys(d: &Descriptor<DPk>) -> Vec<DPk> {
    use miniscript::ForEachKey;
    let mut v: Vec<DPk> = vec![];
    d.for_each_key(|k| { if !v.contains(k) { v.push(k.clone()); } true });
    v
}

pub fn run(mode: &str) {
    let (viol, hist) = match mode {
        "thresholds" => (threshold_sweep(), BTreeMap::new()),
        _ => translate_sweep(),
    };
    println!("{{\"mode\":{},\"violations\":[{}],\"hist\":{{{}}}}}", jstr(mode),
        viol.iter().map(|(k, w, i)| format!("[{},{},{}]", jstr(k), jstr(&if w.len() > 1800 { format!("{}...", &w[..1800]) } else { w.clone() }), i)).collect::<Vec<_>>().join(","),
        hist.iter().map(|(k, v)| format!("{}:{}", jstr(k), v)).collect::<Vec<_>>().join(","));
}
