pub fn run(_seed: u64, _tier: &str, _replay: Option<&str>) { println!("(rt engine: not built yet)"); }
