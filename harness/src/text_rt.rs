//! Differential round trips on the real code (property C10, part C).  For every generated
//! object x: s1 = x.to_string(); y = parse(s1); s2 = y.to_string(); require parse to succeed,
//! s1 == s2, and dump(x) == dump(y) where `dump` is a structural dump written here over the
//! public AST (never `==`).  Alias spellings must parse to the dump the spelling MEANS
//! (computed here from the generator's own tree, independently of the library).
use super::{guarded, Rng};
use bitcoin::bip32::{self, ChildNumber, Xpriv, Xpub};
use bitcoin::secp256k1::{Secp256k1, SecretKey};
use miniscript::descriptor::{
    DescriptorPublicKey, DescriptorSecretKey, ShInner, SinglePubKey, WalletPolicy, Wildcard,
};
use miniscript::policy::{Concrete, Semantic};
use miniscript::{
    BareCtx, Descriptor, Legacy, Miniscript, MiniscriptKey, ScriptContext, Segwitv0, Tap, Terminal, ValidationParams,
};
use std::collections::BTreeMap;
use std::fmt::Write as _;
use std::str::FromStr;

// ------------------------------------------------------------------------------------------
// reporting
pub struct Report {
    pub counts: BTreeMap<String, (u64, u64)>, // kind -> (generated, accepted by the parser)
    pub fails: BTreeMap<String, Vec<String>>, // key -> messages
    pub hist: BTreeMap<String, u64>,
    pub samples: Vec<String>,
}
impl Report {
    fn new() -> Self { Report { counts: BTreeMap::new(), fails: BTreeMap::new(), hist: BTreeMap::new(), samples: vec![] } }
    fn count(&mut self, kind: &str, accepted: bool) {
        let e = self.counts.entry(kind.to_string()).or_insert((0, 0));
        e.0 += 1;
        if accepted {
            e.1 += 1;
        }
    }
    fn fail(&mut self, key: &str, what: &str, input: &str) {
        let v = self.fails.entry(key.to_string()).or_default();
        if v.len() < 6 {
            v.push(format!("what={} input={}", what.replace('\n', " "), input));
        }
    }
    fn h(&mut self, k: String) { *self.hist.entry(k).or_insert(0) += 1; }
    fn sample(&mut self, s: String) {
        if self.samples.len() < 24 {
            self.samples.push(s);
        }
    }
}

fn hex(b: &[u8]) -> String {
    let mut s = String::new();
    for x in b {
        let _ = write!(s, "{:02x}", x);
    }
    s
}

// ------------------------------------------------------------------------------------------
// independent BIP-380 checksum (oracle for the printed checksum; not the library's engine)
fn descsum(s: &str) -> Option<String> {
    const IN: &str = "0123456789()[],'/*abcdefgh@:$%{}IJKLMNOPQRSTUVWXYZ&+-.;<=>?!^_|~ijklmnopqrstuvwxyzABCDEFGH`#\"\\ ";
    const OUT: &[u8] = b"qpzry9x8gf2tvdw0s3jn54khce6mua7l";
    const GEN: [u64; 5] = [0xf5dee51989, 0xa9fdca3312, 0x1bab10e32d, 0x3706b1677a, 0x644d626ffd];
    fn polymod(mut c: u64, v: u64) -> u64 {
        let c0 = c >> 35;
        c = ((c & 0x7ffffffff) << 5) ^ v;
        for (i, g) in GEN.iter().enumerate() {
            if (c0 >> i) & 1 == 1 {
                c ^= g;
            }
        }
        c
    }
    let (mut c, mut cls, mut n) = (1u64, 0u64, 0);
    for ch in s.chars() {
        let p = IN.find(ch)? as u64;
        c = polymod(c, p & 31);
        cls = cls * 3 + (p >> 5);
        n += 1;
        if n == 3 {
            c = polymod(c, cls);
            cls = 0;
            n = 0;
        }
    }
    if n > 0 {
        c = polymod(c, cls);
    }
    for _ in 0..8 {
        c = polymod(c, 0);
    }
    c ^= 1;
    Some((0..8).map(|j| OUT[((c >> (5 * (7 - j))) & 31) as usize] as char).collect())
}

// ------------------------------------------------------------------------------------------
// structural dumps over the public AST
fn dump_ms<Pk: MiniscriptKey, Ctx: ScriptContext>(ms: &Miniscript<Pk, Ctx>, kf: &dyn Fn(&Pk) -> String) -> String {
    dump_term(ms.as_inner(), kf)
}

fn dump_term<Pk: MiniscriptKey, Ctx: ScriptContext>(t: &Terminal<Pk, Ctx>, kf: &dyn Fn(&Pk) -> String) -> String {
    let d = |m: &std::sync::Arc<Miniscript<Pk, Ctx>>| dump_term(m.as_inner(), kf);
    let keys = |ks: &[Pk]| ks.iter().map(|k| kf(k)).collect::<Vec<_>>().join(",");
    match t {
        Terminal::True => "True".into(),
        Terminal::False => "False".into(),
        Terminal::PkK(k) => format!("PkK({})", kf(k)),
        Terminal::PkH(k) => format!("PkH({})", kf(k)),
        Terminal::RawPkH(h) => format!("RawPkH({})", h),
        Terminal::After(n) => format!("After({})", n.to_consensus_u32()),
        Terminal::Older(n) => format!("Older({})", n.to_consensus_u32()),
        Terminal::Sha256(h) => format!("Sha256({})", h),
        Terminal::Hash256(h) => format!("Hash256({})", h),
        Terminal::Ripemd160(h) => format!("Ripemd160({})", h),
        Terminal::Hash160(h) => format!("Hash160({})", h),
        Terminal::Alt(x) => format!("Alt({})", d(x)),
        Terminal::Swap(x) => format!("Swap({})", d(x)),
        Terminal::Check(x) => format!("Check({})", d(x)),
        Terminal::DupIf(x) => format!("DupIf({})", d(x)),
        Terminal::Verify(x) => format!("Verify({})", d(x)),
        Terminal::NonZero(x) => format!("NonZero({})", d(x)),
        Terminal::ZeroNotEqual(x) => format!("ZeroNotEqual({})", d(x)),
        Terminal::AndV(a, b) => format!("AndV({},{})", d(a), d(b)),
        Terminal::AndB(a, b) => format!("AndB({},{})", d(a), d(b)),
        Terminal::AndOr(a, b, c) => format!("AndOr({},{},{})", d(a), d(b), d(c)),
        Terminal::OrB(a, b) => format!("OrB({},{})", d(a), d(b)),
        Terminal::OrD(a, b) => format!("OrD({},{})", d(a), d(b)),
        Terminal::OrC(a, b) => format!("OrC({},{})", d(a), d(b)),
        Terminal::OrI(a, b) => format!("OrI({},{})", d(a), d(b)),
        Terminal::Thresh(th) => format!("Thresh({};{})", th.k(), th.data().iter().map(|m| d(m)).collect::<Vec<_>>().join(",")),
        Terminal::Multi(th) => format!("Multi({};{})", th.k(), keys(th.data())),
        Terminal::SortedMulti(th) => format!("SortedMulti({};{})", th.k(), keys(th.data())),
        Terminal::MultiA(th) => format!("MultiA({};{})", th.k(), keys(th.data())),
        Terminal::SortedMultiA(th) => format!("SortedMultiA({};{})", th.k(), keys(th.data())),
    }
}

fn dump_path(p: &bip32::DerivationPath) -> String {
    p.into_iter()
        .map(|c| match c {
            ChildNumber::Normal { index } => format!("n{}", index),
            ChildNumber::Hardened { index } => format!("h{}", index),
        })
        .collect::<Vec<_>>()
        .join("/")
}
fn dump_origin(o: &Option<(bip32::Fingerprint, bip32::DerivationPath)>) -> String {
    match o {
        None => "-".into(),
        Some((f, p)) => format!("{}:{}", hex(f.as_bytes()), dump_path(p)),
    }
}
fn dump_wild(w: &Wildcard) -> &'static str {
    match w {
        Wildcard::None => "none",
        Wildcard::Unhardened => "unhardened",
        Wildcard::Hardened => "hardened",
    }
}
pub fn dump_dpk(k: &DescriptorPublicKey) -> String {
    match k {
        DescriptorPublicKey::Single(s) => format!(
            "Single[{}|{}]",
            dump_origin(&s.origin),
            match &s.key {
                SinglePubKey::FullKey(pk) => format!("full:{}", hex(&pk.to_bytes())),
                SinglePubKey::XOnly(x) => format!("xonly:{}", hex(&x.serialize())),
            }
        ),
        DescriptorPublicKey::XPub(x) => format!(
            "XPub[{}|{}|{}|{}]",
            dump_origin(&x.origin),
            hex(&x.xkey.encode()),
            dump_path(&x.derivation_path),
            dump_wild(&x.wildcard)
        ),
        DescriptorPublicKey::MultiXPub(x) => format!(
            "MultiXPub[{}|{}|{}|{}]",
            dump_origin(&x.origin),
            hex(&x.xkey.encode()),
            x.derivation_paths.paths().iter().map(dump_path).collect::<Vec<_>>().join(";"),
            dump_wild(&x.wildcard)
        ),
    }
}
fn dump_dsk(k: &DescriptorSecretKey) -> String {
    match k {
        DescriptorSecretKey::Single(s) => format!(
            "Single[{}|{}|{}|{:?}]",
            dump_origin(&s.origin),
            hex(&s.key.inner.secret_bytes()),
            s.key.compressed,
            s.key.network
        ),
        DescriptorSecretKey::XPrv(x) => format!(
            "XPrv[{}|{}|{}|{}]",
            dump_origin(&x.origin),
            hex(&x.xkey.encode()),
            dump_path(&x.derivation_path),
            dump_wild(&x.wildcard)
        ),
        DescriptorSecretKey::MultiXPrv(x) => format!(
            "MultiXPrv[{}|{}|{}|{}]",
            dump_origin(&x.origin),
            hex(&x.xkey.encode()),
            x.derivation_paths.paths().iter().map(dump_path).collect::<Vec<_>>().join(";"),
            dump_wild(&x.wildcard)
        ),
    }
}

/// Does a key dump (or a dump containing key dumps) hold a multipath key whose first two paths are equal?
/// (`<7;7;2>`: the printer compares only the first two paths to find the multipath step.)
pub fn has_dup_multipath(dump: &str) -> bool {
    for part in dump.split("MultiXP").skip(1) {
        // ub[origin|xkey|p0;p1;...|wild]
        let fields: Vec<&str> = part.split('|').collect();
        if fields.len() >= 3 {
            let paths: Vec<&str> = fields[2].split(';').collect();
            if paths.len() >= 2 && paths[0] == paths[1] {
                return true;
            }
        }
    }
    false
}

/// BIP-388 shape: every key is `xpub/<a;b>/*` (two paths of length one, unhardened wildcard).
fn all_keys_bip388(dump: &str) -> bool {
    if dump.contains("Single[") || dump.contains("XPub[") && dump.split("XPub[").count() != dump.split("MultiXPub[").count() {
        return false;
    }
    for part in dump.split("MultiXPub[").skip(1) {
        let fields: Vec<&str> = part.split('|').collect();
        if fields.len() < 4 {
            return false;
        }
        let paths: Vec<&str> = fields[2].split(';').collect();
        if paths.len() != 2 || paths.iter().any(|p| p.contains('/') || p.is_empty() || p.starts_with('h')) {
            return false;
        }
        // `<a;b>` with a < b (unhardened) is the only accepted order
        let num = |p: &str| p.trim_start_matches('n').parse::<u64>().ok();
        match (num(paths[0]), num(paths[1])) {
            (Some(a), Some(b)) if a < b => {}
            _ => return false,
        }
        if !fields[3].starts_with("unhardened]") {
            return false;
        }
    }
    true
}

fn dump_desc<Pk: MiniscriptKey>(d: &Descriptor<Pk>, kf: &dyn Fn(&Pk) -> String) -> String {
    match d {
        Descriptor::Bare(b) => format!("Bare({})", dump_ms(b.as_inner(), kf)),
        Descriptor::Pkh(p) => format!("Pkh({})", kf(p.as_inner())),
        Descriptor::Wpkh(p) => format!("Wpkh({})", kf(p.as_inner())),
        Descriptor::Sh(s) => match s.as_inner() {
            ShInner::Wsh(w) => format!("Sh(Wsh({}))", dump_ms(w.as_inner(), kf)),
            ShInner::Wpkh(p) => format!("Sh(Wpkh({}))", kf(p.as_inner())),
            ShInner::Ms(m) => format!("Sh(Ms({}))", dump_ms(m, kf)),
        },
        Descriptor::Wsh(w) => format!("Wsh({})", dump_ms(w.as_inner(), kf)),
        Descriptor::Tr(t) => {
            let leaves: Vec<String> =
                t.leaves().map(|l| format!("{}:{}", l.depth(), dump_ms(l.miniscript().as_ref(), kf))).collect();
            format!("Tr({};{})", kf(t.internal_key()), leaves.join(";"))
        }
    }
}

fn dump_concrete(p: &Concrete<String>) -> String {
    match p {
        Concrete::Unsatisfiable => "Unsat".into(),
        Concrete::Trivial => "Trivial".into(),
        Concrete::Key(k) => format!("Key({})", k),
        Concrete::After(n) => format!("After({})", n.to_consensus_u32()),
        Concrete::Older(n) => format!("Older({})", n.to_consensus_u32()),
        Concrete::Sha256(h) => format!("Sha256({})", h),
        Concrete::Hash256(h) => format!("Hash256({})", h),
        Concrete::Ripemd160(h) => format!("Ripemd160({})", h),
        Concrete::Hash160(h) => format!("Hash160({})", h),
        Concrete::And(v) => format!("And({})", v.iter().map(|x| dump_concrete(x)).collect::<Vec<_>>().join(",")),
        Concrete::Or(v) => {
            format!("Or({})", v.iter().map(|(w, x)| format!("{}@{}", w, dump_concrete(x))).collect::<Vec<_>>().join(","))
        }
        Concrete::Thresh(t) => {
            format!("Thresh({};{})", t.k(), t.data().iter().map(|x| dump_concrete(x)).collect::<Vec<_>>().join(","))
        }
    }
}
fn dump_semantic(p: &Semantic<String>) -> String {
    match p {
        Semantic::Unsatisfiable => "Unsat".into(),
        Semantic::Trivial => "Trivial".into(),
        Semantic::Key(k) => format!("Key({})", k),
        Semantic::After(n) => format!("After({})", n.to_consensus_u32()),
        Semantic::Older(n) => format!("Older({})", n.to_consensus_u32()),
        Semantic::Sha256(h) => format!("Sha256({})", h),
        Semantic::Hash256(h) => format!("Hash256({})", h),
        Semantic::Ripemd160(h) => format!("Ripemd160({})", h),
        Semantic::Hash160(h) => format!("Hash160({})", h),
        Semantic::Thresh(t) => {
            format!("Thresh({};{})", t.k(), t.data().iter().map(|x| dump_semantic(x)).collect::<Vec<_>>().join(","))
        }
    }
}

// ------------------------------------------------------------------------------------------
// miniscript generator with its own notion of what each spelling means
#[derive(Clone, Debug)]
pub enum G {
    True,
    False,
    Pk(String),  // sugar for c:pk_k
    Pkh(String), // sugar for c:pk_h
    PkK(String),
    PkH(String),
    Older(u32),
    After(u32),
    Hash(&'static str, String),
    Multi(&'static str, usize, Vec<String>),
    AndV(Box<G>, Box<G>),
    AndB(Box<G>, Box<G>),
    OrB(Box<G>, Box<G>),
    OrC(Box<G>, Box<G>),
    OrD(Box<G>, Box<G>),
    OrI(Box<G>, Box<G>),
    AndOr(Box<G>, Box<G>, Box<G>),
    AndN(Box<G>, Box<G>), // sugar for andor(a,b,0)
    Thresh(usize, Vec<G>),
    Wrap(char, Box<G>), // a s c d v j n and the sugar wrappers t l u
}

/// What the text MEANS, as a structural dump in the vocabulary of `dump_term`.
fn meaning(g: &G) -> String {
    match g {
        G::True => "True".into(),
        G::False => "False".into(),
        G::Pk(k) => format!("Check(PkK({}))", k),
        G::Pkh(k) => format!("Check(PkH({}))", k),
        G::PkK(k) => format!("PkK({})", k),
        G::PkH(k) => format!("PkH({})", k),
        G::Older(n) => format!("Older({})", n),
        G::After(n) => format!("After({})", n),
        G::Hash(kind, h) => format!(
            "{}({})",
            match *kind {
                "sha256" => "Sha256",
                "hash256" => "Hash256",
                "ripemd160" => "Ripemd160",
                _ => "Hash160",
            },
            h
        ),
        G::Multi(kind, k, ks) => format!(
            "{}({};{})",
            match *kind {
                "multi" => "Multi",
                "sortedmulti" => "SortedMulti",
                "multi_a" => "MultiA",
                _ => "SortedMultiA",
            },
            k,
            ks.join(",")
        ),
        G::AndV(a, b) => format!("AndV({},{})", meaning(a), meaning(b)),
        G::AndB(a, b) => format!("AndB({},{})", meaning(a), meaning(b)),
        G::OrB(a, b) => format!("OrB({},{})", meaning(a), meaning(b)),
        G::OrC(a, b) => format!("OrC({},{})", meaning(a), meaning(b)),
        G::OrD(a, b) => format!("OrD({},{})", meaning(a), meaning(b)),
        G::OrI(a, b) => format!("OrI({},{})", meaning(a), meaning(b)),
        G::AndOr(a, b, c) => format!("AndOr({},{},{})", meaning(a), meaning(b), meaning(c)),
        G::AndN(a, b) => format!("AndOr({},{},False)", meaning(a), meaning(b)),
        G::Thresh(k, v) => format!("Thresh({};{})", k, v.iter().map(meaning).collect::<Vec<_>>().join(",")),
        G::Wrap(c, x) => {
            let m = meaning(x);
            match c {
                'a' => format!("Alt({})", m),
                's' => format!("Swap({})", m),
                'c' => format!("Check({})", m),
                'd' => format!("DupIf({})", m),
                'v' => format!("Verify({})", m),
                'j' => format!("NonZero({})", m),
                'n' => format!("ZeroNotEqual({})", m),
                't' => format!("AndV({},True)", m),
                'l' => format!("OrI(False,{})", m),
                _ => format!("OrI({},False)", m),
            }
        }
    }
}

/// Render as text.  `sugar(node_counter)` decides per node whether the alias / sugar spelling
/// or the plain spelling is used.  Returns (wrapper prefix, body).
fn render(g: &G, sugar: &mut dyn FnMut() -> bool) -> (String, String) {
    fn full(p: (String, String)) -> String {
        if p.0.is_empty() {
            p.1
        } else {
            format!("{}:{}", p.0, p.1)
        }
    }
    let mut two = |name: &str, a: &G, b: &G, sugar: &mut dyn FnMut() -> bool| {
        let x = full(render(a, sugar));
        let y = full(render(b, sugar));
        (String::new(), format!("{}({},{})", name, x, y))
    };
    match g {
        G::True => (String::new(), "1".into()),
        G::False => (String::new(), "0".into()),
        G::Pk(k) => {
            if sugar() {
                (String::new(), format!("pk({})", k))
            } else {
                ("c".into(), format!("pk_k({})", k))
            }
        }
        G::Pkh(k) => {
            if sugar() {
                (String::new(), format!("pkh({})", k))
            } else {
                ("c".into(), format!("pk_h({})", k))
            }
        }
        G::PkK(k) => (String::new(), format!("pk_k({})", k)),
        G::PkH(k) => (String::new(), format!("pk_h({})", k)),
        G::Older(n) => (String::new(), format!("older({})", n)),
        G::After(n) => (String::new(), format!("after({})", n)),
        G::Hash(kind, h) => (String::new(), format!("{}({})", kind, h)),
        G::Multi(kind, k, ks) => (String::new(), format!("{}({},{})", kind, k, ks.join(","))),
        G::AndV(a, b) => two("and_v", a, b, sugar),
        G::AndB(a, b) => two("and_b", a, b, sugar),
        G::OrB(a, b) => two("or_b", a, b, sugar),
        G::OrC(a, b) => two("or_c", a, b, sugar),
        G::OrD(a, b) => two("or_d", a, b, sugar),
        G::OrI(a, b) => two("or_i", a, b, sugar),
        G::AndOr(a, b, c) => {
            let x = full(render(a, sugar));
            let y = full(render(b, sugar));
            let z = full(render(c, sugar));
            (String::new(), format!("andor({},{},{})", x, y, z))
        }
        G::AndN(a, b) => {
            let s = sugar();
            let x = full(render(a, sugar));
            let y = full(render(b, sugar));
            if s {
                (String::new(), format!("and_n({},{})", x, y))
            } else {
                (String::new(), format!("andor({},{},0)", x, y))
            }
        }
        G::Thresh(k, v) => {
            let subs: Vec<String> = v.iter().map(|x| full(render(x, sugar))).collect();
            (String::new(), format!("thresh({},{})", k, subs.join(",")))
        }
        G::Wrap(c, x) => {
            let is_sugar = matches!(c, 't' | 'l' | 'u');
            let s = !is_sugar || sugar();
            let inner = render(x, sugar);
            if s {
                (format!("{}{}", c, inner.0), inner.1)
            } else {
                let f = full(inner);
                match c {
                    't' => (String::new(), format!("and_v({},1)", f)),
                    'l' => (String::new(), format!("or_i(0,{})", f)),
                    _ => (String::new(), format!("or_i({},0)", f)),
                }
            }
        }
    }
}

pub fn render_full(g: &G, sugar: &mut dyn FnMut() -> bool) -> String {
    let (w, b) = render(g, sugar);
    if w.is_empty() {
        b
    } else {
        format!("{}:{}", w, b)
    }
}

pub struct MsGen<'a> {
    pub r: &'a mut Rng,
    pub tap: bool,
    pub nkeys: u32,
    pub keyf: &'a dyn Fn(u32) -> String,
    pub hashf: &'a dyn Fn(&'static str, u32) -> String,
}
impl MsGen<'_> {
    fn key(&mut self) -> String {
        self.nkeys += 1;
        (self.keyf)(self.nkeys)
    }
    fn num(&mut self, older: bool) -> u32 {
        let v: &[u32] = if older { &OLDER_VALUES } else { &AFTER_VALUES };
        *self.r.pick(v)
    }
    fn hash(&mut self) -> G {
        let kind = *self.r.pick(&["sha256", "hash256", "ripemd160", "hash160"]);
        self.nkeys += 1;
        G::Hash(kind, (self.hashf)(kind, self.nkeys))
    }
    fn multi(&mut self) -> G {
        let n = 1 + self.r.below(4) as usize;
        let k = 1 + self.r.below(n as u64) as usize;
        let ks: Vec<String> = (0..n).map(|_| self.key()).collect();
        let kind = if self.tap {
            *self.r.pick(&["multi_a", "sortedmulti_a"])
        } else {
            *self.r.pick(&["multi", "sortedmulti"])
        };
        G::Multi(kind, k, ks)
    }
    /// B, dissatisfiable and unit
    fn bdu(&mut self, d: u32) -> G {
        match self.r.below(if d == 0 { 4 } else { 9 }) {
            0 => G::Pk(self.key()),
            1 => G::Pkh(self.key()),
            2 => self.multi(),
            3 => self.hash(),
            4 => G::OrB(Box::new(self.bdu(d - 1)), Box::new(self.wdu(d - 1))),
            5 => G::AndB(Box::new(self.bdu(d - 1)), Box::new(self.wdu(d - 1))),
            6 => {
                let n = 1 + self.r.below(3) as usize;
                let mut v = vec![self.bdu(d - 1)];
                for _ in 0..n {
                    v.push(self.wdu(d - 1));
                }
                let k = 1 + self.r.below(v.len() as u64) as usize;
                G::Thresh(k, v)
            }
            7 => G::Wrap('c', Box::new(self.k(d - 1))),
            _ => G::OrD(Box::new(self.bdu(d - 1)), Box::new(self.bdu(d - 1))),
        }
    }
    fn wdu(&mut self, d: u32) -> G {
        if self.r.chance(1, 2) {
            G::Wrap('a', Box::new(self.bdu(d)))
        } else if self.r.chance(1, 2) {
            G::Wrap('s', Box::new(G::Pk(self.key())))
        } else {
            G::Wrap('s', Box::new(self.hash()))
        }
    }
    fn k(&mut self, d: u32) -> G {
        match self.r.below(if d == 0 { 2 } else { 5 }) {
            0 => G::PkK(self.key()),
            1 => G::PkH(self.key()),
            2 => G::AndV(Box::new(self.v(d - 1)), Box::new(self.k(d - 1))),
            3 => G::OrI(Box::new(self.k(d - 1)), Box::new(self.k(d - 1))),
            _ => G::AndOr(Box::new(self.bdu(d - 1)), Box::new(self.k(d - 1)), Box::new(self.k(d - 1))),
        }
    }
    fn v(&mut self, d: u32) -> G {
        match self.r.below(if d == 0 { 1 } else { 5 }) {
            0 => G::Wrap('v', Box::new(self.b(d.saturating_sub(1)))),
            1 => G::AndV(Box::new(self.v(d - 1)), Box::new(self.v(d - 1))),
            2 => G::OrC(Box::new(self.bdu(d - 1)), Box::new(self.v(d - 1))),
            3 => G::OrI(Box::new(self.v(d - 1)), Box::new(self.v(d - 1))),
            _ => G::AndOr(Box::new(self.bdu(d - 1)), Box::new(self.v(d - 1)), Box::new(self.v(d - 1))),
        }
    }
    pub fn b(&mut self, d: u32) -> G {
        if d == 0 {
            return match self.r.below(8) {
                0 => G::Pk(self.key()),
                1 => G::Pkh(self.key()),
                2 => G::Older(self.num(true)),
                3 => G::After(self.num(false)),
                4 => self.hash(),
                5 => self.multi(),
                6 => G::True,
                _ => G::False,
            };
        }
        match self.r.below(20) {
            0 => G::AndV(Box::new(self.v(d - 1)), Box::new(self.b(d - 1))),
            1 => G::AndB(Box::new(self.b(d - 1)), Box::new(self.wdu(d - 1))),
            2 => G::OrB(Box::new(self.bdu(d - 1)), Box::new(self.wdu(d - 1))),
            3 => G::OrD(Box::new(self.bdu(d - 1)), Box::new(self.b(d - 1))),
            4 => G::OrI(Box::new(self.b(d - 1)), Box::new(self.b(d - 1))),
            5 => G::AndOr(Box::new(self.bdu(d - 1)), Box::new(self.b(d - 1)), Box::new(self.b(d - 1))),
            6 => G::AndN(Box::new(self.bdu(d - 1)), Box::new(self.b(d - 1))),
            7 => G::Wrap('t', Box::new(self.v(d - 1))),
            8 => G::Wrap('l', Box::new(self.b(d - 1))),
            9 => G::Wrap('u', Box::new(self.b(d - 1))),
            10 => G::Wrap('j', Box::new(self.bdu(d - 1))),
            11 => G::Wrap('n', Box::new(self.b(d - 1))),
            12 => G::Wrap('d', Box::new(G::Wrap('v', Box::new(G::Older(self.num(true)))))),
            13 => G::Wrap('c', Box::new(self.k(d - 1))),
            14 => G::Wrap('t', Box::new(G::Wrap('v', Box::new(self.b(d - 1))))),
            15 => G::Wrap('l', Box::new(G::Wrap('t', Box::new(self.v(d - 1))))),
            16 => G::Wrap('u', Box::new(G::Wrap('l', Box::new(self.b(d - 1))))),
            17 => self.bdu(d),
            18 => G::Wrap('a', Box::new(self.b(d - 1))), // W at top: rejected (exercise the reject path)
            _ => self.b(0),
        }
    }
}

fn frag_names(g: &G, out: &mut Vec<String>) {
    let n = format!("{:?}", g);
    let name = n.split(|c| c == '(' || c == ' ').next().unwrap_or("?").to_string();
    out.push(if let G::Wrap(c, _) = g { format!("Wrap-{}", c) } else { name });
    match g {
        G::AndV(a, b) | G::AndB(a, b) | G::OrB(a, b) | G::OrC(a, b) | G::OrD(a, b) | G::OrI(a, b) | G::AndN(a, b) => {
            frag_names(a, out);
            frag_names(b, out);
        }
        G::AndOr(a, b, c) => {
            frag_names(a, out);
            frag_names(b, out);
            frag_names(c, out);
        }
        G::Thresh(_, v) => v.iter().for_each(|x| frag_names(x, out)),
        G::Wrap(_, x) => frag_names(x, out),
        _ => {}
    }
}

fn insane_params<Ctx: ScriptContext>() -> ValidationParams {
    let mut p = Ctx::CONSENSUS;
    p.allow_raw_pkh = false;
    p
}

/// Round trip of one miniscript text in context Ctx over String keys.
fn ms_case<Ctx: ScriptContext>(rep: &mut Report, ctxname: &str, g: &G, rng: &mut Rng) {
    let kind = format!("miniscript/{}", ctxname);
    let sugar = render_full(g, &mut || true);
    let plain = render_full(g, &mut || false);
    let mut flip = Rng(rng.next());
    let mixed = render_full(g, &mut || flip.chance(1, 2));
    let want = meaning(g);
    let kf = |k: &String| k.clone();
    let parse = |s: &str| guarded(|| Miniscript::<String, Ctx>::from_str_with_validation_params(s, &insane_params::<Ctx>()));
    let xs = parse(&sugar);
    let xp = parse(&plain);
    let xm = parse(&mixed);
    for (sp, x) in [("sugar", &xs), ("plain", &xp), ("mixed", &xm)] {
        if x.is_none() {
            rep.fail("rt:ms:panic", &format!("parser panics ({} spelling, {})", sp, ctxname), &sugar);
            return;
        }
    }
    let (xs, xp, xm) = (xs.unwrap(), xp.unwrap(), xm.unwrap());
    rep.count(&kind, xs.is_ok());
    // aliases never change acceptance ...
    if xs.is_ok() != xp.is_ok() || xs.is_ok() != xm.is_ok() {
        rep.fail(
            "rt:ms:alias-accept",
            &format!("spellings of one fragment differ in acceptance ({}): sugar {} plain {} mixed {}", ctxname,
                     xs.is_ok(), xp.is_ok(), xm.is_ok()),
            &format!("{} || {} || {}", sugar, plain, mixed),
        );
        return;
    }
    let x = match xs {
        Ok(x) => x,
        Err(_) => return,
    };
    // ... nor meaning
    let dx = dump_ms(&x, &kf);
    if dx != want {
        rep.fail("rt:ms:meaning", &format!("parsed AST {} is not what the text means {} ({})", dx, want, ctxname), &sugar);
    }
    for (sp, y, text) in [("plain", xp, &plain), ("mixed", xm, &mixed)] {
        let dy = dump_ms(&y.unwrap(), &kf);
        if dy != want {
            rep.fail("rt:ms:alias", &format!("{} spelling parses to {} but means {} ({})", sp, dy, want, ctxname), text);
        }
    }
    // print / parse / print
    let s1 = match guarded(|| x.to_string()) {
        Some(s) => s,
        None => {
            rep.fail("rt:ms:panic", "Display panics", &sugar);
            return;
        }
    };
    match parse(&s1) {
        None => rep.fail("rt:ms:panic", "parser panics on printed text", &s1),
        Some(Err(e)) => rep.fail("rt:ms:reparse", &format!("printed text does not parse: {} ({})", e, ctxname), &format!("{} (from {})", s1, sugar)),
        Some(Ok(y)) => {
            let dy = dump_ms(&y, &kf);
            if dy != dx {
                rep.fail("rt:ms:dump", &format!("reparsed AST {} differs from {} ({})", dy, dx, ctxname), &s1);
            }
            if y.ty != x.ty {
                rep.fail("rt:ms:type", &format!("reparsed type differs ({})", ctxname), &s1);
            }
            let s2 = y.to_string();
            if s2 != s1 {
                rep.fail("rt:ms:fixpoint", &format!("second print {} differs ({})", s2, ctxname), &s1);
            }
        }
    }
    if rep.samples.len() < 6 {
        rep.sample(format!("{} [{}] sugar={} plain={} printed={}", kind, "ok", sugar, plain, s1));
    }
    rep.h(format!("ms-len/{}", (s1.len() / 50) * 50));
    let mut names = Vec::new();
    frag_names(g, &mut names);
    for n in names {
        rep.h(format!("ms-frag/{}", n));
    }
}

// ------------------------------------------------------------------------------------------
// keys
pub struct KeyPool {
    raw_c: Vec<String>,
    raw_u: Vec<String>,
    xonly: Vec<String>,
    xpubs: Vec<String>,
    xprvs: Vec<String>,
    wifs: Vec<String>,
}
impl KeyPool {
    pub fn new(r: &mut Rng) -> Self {
        let secp = Secp256k1::new();
        let mut p = KeyPool { raw_c: vec![], raw_u: vec![], xonly: vec![], xpubs: vec![], xprvs: vec![], wifs: vec![] };
        for i in 0..24 {
            let mut sk = [0u8; 32];
            for b in sk.iter_mut() {
                *b = r.below(256) as u8;
            }
            sk[0] = 1 + (i as u8 % 100);
            let sk = SecretKey::from_slice(&sk).expect("valid secret");
            let pk = bitcoin::secp256k1::PublicKey::from_secret_key(&secp, &sk);
            p.raw_c.push(hex(&pk.serialize()));
            p.raw_u.push(hex(&pk.serialize_uncompressed()));
            p.xonly.push(hex(&pk.x_only_public_key().0.serialize()));
            let net = if i % 3 == 0 { bitcoin::NetworkKind::Test } else { bitcoin::NetworkKind::Main };
            p.wifs.push(bitcoin::PrivateKey { compressed: i % 4 != 0, network: net, inner: sk }.to_wif());
            let mut seed = [0u8; 32];
            for b in seed.iter_mut() {
                *b = r.below(256) as u8;
            }
            let xprv = Xpriv::new_master(net, &seed).expect("master");
            // a few levels down so that depth / parent fingerprint / child number are non-trivial
            let xprv = if i % 2 == 0 {
                xprv.derive_priv(&secp, &[ChildNumber::from_hardened_idx(44 + i).unwrap(), ChildNumber::from_normal_idx(i).unwrap()]).expect("derive")
            } else {
                xprv
            };
            p.xprvs.push(xprv.to_string());
            p.xpubs.push(Xpub::from_priv(&secp, &xprv).to_string());
        }
        p
    }
}

fn gen_origin(r: &mut Rng, hmark: &mut dyn FnMut(&mut Rng) -> &'static str) -> String {
    let mut s = String::from("[");
    for _ in 0..8 {
        s.push(*r.pick(&['0', '1', '2', '3', '4', '5', '6', '7', '8', '9', 'a', 'b', 'c', 'd', 'e', 'f']));
    }
    let n = r.below(4);
    for _ in 0..n {
        let v = *r.pick(&[0u32, 1, 44, 48, 84, 86, 2147483647]);
        let _ = write!(s, "/{}", v);
        if r.chance(2, 3) {
            s.push_str(hmark(r));
        }
    }
    s.push(']');
    s
}

fn pickv(r: &mut Rng, v: &[String]) -> String { v[r.below(v.len() as u64) as usize].clone() }

/// A key expression; `style` fixes the hardened marker: 0 = ', 1 = h, 2 = mixed.
fn gen_key(r: &mut Rng, pool: &KeyPool, form: u64, style: u64, secret: bool) -> String {
    let mut hm = move |r: &mut Rng| -> &'static str {
        match style {
            0 => "'",
            1 => "h",
            _ => {
                if r.chance(1, 2) {
                    "'"
                } else {
                    "h"
                }
            }
        }
    };
    let mut s = String::new();
    if r.chance(1, 2) {
        s.push_str(&gen_origin(r, &mut hm));
    }
    match form {
        0 => s.push_str(&pickv(r, if secret { &pool.wifs } else { &pool.raw_c })),
        1 => s.push_str(&pickv(r, if secret { &pool.wifs } else { &pool.raw_u })),
        2 => s.push_str(&pickv(r, if secret { &pool.wifs } else { &pool.xonly })),
        _ => {
            s.push_str(&pickv(r, if secret { &pool.xprvs } else { &pool.xpubs }));
            let steps = r.below(4);
            let multi_at = if form >= 5 { Some(r.below(steps + 1)) } else { None };
            for i in 0..=steps {
                if Some(i) == multi_at {
                    let k = 2 + r.below(3);
                    s.push_str("/<");
                    let mut used: Vec<u32> = Vec::new();
                    for j in 0..k {
                        if j > 0 {
                            s.push(';');
                        }
                        // mostly distinct indexes; sometimes a repeated one
                        let mut v = *r.pick(&[0u32, 1, 2, 3, 7, 100]);
                        if form == 5 {
                            while used.contains(&v) {
                                v += 1;
                            }
                        }
                        used.push(v);
                        let _ = write!(s, "{}", v);
                        if r.chance(1, 4) {
                            s.push_str(hm(r));
                        }
                    }
                    s.push('>');
                }
                if i < steps {
                    let v = *r.pick(&[0u32, 1, 2, 44, 1000, 2147483647]);
                    let _ = write!(s, "/{}", v);
                    if r.chance(1, 3) {
                        s.push_str(hm(r));
                    }
                }
            }
            match r.below(4) {
                0 => {}
                1 | 2 => s.push_str("/*"),
                _ => {
                    s.push_str("/*");
                    s.push_str(hm(r));
                }
            }
        }
    }
    s
}

/// canonical respelling used for the alias check: every hardened marker as ' (resp. h)
fn respell(s: &str, to_h: bool) -> String {
    // only inside origin brackets and after the key: markers are the only ' and h that follow a digit or '*'
    let b: Vec<char> = s.chars().collect();
    let mut out = String::new();
    // position where the base58/hex key ends: markers never occur inside the key text except 'h' in base58,
    // so only rewrite characters that directly follow a digit or '*' AND are followed by '/', ';', '>', ']' or the end
    for i in 0..b.len() {
        let c = b[i];
        if (c == '\'' || c == 'h') && i > 0 && (b[i - 1].is_ascii_digit() || b[i - 1] == '*') {
            let next = b.get(i + 1).copied();
            if matches!(next, None | Some('/') | Some(';') | Some('>') | Some(']')) {
                out.push(if to_h { 'h' } else { '\'' });
                continue;
            }
        }
        out.push(c);
    }
    out
}

fn key_cases(rep: &mut Report, r: &mut Rng, pool: &KeyPool, n: usize) {
    for i in 0..n {
        let form = r.below(7);
        let style = r.below(3);
        // public keys
        let s0 = gen_key(r, pool, form, style, false);
        let x = guarded(|| DescriptorPublicKey::from_str(&s0));
        match x {
            None => rep.fail("rt:key:panic", "DescriptorPublicKey::from_str panics", &s0),
            Some(Err(_)) => rep.count("descriptor-public-key", false),
            Some(Ok(x)) => {
                rep.count("descriptor-public-key", true);
                rep.h(format!("key-form/{}", ["raw-compressed", "raw-uncompressed", "x-only", "xpub", "xpub", "xpub-multipath", "xpub-multipath-dups"][form as usize]));
                let dx = dump_dpk(&x);
                let s1 = x.to_string();
                match guarded(|| DescriptorPublicKey::from_str(&s1)) {
                    None => rep.fail("rt:key:panic", "from_str panics on printed key", &s1),
                    Some(Err(e)) => rep.fail(if has_dup_multipath(&dx) { "rt:key:multipath-dup" } else { "rt:key:reparse" },
                                             &format!("printed key does not parse: {}", e), &format!("{} (from {})", s1, s0)),
                    Some(Ok(y)) => {
                        if dump_dpk(&y) != dx {
                            let key = if has_dup_multipath(&dx) { "rt:key:multipath-dup" } else { "rt:key:dump" };
                            rep.fail(key, &format!("reparsed key {} differs from {}", dump_dpk(&y), dx), &format!("{} (from {})", s1, s0));
                        }
                        if y.to_string() != s1 {
                            rep.fail("rt:key:fixpoint", &format!("second print {} differs", y.to_string()), &s1);
                        }
                    }
                }
                // h and ' spellings mean the same
                for to_h in [false, true] {
                    let alt = respell(&s0, to_h);
                    match guarded(|| DescriptorPublicKey::from_str(&alt)) {
                        Some(Ok(z)) => {
                            if dump_dpk(&z) != dx {
                                rep.fail("rt:key:alias", &format!("{} parses to {} but {} to {}", alt, dump_dpk(&z), s0, dx), &alt);
                            }
                        }
                        _ => rep.fail("rt:key:alias-accept", "respelled hardened markers are rejected", &format!("{} (from {})", alt, s0)),
                    }
                }
                if i % 40 == 0 {
                    rep.sample(format!("descriptor-public-key in={} printed={}", s0, s1));
                }
            }
        }
        // secret keys
        if form != 1 && form != 2 {
            let s0 = gen_key(r, pool, form, style, true);
            match guarded(|| DescriptorSecretKey::from_str(&s0)) {
                None => rep.fail("rt:skey:panic", "DescriptorSecretKey::from_str panics", &s0),
                Some(Err(_)) => rep.count("descriptor-secret-key", false),
                Some(Ok(x)) => {
                    rep.count("descriptor-secret-key", true);
                    let dx = dump_dsk(&x);
                    let s1 = x.to_string();
                    match guarded(|| DescriptorSecretKey::from_str(&s1)) {
                        None => rep.fail("rt:skey:panic", "from_str panics on printed key", &s1),
                        Some(Err(e)) => rep.fail(if has_dup_multipath(&dx) { "rt:key:multipath-dup" } else { "rt:skey:reparse" },
                                                 &format!("printed secret key does not parse: {}", e), &format!("{} (from {})", s1, s0)),
                        Some(Ok(y)) => {
                            if dump_dsk(&y) != dx {
                                let key = if has_dup_multipath(&dx) { "rt:key:multipath-dup" } else { "rt:skey:dump" };
                                rep.fail(key, "reparsed secret key differs", &format!("{} (from {})", s1, s0));
                            }
                            if y.to_string() != s1 {
                                rep.fail("rt:skey:fixpoint", &format!("second print {} differs", y.to_string()), &s1);
                            }
                        }
                    }
                }
            }
        }
    }
}

// ------------------------------------------------------------------------------------------
// descriptors over DescriptorPublicKey
fn tap_tree_text(r: &mut Rng, leaves: &mut Vec<String>, depth: u32) -> String {
    if leaves.len() <= 1 || depth == 0 {
        return leaves.pop().unwrap_or_else(|| "1".into());
    }
    if leaves.len() >= 2 && r.chance(3, 4) {
        // split the remaining leaves in two non-empty groups
        let n = leaves.len();
        let k = 1 + r.below(n as u64 - 1) as usize;
        let mut right = leaves.split_off(k);
        let l = tap_tree_text(r, leaves, depth - 1);
        let rr = tap_tree_text(r, &mut right, depth - 1);
        // leaves that did not fit (depth exhausted) are dropped
        format!("{{{},{}}}", l, rr)
    } else {
        leaves.pop().unwrap()
    }
}

fn desc_cases(rep: &mut Report, r: &mut Rng, pool: &KeyPool, n: usize) {
    let kf = |k: &DescriptorPublicKey| dump_dpk(k);
    let corpus: Vec<String> = vec![
        format!("c:pk_h({})", pool.raw_c[0]),
        format!("c:pk_k({})", pool.raw_c[1]),
        format!("pkh({}/<7;7>/*)", pool.xpubs[0]),
        format!("wpkh({}/<0;0;1>/*)", pool.xpubs[1]),
        format!("wsh(multi(1,{}/<0;1>/*,{}/<2;3>/*))", pool.xpubs[2], pool.xpubs[3]),
        format!("tr({},{{pk({}),{{pk({}),pk({})}}}})", pool.xonly[0], pool.xonly[1], pool.raw_c[2], pool.xpubs[4]),
    ];
    for i in 0..n + corpus.len() {
        let shape = r.below(14);
        let style = r.below(3);
        let tap = shape >= 11;
        let pk_form = |r: &mut Rng| -> u64 {
            if tap {
                *r.pick(&[0u64, 2, 3, 4, 5])
            } else {
                *r.pick(&[0u64, 0, 1, 3, 4, 5])
            }
        };
        let mut keytexts: Vec<String> = Vec::new();
        let bip388 = i % 4 == 1;
        for j in 0..12 {
            if bip388 {
                let mut hm = |_: &mut Rng| -> &'static str { "'" };
                let o = if r.chance(1, 2) { gen_origin(r, &mut hm) } else { String::new() };
                let a = 2 * r.below(4);
                keytexts.push(format!("{}{}/<{};{}>/*", o, pool.xpubs[(j + i) % pool.xpubs.len()], a, a + 1));
            } else {
                let f = pk_form(r);
                keytexts.push(gen_key(r, pool, f, style, false));
            }
        }
        let kt = keytexts.clone();
        let keyf = move |i: u32| kt[(i as usize) % kt.len()].clone();
        let hashf = |kind: &'static str, i: u32| -> String {
            let len = if kind == "sha256" || kind == "hash256" { 32 } else { 20 };
            (0..len).map(|j| format!("{:02x}", (i as usize * 31 + j * 7) % 256)).collect()
        };
        let mut rr = Rng(r.next());
        let mut gen = MsGen { r: &mut rr, tap, nkeys: 0, keyf: &keyf, hashf: &hashf };
        let depth = 1 + (i as u32 % 3);
        let mut spell = Rng(r.next());
        let mut ms_text = |gen: &mut MsGen| {
            let g = gen.b(depth);
            render_full(&g, &mut || spell.chance(2, 3))
        };
        let k0 = keytexts[0].clone();
        let s0 = match shape {
            0 => format!("pkh({})", k0),
            1 => format!("wpkh({})", k0),
            2 => format!("sh(wpkh({}))", k0),
            3 => format!("pk({})", k0),
            4 => format!("wsh({})", ms_text(&mut gen)),
            5 => format!("sh(wsh({}))", ms_text(&mut gen)),
            6 => format!("sh({})", ms_text(&mut gen)),
            7 => format!("wsh(sortedmulti(2,{},{},{}))", keytexts[1], keytexts[2], keytexts[3]),
            8 => format!("sh(sortedmulti(1,{},{}))", keytexts[1], keytexts[2]),
            9 => format!("sh(wsh(multi(2,{},{})))", keytexts[1], keytexts[2]),
            10 => ms_text(&mut gen), // bare
            11 => format!("tr({})", k0),
            _ => {
                let nl = 1 + r.below(7) as usize;
                let mut leaves: Vec<String> = (0..nl).map(|_| ms_text(&mut gen)).collect();
                let tree = tap_tree_text(r, &mut leaves, 6);
                format!("tr({},{})", k0, tree)
            }
        };
        let (s0, shape) = if i >= n { (corpus[i - n].clone(), 14) } else { (s0, shape) };
        let kind = format!(
            "descriptor/{}",
            ["pkh", "wpkh", "sh-wpkh", "bare-pk", "wsh", "sh-wsh", "sh", "wsh-sortedmulti", "sh-sortedmulti", "sh-wsh-multi", "bare", "tr-key", "tr-tree", "tr-tree", "fixed-corpus"][shape as usize]
        );
        let x = guarded(|| Descriptor::<DescriptorPublicKey>::from_str(&s0));
        let x = match x {
            None => {
                rep.fail("rt:desc:panic", "Descriptor::from_str panics", &s0);
                continue;
            }
            Some(Err(e)) => {
                rep.count(&kind, false);
                let full = e.to_string();
                let msg: String = full.split('«').next().unwrap_or("").chars().filter(|c| !c.is_ascii_digit()).take(44).collect();
                if *rep.hist.get(&format!("desc-reject/{}", msg.trim().replace(' ', "_"))).unwrap_or(&0) == 0 {
                    println!("REJECTSAMPLE {} :: {}", full.chars().take(80).collect::<String>(), s0);
                }
                rep.h(format!("desc-reject/{}", msg.trim().replace(' ', "_")));
                continue;
            }
            Some(Ok(x)) => x,
        };
        rep.count(&kind, true);
        let dx = dump_desc(&x, &kf);
        let s1 = x.to_string();
        let alt = format!("{:#}", x);
        // exactly one of the two forms carries "#checksum"; it must be BIP-380's checksum of the rest
        let (with_ck, without) = if s1.contains('#') { (&s1, &alt) } else { (&alt, &s1) };
        match with_ck.rsplit_once('#') {
            None => rep.fail("rt:desc:checksum", "neither Display form carries a checksum", &s1),
            Some((body, ck)) => {
                if body != without.as_str() {
                    rep.fail("rt:desc:checksum", "the two Display forms differ in more than the checksum", &format!("{} || {}", s1, alt));
                }
                if descsum(body).as_deref() != Some(ck) {
                    rep.fail("rt:desc:checksum", &format!("printed checksum {} is not BIP-380's {:?}", ck, descsum(body)), &s1);
                }
            }
        }
        for text in [&s1, &alt] {
            match guarded(|| Descriptor::<DescriptorPublicKey>::from_str(text)) {
                None => rep.fail("rt:desc:panic", "from_str panics on printed descriptor", text),
                Some(Err(e)) => rep.fail(if has_dup_multipath(&dx) { "rt:key:multipath-dup" } else { "rt:desc:reparse" },
                                         &format!("printed descriptor does not parse: {}", e), &format!("{} (from {})", text, s0)),
                Some(Ok(y)) => {
                    let dy = dump_desc(&y, &kf);
                    if dy != dx {
                        let key = if has_dup_multipath(&dx) {
                            "rt:key:multipath-dup"
                        } else if dx.starts_with("Bare(Check(PkH(") && dy.starts_with("Pkh(") {
                            "rt:desc:bare-pkh"
                        } else {
                            "rt:desc:dump"
                        };
                        rep.fail(key, &format!("reparsed descriptor {} differs from {}", dy, dx), &format!("{} (from {})", text, s0));
                    }
                    if y.to_string() != s1 {
                        rep.fail("rt:desc:fixpoint", &format!("second print {} differs", y.to_string()), &s1);
                    }
                }
            }
        }
        // wallet-policy round trip of a full descriptor: template + keys -> descriptor again
        if i % 3 == 0 {
            if let Some(Ok(wp)) = guarded(|| WalletPolicy::from_descriptor(&x)) {
                rep.count("wallet-policy/from-descriptor", true);
                let t1 = wp.to_string();
                match guarded(|| wp.clone().into_descriptor()) {
                    Some(Ok(back)) => {
                        if dump_desc(&back, &kf) != dx {
                            rep.fail("rt:wp:descriptor", "descriptor -> wallet policy -> descriptor changes the descriptor", &format!("{} (template {})", s1, t1));
                        }
                    }
                    Some(Err(e)) => rep.fail("rt:wp:descriptor", &format!("into_descriptor fails: {:?}", e), &s1),
                    None => rep.fail("rt:wp:panic", "into_descriptor panics", &s1),
                }
                match guarded(|| WalletPolicy::from_str(&t1)) {
                    Some(Ok(w2)) => {
                        if w2.to_string() != t1 {
                            rep.fail("rt:wp:fixpoint", &format!("template prints as {} after reparse", w2.to_string()), &t1);
                        }
                    }
                    Some(Err(e)) => rep.fail(if all_keys_bip388(&dx) { "rt:wp:reparse" } else { "rt:wp:nonstandard-keypath" },
                                             &format!("printed template does not parse: {:?}", e), &format!("{} (from {})", t1, s1)),
                    None => rep.fail("rt:wp:panic", "WalletPolicy::from_str panics", &t1),
                }
                rep.h(format!("wallet-policy-keys/{}", if all_keys_bip388(&dx) { "bip388" } else { "other" }));
            }
        }
        rep.h(format!("desc-len/{}", (s1.len() / 100) * 100));
        if i % 60 == 0 {
            rep.sample(format!("{} in={} printed={}", kind, s0, s1));
        }
    }
}

// ------------------------------------------------------------------------------------------
// policies over String keys
fn gen_policy(r: &mut Rng, d: u32, concrete: bool, n: &mut u32) -> String {
    *n += 1;
    let leaf = d == 0 || r.chance(1, 3);
    if leaf {
        return match r.below(9) {
            0 | 1 | 2 => format!("pk(K{})", n),
            3 => format!("after({})", r.pick(&AFTER_VALUES)),
            4 => format!("older({})", r.pick(&OLDER_VALUES)),
            5 => format!("sha256(H{})", n),
            6 => format!("hash160(H{})", n),
            7 => format!("{}(H{})", r.pick(&["hash256", "ripemd160"]), n),
            _ => (*r.pick(&["UNSATISFIABLE", "TRIVIAL"])).to_string(),
        };
    }
    match r.below(4) {
        0 => {
            let k = if concrete { 2 } else { 2 + r.below(3) };
            let subs: Vec<String> = (0..k).map(|_| gen_policy(r, d - 1, concrete, n)).collect();
            format!("and({})", subs.join(","))
        }
        1 => {
            let k = if concrete { 2 } else { 2 + r.below(3) };
            let weighted = concrete && r.chance(1, 2);
            let subs: Vec<String> = (0..k)
                .map(|_| {
                    let s = gen_policy(r, d - 1, concrete, n);
                    if weighted {
                        format!("{}@{}", r.pick(&[1u32, 2, 3, 10, 99]), s)
                    } else {
                        s
                    }
                })
                .collect();
            format!("or({})", subs.join(","))
        }
        _ => {
            let m = 1 + r.below(4);
            let k = 1 + r.below(m);
            let subs: Vec<String> = (0..m).map(|_| gen_policy(r, d - 1, concrete, n)).collect();
            format!("thresh({},{})", k, subs.join(","))
        }
    }
}

fn policy_cases(rep: &mut Report, r: &mut Rng, n: usize) {
    for i in 0..n {
        let mut cnt = 0;
        let s0 = gen_policy(r, 1 + (i as u32 % 4), true, &mut cnt);
        match guarded(|| Concrete::<String>::from_str(&s0)) {
            None => rep.fail("rt:concrete:panic", "Concrete::from_str panics", &s0),
            Some(Err(_)) => rep.count("policy/concrete", false),
            Some(Ok(x)) => {
                rep.count("policy/concrete", true);
                let dx = dump_concrete(&x);
                let s1 = x.to_string();
                match guarded(|| Concrete::<String>::from_str(&s1)) {
                    None => rep.fail("rt:concrete:panic", "from_str panics on printed policy", &s1),
                    Some(Err(e)) => rep.fail("rt:concrete:reparse", &format!("printed policy does not parse: {}", e), &format!("{} (from {})", s1, s0)),
                    Some(Ok(y)) => {
                        if dump_concrete(&y) != dx {
                            rep.fail("rt:concrete:dump", &format!("reparsed policy {} differs from {}", dump_concrete(&y), dx), &format!("{} (from {})", s1, s0));
                        }
                        if y.to_string() != s1 {
                            rep.fail("rt:concrete:fixpoint", &format!("second print {} differs", y.to_string()), &s1);
                        }
                    }
                }
                if i % 100 == 0 {
                    rep.sample(format!("policy/concrete in={} printed={}", s0, s1));
                }
            }
        }
        let mut cnt = 0;
        let s0 = gen_policy(r, 1 + (i as u32 % 4), false, &mut cnt);
        match guarded(|| Semantic::<String>::from_str(&s0)) {
            None => rep.fail("rt:semantic:panic", "Semantic::from_str panics", &s0),
            Some(Err(_)) => rep.count("policy/semantic", false),
            Some(Ok(x)) => {
                rep.count("policy/semantic", true);
                let dx = dump_semantic(&x);
                let s1 = x.to_string();
                match guarded(|| Semantic::<String>::from_str(&s1)) {
                    None => rep.fail("rt:semantic:panic", "from_str panics on printed policy", &s1),
                    Some(Err(e)) => rep.fail("rt:semantic:reparse", &format!("printed policy does not parse: {}", e), &format!("{} (from {})", s1, s0)),
                    Some(Ok(y)) => {
                        if dump_semantic(&y) != dx {
                            rep.fail("rt:semantic:dump", &format!("reparsed policy {} differs from {}", dump_semantic(&y), dx), &format!("{} (from {})", s1, s0));
                        }
                        if y.to_string() != s1 {
                            rep.fail("rt:semantic:fixpoint", &format!("second print {} differs", y.to_string()), &s1);
                        }
                    }
                }
                if i % 100 == 0 {
                    rep.sample(format!("policy/semantic in={} printed={}", s0, s1));
                }
            }
        }
    }
}

// ------------------------------------------------------------------------------------------
// wallet-policy templates
fn wallet_template_cases(rep: &mut Report, r: &mut Rng, n: usize) {
    for i in 0..n {
        let nk = 1 + r.below(4);
        let key = |r: &mut Rng, j: u64| -> String {
            match r.below(4) {
                0 | 1 => format!("@{}/**", j),
                2 => format!("@{}/<0;1>/*", j),
                _ => format!("@{}/<{};{}>/*", j, 2 * r.below(5), 2 * r.below(5) + 1),
            }
        };
        let ks: Vec<String> = (0..nk).map(|j| key(r, j)).collect();
        let s0 = match r.below(6) {
            0 => format!("pkh({})", ks[0]),
            1 => format!("wpkh({})", ks[0]),
            2 => format!("sh(wpkh({}))", ks[0]),
            3 => format!("wsh(sortedmulti({},{}))", 1 + r.below(nk), ks.join(",")),
            4 => {
                if nk >= 2 {
                    format!("wsh(or_d(pk({}),and_v(v:pkh({}),older({}))))", ks[0], ks[1], r.pick(&OLDER_VALUES))
                } else {
                    format!("wsh(and_v(v:pk({}),older(10)))", ks[0])
                }
            }
            _ => {
                if nk >= 3 {
                    format!("tr({},{{pk({}),pk({})}})", ks[0], ks[1], ks[2])
                } else {
                    format!("tr({})", ks[0])
                }
            }
        };
        match guarded(|| WalletPolicy::from_str(&s0)) {
            None => rep.fail("rt:wp:panic", "WalletPolicy::from_str panics", &s0),
            Some(Err(_)) => rep.count("wallet-policy/template", false),
            Some(Ok(x)) => {
                rep.count("wallet-policy/template", true);
                let dx = format!("{:?}", x);
                let s1 = x.to_string();
                match guarded(|| WalletPolicy::from_str(&s1)) {
                    None => rep.fail("rt:wp:panic", "from_str panics on printed template", &s1),
                    Some(Err(e)) => rep.fail("rt:wp:reparse", &format!("printed template does not parse: {:?}", e), &format!("{} (from {})", s1, s0)),
                    Some(Ok(y)) => {
                        if format!("{:?}", y) != dx {
                            rep.fail("rt:wp:dump", "reparsed template differs (Debug form)", &format!("{} (from {})", s1, s0));
                        }
                        if y.to_string() != s1 {
                            rep.fail("rt:wp:fixpoint", &format!("second print {} differs", y.to_string()), &s1);
                        }
                    }
                }
                if i % 50 == 0 {
                    rep.sample(format!("wallet-policy/template in={} printed={}", s0, s1));
                }
            }
        }
    }
}

// ------------------------------------------------------------------------------------------
// decoded scripts (raw public-key hashes): the object comes from the script decoder, not from text
fn decoded_cases(rep: &mut Report, r: &mut Rng, pool: &KeyPool, n: usize) {
    let mut params = Segwitv0::CONSENSUS;
    params.allow_raw_pkh = true;
    for i in 0..n {
        let kt: Vec<String> = pool.raw_c.clone();
        let keyf = move |i: u32| kt[(i as usize) % kt.len()].clone();
        let hashf = |kind: &'static str, i: u32| -> String {
            let len = if kind == "sha256" || kind == "hash256" { 32 } else { 20 };
            (0..len).map(|j| format!("{:02x}", (i as usize * 17 + j * 3) % 256)).collect()
        };
        let mut rr = Rng(r.next());
        let mut gen = MsGen { r: &mut rr, tap: false, nkeys: 0, keyf: &keyf, hashf: &hashf };
        let g = gen.b(1 + (i as u32 % 3));
        let text = render_full(&g, &mut || true);
        let ms = match guarded(|| Miniscript::<bitcoin::PublicKey, Segwitv0>::from_str_with_validation_params(&text, &insane_params::<Segwitv0>())) {
            Some(Ok(m)) => m,
            _ => continue,
        };
        let script = ms.encode();
        let x = match guarded(|| Miniscript::<bitcoin::PublicKey, Segwitv0>::decode_with_validation_params(&script, &params)) {
            Some(Ok(x)) => x,
            Some(Err(_)) => {
                rep.count("miniscript/decoded-script", false);
                continue;
            }
            None => {
                rep.fail("rt:decoded:panic", "decode panics", &text);
                continue;
            }
        };
        rep.count("miniscript/decoded-script", true);
        let kf = |k: &bitcoin::PublicKey| k.to_string();
        let dx = dump_ms(&x, &kf);
        let raw = dx.contains("RawPkH(");
        let key = if raw { "rt:ms-rawpkh" } else { "rt:decoded" };
        let s1 = x.to_string();
        match guarded(|| Miniscript::<bitcoin::PublicKey, Segwitv0>::from_str_with_validation_params(&s1, &params)) {
            None => rep.fail(&format!("{}:panic", key), "parser panics on the printed decoded script", &s1),
            Some(Err(e)) => rep.fail(key, &format!("printed form of a decoded script does not parse: {}", e), &format!("{} (script of {})", s1, text)),
            Some(Ok(y)) => {
                let dy = dump_ms(&y, &kf);
                if dy != dx {
                    rep.fail(key, &format!("printed form of a decoded script parses to a different AST: {} instead of {}", dy, dx), &format!("{} (script of {})", s1, text));
                } else if y.to_string() != s1 {
                    rep.fail(key, "second print differs", &s1);
                }
            }
        }
        if raw && i % 20 == 0 {
            rep.sample(format!("miniscript/decoded-script of={} printed={}", text, s1));
        }
    }
}


// ------------------------------------------------------------------------------------------
// directed tr() texts whose script trees reach depth 126/127/128 (the depth-list builder of the
// parser special-cases 128): one, two and three sibling-leaf pairs at the deepest level, on the
// left spine, on the right spine and in distant branches.
#[derive(Clone)]
enum TT {
    Leaf(String),
    Node(Box<TT>, Box<TT>),
}
impl TT {
    fn pair(a: &str, b: &str) -> TT { TT::Node(Box::new(TT::Leaf(a.into())), Box::new(TT::Leaf(b.into()))) }
    fn node(l: TT, r: TT) -> TT { TT::Node(Box::new(l), Box::new(r)) }
    fn text(&self, out: &mut String) {
        // iterative: the trees are 128 deep, but keep it simple and explicit
        match self {
            TT::Leaf(k) => {
                out.push_str("pk(");
                out.push_str(k);
                out.push(')');
            }
            TT::Node(l, r) => {
                out.push('{');
                l.text(out);
                out.push(',');
                r.text(out);
                out.push('}');
            }
        }
    }
    /// the same tree through the public constructor API (independent of the string parser)
    fn api(&self) -> Option<miniscript::descriptor::TapTree<String>> {
        use miniscript::descriptor::TapTree;
        match self {
            TT::Leaf(k) => {
                let ms = Miniscript::<String, Tap>::from_str(&format!("pk({})", k)).ok()?;
                Some(TapTree::leaf(std::sync::Arc::new(ms)))
            }
            TT::Node(l, r) => TapTree::combine(l.api()?, r.api()?).ok(),
        }
    }
}

/// hang `bottom` below `levels` more branch nodes; the other child at each level is a single leaf
fn deepen(mut t: TT, levels: usize, spine_left: bool, tag: &str) -> TT {
    for i in 0..levels {
        let sib = TT::Leaf(format!("{}{}", tag, i));
        t = if spine_left { TT::node(t, sib) } else { TT::node(sib, t) };
    }
    t
}

/// What the TEXT means, read off the brace structure alone: (depth, leaf text) in order.
fn leaves_from_text(tree_text: &str) -> Vec<(usize, String)> {
    let mut out = Vec::new();
    let (mut depth, mut paren) = (0usize, 0usize);
    let mut cur = String::new();
    for ch in tree_text.chars() {
        match ch {
            '{' if paren == 0 => depth += 1,
            '}' if paren == 0 => {
                if !cur.is_empty() {
                    out.push((depth, std::mem::take(&mut cur)));
                }
                depth -= 1;
            }
            ',' if paren == 0 => {
                if !cur.is_empty() {
                    out.push((depth, std::mem::take(&mut cur)));
                }
            }
            _ => {
                if ch == '(' {
                    paren += 1;
                } else if ch == ')' {
                    paren -= 1;
                }
                cur.push(ch);
            }
        }
    }
    if !cur.is_empty() {
        out.push((depth, cur));
    }
    out
}

fn tr_leaves(d: &Descriptor<String>) -> Option<Vec<(usize, String)>> {
    match d {
        Descriptor::Tr(t) => Some(t.leaves().map(|l| (l.depth() as usize, dump_ms(l.miniscript().as_ref(), &|k: &String| k.clone()))).collect()),
        _ => None,
    }
}

/// Full judgement of one tr() text over String keys; returns failures as (key, what).
fn judge_deep_tr(s0: &str, expect_ok: bool) -> Vec<(&'static str, String)> {
    let mut fails = Vec::new();
    let tree_text = match s0.strip_prefix("tr(").and_then(|r| r.strip_suffix(')')).and_then(|r| r.split_once(',')) {
        Some((_, t)) => t.to_string(),
        None => return vec![("rt:tr-deep:setup", "not a tr(K,TREE) text".into())],
    };
    // meaning of the text: pk(K) leaves at brace depth
    let want: Vec<(usize, String)> =
        leaves_from_text(&tree_text).into_iter().map(|(d, t)| (d, format!("Check(PkK({}))", &t[3..t.len() - 1]))).collect();
    let x = match guarded(|| Descriptor::<String>::from_str(s0)) {
        None => return vec![("rt:tr-deep:panic", "Descriptor::from_str panics".into())],
        Some(Err(e)) => {
            if expect_ok {
                fails.push(("rt:tr-deep:reject", format!("a tree of legal depth is rejected: {}", e)));
            }
            return fails;
        }
        Some(Ok(x)) => x,
    };
    if !expect_ok {
        fails.push(("rt:tr-deep:accept", "a tree deeper than 128 is accepted".into()));
        return fails;
    }
    let show = |v: &Vec<(usize, String)>| -> String {
        let ds: Vec<String> = v.iter().map(|(d, _)| d.to_string()).collect();
        format!("{} leaves, depths [{}]", v.len(), ds.join(","))
    };
    let got = tr_leaves(&x).unwrap_or_default();
    if got != want {
        fails.push(("rt:tr-deep:meaning", format!("parsed tree has {} but the braces say {}", show(&got), show(&want))));
    }
    let s1 = x.to_string();
    let body = s1.rsplit_once('#').map(|p| p.0).unwrap_or(&s1);
    if body != s0 {
        fails.push(("rt:tr-deep:reprint", format!("print(parse(s)) differs from s (lengths {} vs {})", body.len(), s0.len())));
    }
    match guarded(|| Descriptor::<String>::from_str(&s1)) {
        None => fails.push(("rt:tr-deep:panic", "from_str panics on the printed descriptor".into())),
        Some(Err(e)) => fails.push(("rt:tr-deep:reparse", format!("printed descriptor does not parse: {}", e))),
        Some(Ok(y)) => {
            let gy = tr_leaves(&y).unwrap_or_default();
            if gy != got {
                fails.push(("rt:tr-deep:dump", format!("reparsed tree has {} instead of {}", show(&gy), show(&got))));
            }
            if y.to_string() != s1 {
                fails.push(("rt:tr-deep:fixpoint", "second print differs".into()));
            }
        }
    }
    fails
}

fn deep_tr_shapes() -> Vec<(String, TT, bool)> {
    let mut v: Vec<(String, TT, bool)> = Vec::new();
    let two = || TT::node(TT::pair("A", "B"), TT::pair("C", "D")); // height 2, two pairs at the bottom
    let three = || TT::node(two(), TT::node(TT::pair("E", "F"), TT::Leaf("G".into()))); // height 3, three pairs
    for d in [126usize, 127, 128, 129] {
        let ok = d <= 128;
        for left in [true, false] {
            let side = if left { "left-spine" } else { "right-spine" };
            v.push((format!("depth{}/1pair/{}", d, side), deepen(TT::pair("A", "B"), d - 1, left, "S"), ok));
            v.push((format!("depth{}/2pairs/{}", d, side), deepen(two(), d - 2, left, "S"), ok));
            v.push((format!("depth{}/3pairs/{}", d, side), deepen(three(), d - 3, left, "S"), ok));
        }
        // distant branches: both children of the root reach the maximum depth
        let l = deepen(TT::pair("A", "B"), d - 2, true, "L");
        let r = deepen(TT::pair("C", "D"), d - 2, false, "R");
        v.push((format!("depth{}/2pairs/distant", d), TT::node(l.clone(), r.clone()), ok));
        let m = deepen(TT::pair("E", "F"), d - 3, true, "M");
        v.push((format!("depth{}/3pairs/distant", d), TT::node(l.clone(), TT::node(m, deepen(TT::pair("C", "D"), d - 3, false, "R"))), ok));
        // a deep pair followed by a deep pair in the sibling subtree one level up (zig-zag)
        let z = deepen(TT::node(deepen(TT::pair("A", "B"), 1, true, "Y"), deepen(TT::pair("C", "D"), 1, false, "Z")), d - 3, left_of(d), "S");
        v.push((format!("depth{}/2pairs/adjacent-subtrees", d), z, ok));
    }
    v
}
fn left_of(d: usize) -> bool { d % 2 == 0 }

fn deep_tr_cases(rep: &mut Report) {
    for (name, tree, ok) in deep_tr_shapes() {
        let mut t = String::new();
        tree.text(&mut t);
        let s0 = format!("tr(INTERNAL,{})", t);
        let fails = judge_deep_tr(&s0, ok);
        rep.count("descriptor/tr-deep", fails.is_empty() && ok);
        rep.h(format!("tr-deep/{}", name));
        for (k, what) in &fails {
            rep.fail(k, &format!("{} [{}]", what, name), &s0);
        }
        // the same tree built with TapTree::leaf / TapTree::combine: parse(print(d)) must be d
        if ok {
            if let Some(Some(api)) = guarded(|| tree.api()) {
                if let Some(Ok(d)) = guarded(|| Descriptor::<String>::new_tr("INTERNAL".to_owned(), Some(api))) {
                    let want = tr_leaves(&d).unwrap_or_default();
                    let printed = d.to_string();
                    match guarded(|| Descriptor::<String>::from_str(&printed)) {
                        Some(Ok(y)) => {
                            let got = tr_leaves(&y).unwrap_or_default();
                            if got != want {
                                let ds = |v: &Vec<(usize, String)>| v.iter().map(|(d, _)| d.to_string()).collect::<Vec<_>>().join(",");
                                rep.fail(
                                    "rt:tr-deep:api",
                                    &format!("parse(print(d)) differs from the constructed d: depths [{}] instead of [{}] [{}]", ds(&got), ds(&want), name),
                                    &printed,
                                );
                            }
                        }
                        Some(Err(e)) => rep.fail("rt:tr-deep:api", &format!("printed constructed descriptor does not parse: {} [{}]", e, name), &printed),
                        None => rep.fail("rt:tr-deep:panic", "from_str panics on a printed constructed descriptor", &printed),
                    }
                    rep.count("descriptor/tr-deep-constructed", true);
                }
            }
        }
    }
}


// ------------------------------------------------------------------------------------------
// lock-time values: relative locks with bits BIP 68 ignores (16-21, 23-30) and the absolute
// boundaries.  Used by every random stream and, one by one, by the directed cases below.
pub const OLDER_VALUES: [u32; 13] =
    [1, 2, 144, 1008, 65535, 4194305, 4259839, 65536, 65541, 131072 | 7, 0x7fbf0000, 0x400000 | 0x10000 | 3, 0x7fffffff];
pub const AFTER_VALUES: [u32; 6] = [1, 100, 499999999, 500000000, 1700000000, 2147483647];

/// One directed text: parse, compare with the meaning the harness computed from the text,
/// print(parse(s)) = s, parse(print(x)) = x, second print.  `parse` returns (dump, printed).
fn directed_text(rep: &mut Report, kind: &str, s0: &str, want: &str, parse: &dyn Fn(&str) -> Option<Result<(String, String), String>>) {
    let key = |stage: &str| format!("rt:lock:{}", stage);
    match parse(s0) {
        None => rep.fail(&key("panic"), &format!("parser panics ({})", kind), s0),
        Some(Err(e)) => {
            rep.count(&format!("locktime/{}", kind), false);
            rep.h(format!("lock-reject/{}/{}", kind, e.chars().filter(|c| !c.is_ascii_digit()).take(40).collect::<String>().replace(' ', "_")));
        }
        Some(Ok((dx, s1))) => {
            rep.count(&format!("locktime/{}", kind), true);
            if dx != want {
                rep.fail(&key("meaning"), &format!("parsed object {} is not what the text means {} ({})", dx, want, kind), s0);
            }
            let body = s1.rsplit_once('#').map(|p| p.0).unwrap_or(&s1);
            if body != s0 {
                rep.fail(&key("reprint"), &format!("print(parse(s)) = {} differs from s ({})", body, kind), s0);
            }
            match parse(&s1) {
                None => rep.fail(&key("panic"), &format!("parser panics on printed text ({})", kind), &s1),
                Some(Err(e)) => rep.fail(&key("reparse"), &format!("printed text {} does not parse: {} ({})", s1, e, kind), s0),
                Some(Ok((dy, s2))) => {
                    if dy != dx {
                        rep.fail(&key("dump"), &format!("parse(print(x)) = {} differs from x = {} ({})", dy, dx, kind), s0);
                    }
                    if s2 != s1 {
                        rep.fail(&key("fixpoint"), &format!("second print {} differs from {} ({})", s2, s1, kind), s0);
                    }
                }
            }
        }
    }
}

fn ms_parse<Ctx: ScriptContext>(s: &str) -> Option<Result<(String, String), String>> {
    guarded(|| {
        Miniscript::<String, Ctx>::from_str_with_validation_params(s, &insane_params::<Ctx>())
            .map(|x| (dump_ms(&x, &|k: &String| k.clone()), x.to_string()))
            .map_err(|e| e.to_string())
    })
}

fn locktime_cases(rep: &mut Report, pool: &KeyPool) {
    let mut vals: Vec<(&str, u32)> = OLDER_VALUES.iter().map(|v| ("older", *v)).collect();
    vals.extend(AFTER_VALUES.iter().map(|v| ("after", *v)));
    let xk = format!("{}/<0;1>/*", pool.xpubs[0]);
    let kd = DescriptorPublicKey::from_str(&xk).map(|k| dump_dpk(&k)).unwrap_or_default();
    let xo = pool.xonly[0].clone();
    let xod = DescriptorPublicKey::from_str(&xo).map(|k| dump_dpk(&k)).unwrap_or_default();
    for (name, v) in vals {
        let lock = format!("{}({})", name, v);
        let lockd = format!("{}({})", if name == "older" { "Older" } else { "After" }, v);
        rep.h(format!("lock-value/{}", lock));
        // miniscript, four contexts: the bare lock and a signed conjunction
        for (text, want) in [
            (lock.clone(), lockd.clone()),
            (format!("and_v(v:pk(K1),{})", lock), format!("AndV(Verify(Check(PkK(K1))),{})", lockd)),
            (format!("andor(pk(K1),{},pk(K2))", lock), format!("AndOr(Check(PkK(K1)),{},Check(PkK(K2)))", lockd)),
        ] {
            directed_text(rep, "miniscript-bare", &text, &want, &ms_parse::<BareCtx>);
            directed_text(rep, "miniscript-legacy", &text, &want, &ms_parse::<Legacy>);
            directed_text(rep, "miniscript-segwitv0", &text, &want, &ms_parse::<Segwitv0>);
            directed_text(rep, "miniscript-tap", &text, &want, &ms_parse::<Tap>);
        }
        // descriptors over DescriptorPublicKey
        let dparse = |s: &str| {
            guarded(|| {
                Descriptor::<DescriptorPublicKey>::from_str(s).map(|x| (dump_desc(&x, &|k| dump_dpk(k)), x.to_string())).map_err(|e| e.to_string())
            })
        };
        let body = format!("and_v(v:pk({}),{})", xk, lock);
        let bodyd = format!("AndV(Verify(Check(PkK({}))),{})", kd, lockd);
        directed_text(rep, "descriptor-wsh", &format!("wsh({})", body), &format!("Wsh({})", bodyd), &dparse);
        directed_text(rep, "descriptor-sh-wsh", &format!("sh(wsh({}))", body), &format!("Sh(Wsh({}))", bodyd), &dparse);
        directed_text(rep, "descriptor-sh", &format!("sh({})", body), &format!("Sh(Ms({}))", bodyd), &dparse);
        directed_text(rep, "descriptor-tr", &format!("tr({},{})", xo, body), &format!("Tr({};0:{})", xod, bodyd), &dparse);
        // policies over String keys
        let cparse = |s: &str| guarded(|| Concrete::<String>::from_str(s).map(|x| (dump_concrete(&x), x.to_string())).map_err(|e| e.to_string()));
        let sparse = |s: &str| guarded(|| Semantic::<String>::from_str(s).map(|x| (dump_semantic(&x), x.to_string())).map_err(|e| e.to_string()));
        directed_text(rep, "policy-concrete", &lock, &lockd, &cparse);
        directed_text(rep, "policy-concrete", &format!("and(pk(K1),{})", lock), &format!("And(Key(K1),{})", lockd), &cparse);
        directed_text(rep, "policy-concrete", &format!("or(3@pk(K1),1@{})", lock), &format!("Or(3@Key(K1),1@{})", lockd), &cparse);
        directed_text(rep, "policy-semantic", &lock, &lockd, &sparse);
        directed_text(rep, "policy-semantic", &format!("and(pk(K1),{})", lock), &format!("Thresh(2;Key(K1),{})", lockd), &sparse);
        directed_text(rep, "policy-semantic", &format!("thresh(2,pk(K1),pk(K2),{})", lock), &format!("Thresh(2;Key(K1),Key(K2),{})", lockd), &sparse);
        // wallet-policy templates (no structural access: the Debug form must contain the lock value,
        // and the template text must come back unchanged)
        // structural access through the public API: fill in keys and look at the descriptor
        let keys: Vec<DescriptorPublicKey> = pool.xpubs[..2].iter().filter_map(|k| DescriptorPublicKey::from_str(k).ok()).collect();
        let wparse = |s: &str| {
            guarded(|| {
                WalletPolicy::from_str(s)
                    .map(|x| {
                        let nk = if s.contains("@1") { 2 } else { 1 };
                        let mut y = x.clone();
                        let dd = match y.set_key_info(&keys[..nk]).and_then(|_| y.into_descriptor()) {
                            Ok(d) => dump_desc(&d, &|_k| "K".to_string()),
                            Err(e) => format!("into_descriptor failed: {:?}", e),
                        };
                        let has = dd.contains(&lockd);
                        (format!("template[{} {}]", lock, if has { "present".to_string() } else { format!("ABSENT from {}", dd) }), x.to_string())
                    })
                    .map_err(|e| format!("{:?}", e))
            })
        };
        let want_w = format!("template[{} present]", lock);
        directed_text(rep, "wallet-policy", &format!("wsh(and_v(v:pk(@0/**),{}))", lock), &want_w, &wparse);
        directed_text(rep, "wallet-policy", &format!("tr(@0/**,and_v(v:pk(@1/<2;3>/*),{}))", lock), &want_w, &wparse);
    }
}

// ------------------------------------------------------------------------------------------
pub fn run(seed: u64, tier: &str, replay: Option<&str>) {
    let mut rep = Report::new();
    if let Some(path) = replay {
        // replay file: lines "<kind> <text>"; kinds: ms-bare ms-legacy ms-segwit ms-tap desc key skey concrete semantic wp
        let text = std::fs::read_to_string(path).unwrap_or_default();
        for line in text.lines() {
            if let Some((k, s)) = line.split_once(' ') {
                println!("REPLAY kind={} {}", k, replay_one(k, s));
            }
        }
        return;
    }
    let scale = if tier == "thorough" { 6 } else { 1 };
    let mut r = Rng(seed ^ 0x7e47);
    let pool = KeyPool::new(&mut r);
    // (i) miniscripts over String keys in the four contexts
    let keyf = |i: u32| format!("K{}", i);
    let hashf = |_k: &'static str, i: u32| format!("H{}", i);
    for i in 0..(700 * scale) {
        for ctx in 0..4 {
            let mut rr = Rng(r.next());
            let mut gen = MsGen { r: &mut rr, tap: ctx == 3, nkeys: 0, keyf: &keyf, hashf: &hashf };
            let g = gen.b((i % 4) as u32);
            match ctx {
                0 => ms_case::<BareCtx>(&mut rep, "bare", &g, &mut r),
                1 => ms_case::<Legacy>(&mut rep, "legacy", &g, &mut r),
                2 => ms_case::<Segwitv0>(&mut rep, "segwitv0", &g, &mut r),
                _ => ms_case::<Tap>(&mut rep, "tap", &g, &mut r),
            }
        }
    }
    key_cases(&mut rep, &mut r, &pool, 600 * scale);
    desc_cases(&mut rep, &mut r, &pool, 900 * scale);
    policy_cases(&mut rep, &mut r, 700 * scale);
    wallet_template_cases(&mut rep, &mut r, 300 * scale);
    decoded_cases(&mut rep, &mut r, &pool, 300 * scale);
    deep_tr_cases(&mut rep);
    locktime_cases(&mut rep, &pool);
    for (k, (n, ok)) in &rep.counts {
        println!("RT kind={} generated={} accepted={}", k, n, ok);
    }
    for (k, v) in &rep.fails {
        for m in v {
            println!("FAIL key={} {}", k, m);
        }
    }
    for (k, v) in &rep.hist {
        println!("HIST {} {}", k, v);
    }
    for s in &rep.samples {
        println!("SAMPLE {}", s);
    }
}

fn replay_one(kind: &str, s: &str) -> String {
    fn ms<Ctx: ScriptContext>(s: &str) -> String {
        let kf = |k: &String| k.clone();
        match guarded(|| Miniscript::<String, Ctx>::from_str_with_validation_params(s, &insane_params::<Ctx>())) {
            None => "panic".into(),
            Some(Err(e)) => format!("rejected: {}", e),
            Some(Ok(x)) => {
                let s1 = x.to_string();
                match guarded(|| Miniscript::<String, Ctx>::from_str_with_validation_params(&s1, &insane_params::<Ctx>())) {
                    Some(Ok(y)) => format!("dump={} printed={} redump={} reprinted={}", dump_ms(&x, &kf), s1, dump_ms(&y, &kf), y.to_string()),
                    Some(Err(e)) => format!("dump={} printed={} reparse-error={}", dump_ms(&x, &kf), s1, e),
                    None => "panic on reparse".into(),
                }
            }
        }
    }
    match kind {
        "ms-bare" => ms::<BareCtx>(s),
        "ms-legacy" => ms::<Legacy>(s),
        "ms-segwit" => ms::<Segwitv0>(s),
        "ms-tap" => ms::<Tap>(s),
        "trdeep" => {
            let body = s.rsplit_once('#').map(|p| p.0).unwrap_or(s);
            let fails = judge_deep_tr(body, true);
            if fails.is_empty() {
                "verdict=ok".into()
            } else {
                format!("verdict=FAIL {}", fails.iter().map(|(k, w)| format!("{}: {}", k, w)).collect::<Vec<_>>().join(" | "))
            }
        }
        "desc" => match guarded(|| Descriptor::<DescriptorPublicKey>::from_str(s)) {
            Some(Ok(x)) => format!("dump={} printed={}", dump_desc(&x, &|k| dump_dpk(k)), x),
            Some(Err(e)) => format!("rejected: {}", e),
            None => "panic".into(),
        },
        "key" => match guarded(|| DescriptorPublicKey::from_str(s)) {
            Some(Ok(x)) => format!("dump={} printed={}", dump_dpk(&x), x),
            Some(Err(e)) => format!("rejected: {}", e),
            None => "panic".into(),
        },
        "concrete" => match guarded(|| Concrete::<String>::from_str(s)) {
            Some(Ok(x)) => format!("dump={} printed={}", dump_concrete(&x), x),
            Some(Err(e)) => format!("rejected: {}", e),
            None => "panic".into(),
        },
        "semantic" => match guarded(|| Semantic::<String>::from_str(s)) {
            Some(Ok(x)) => format!("dump={} printed={}", dump_semantic(&x), x),
            Some(Err(e)) => format!("rejected: {}", e),
            None => "panic".into(),
        },
        _ => "unknown kind".into(),
    }
}
