//! Engine `text` (property C10): text forms and the descriptor checksum.
//!   text cktab <seed>            complete/behavioural tabulation of the real checksum engine as a Coq file
//!   text cksub <seed> [tier]     substitution campaign against the real `Descriptor::from_str`
//!   text tree  <seed> [tier]     expression-tree parser observations (Coq file)
//!   text mstext <seed> [tier]    miniscript text layer (from_tree / Display) observations (Coq file)
//!   text rt    <seed> [tier]     differential round trips of descriptors, miniscripts, policies, keys
//! Every random choice derives from one splitmix64 state seeded by <seed>.
use std::fmt::Write as _;
use std::panic::{catch_unwind, AssertUnwindSafe};

#[path = "text_ck.rs"]
mod ck;
#[path = "text_rt.rs"]
mod rt;
#[path = "text_tree.rs"]
mod tree;
#[path = "text_ms.rs"]
mod mstext;

pub struct Rng(pub u64);
impl Rng {
    pub fn next(&mut self) -> u64 {
        self.0 = self.0.wrapping_add(0x9E3779B97F4A7C15);
        let mut z = self.0;
        z = (z ^ (z >> 30)).wrapping_mul(0xBF58476D1CE4E5B9);
        z = (z ^ (z >> 27)).wrapping_mul(0x94D049BB133111EB);
        z ^ (z >> 31)
    }
    pub fn below(&mut self, n: u64) -> u64 {
        if n == 0 {
            0
        } else {
            self.next() % n
        }
    }
    pub fn pick<'a, T>(&mut self, v: &'a [T]) -> &'a T { &v[self.below(v.len() as u64) as usize] }
    pub fn chance(&mut self, num: u64, den: u64) -> bool { self.below(den) < num }
}

/// The 95 characters of the descriptor alphabet in BIP-380 order (group 0 = first 32).
pub const INPUT_CHARSET: &str = "0123456789()[],'/*abcdefgh@:$%{}IJKLMNOPQRSTUVWXYZ&+-.;<=>?!^_|~ijklmnopqrstuvwxyzABCDEFGH`#\"\\ ";

pub fn quiet_panics() {
    std::panic::set_hook(Box::new(|_| {}));
}

/// Run `f`, mapping a panic to `None`.
pub fn guarded<T>(f: impl FnOnce() -> T) -> Option<T> { catch_unwind(AssertUnwindSafe(f)).ok() }

/// Coq list literal of primitive integers (values < 2^62), chunked into definitions of at most
/// 2000 elements (decimal `N` literals are very slow to parse; `int` literals are not).
pub fn coq_nlist(out: &mut String, name: &str, v: &[u64]) {
    let mut parts = Vec::new();
    for (i, ch) in v.chunks(2000).enumerate() {
        let pn = format!("{}_p{}", name, i);
        let _ = write!(out, "Definition {} : list int := [", pn);
        for (j, x) in ch.iter().enumerate() {
            if j > 0 {
                out.push(';');
            }
            let _ = write!(out, "{}", x);
        }
        out.push_str("].\n");
        parts.push(pn);
    }
    if parts.is_empty() {
        let _ = writeln!(out, "Definition {} : list int := [].", name);
    } else {
        let _ = writeln!(out, "Definition {} : list int := {}.", name, parts.join(" ++ "));
    }
}

/// A case as a list of primitive integers: [code; length; 6-byte little-endian words...].
pub fn coq_case(code: u64, s: &[u8]) -> String {
    let mut o = String::new();
    let _ = write!(o, "[{};{}", code, s.len());
    for ch in s.chunks(6) {
        let mut w: u64 = 0;
        for (j, b) in ch.iter().enumerate() {
            w |= (*b as u64) << (8 * j);
        }
        let _ = write!(o, ";{}", w);
    }
    o.push(']');
    o
}

pub fn run(args: &[String]) {
    if args.is_empty() {
        eprintln!("usage: text <cktab|cksub|tree|rt> <seed> [tier]");
        std::process::exit(2);
    }
    let seed: u64 = args.get(1).and_then(|s| s.parse().ok()).unwrap_or(1);
    let tier = args.get(2).map(|s| s.as_str()).unwrap_or("quick").to_string();
    quiet_panics();
    match args[0].as_str() {
        "cktab" => ck::tables(seed, &tier),
        "cksub" => ck::campaign(seed, &tier, args.get(3).map(|s| s.as_str())),
        "ckmitm" => ck::mitm(seed, &tier),
        "tree" => tree::run(seed, &tier),
        "treeobs" => tree::observe_file(args.get(3).map(|s| s.as_str())),
        "mstext" => mstext::run(seed, &tier),
        "mstextobs" => mstext::observe_file(args.get(3).map(|s| s.as_str())),
        "rt" => rt::run(seed, &tier, args.get(3).map(|s| s.as_str())),
        other => {
            eprintln!("unknown text mode {}", other);
            std::process::exit(2);
        }
    }
}
