//! C12 constructor stream: `validate ctors <seed> <out.v>`.
//! Every descriptor-level public constructor that takes keys or a Threshold of keys is called on directed
//! and generated inputs (compressed / uncompressed / x-only / xpub keys, n = 1, 2, 3, 15, 16, 20, k bounds,
//! duplicates).  Each ACCEPTED object is judged by the harness's own context analysis
//! (`vgen::context_rule_broken`, `vgen::key_legal`, `vgen::script_size`; never through `miniscript`) and
//! against the text path (`Descriptor::from_str` of the printed form).  The Coq file carries one `rcase`
//! per input (same layout as the `cases` stream) so that every call is replayed on the model inside Coq.
use crate::validate::{coq_rcase, code_name, facts_indep, facts_of, jstr, rcode};
use crate::vgen::*;
use miniscript::descriptor::{Bare, Pkh, Sh, Tr, Wpkh, Wsh};
use miniscript::{BareCtx, Descriptor, DescriptorPublicKey as DPk, Error as MsError, Legacy, Miniscript, ScriptContext, Segwitv0, Terminal, Threshold};
use std::collections::BTreeMap;
use std::fmt::Write as _;
use std::panic::{catch_unwind, AssertUnwindSafe};
use std::str::FromStr;

type Th = Threshold<DPk, 20>;

#[derive(Default)]
struct Out { lits: Vec<String>, viol: Vec<(String, String, String)>, hist: BTreeMap<String, u64>, id: u64, calls: u64, samples: Vec<String> }

fn code<T>(f: impl FnOnce() -> Result<T, MsError>) -> u32 {
    match catch_unwind(AssertUnwindSafe(f)) { Ok(r) => rcode(&r), Err(_) => 97 }
}
fn kinds_of(keys: &[Key]) -> String {
    keys.iter().map(|k| match k.kind { KeyKind::Compressed => 'c', KeyKind::Uncompressed => 'U', KeyKind::XOnly => 'X', KeyKind::Xpub(_) => 'p' }).collect()
}
fn unchecked<C: ScriptContext>(sorted: bool, th: &Th) -> Miniscript<DPk, C> {
    if sorted { Miniscript::sortedmulti(th.clone()) } else { Miniscript::multi(th.clone()) }
}
fn via_from_ast<C: ScriptContext>(sorted: bool, th: &Th) -> Result<Miniscript<DPk, C>, MsError> {
    Miniscript::from_ast(if sorted { Terminal::SortedMulti(th.clone()) } else { Terminal::Multi(th.clone()) })
}

/// one (context, multi flavour, k, keys) input through every constructor that can take it
fn multi_case(o: &mut Out, cx: Cx, sorted: bool, k: usize, keys: &[Key], tag: &str) {
    o.id += 1;
    let name = if sorted { "sortedmulti" } else { "multi" };
    let dpks: Vec<DPk> = keys.iter().map(|k| DPk::from_str(&k.s).expect("key")).collect();
    let inner = format!("{}({},{})", name, k, keys.iter().map(|k| k.s.as_str()).collect::<Vec<_>>().join(","));
    let th = match Th::new(k, dpks) {
        Ok(t) => t,
        Err(_) => {
            *o.hist.entry(format!("{} | Threshold::new | n={} k={} | refused", cx.name(), keys.len(), k)).or_default() += 1;
            if threshold_ok((20, k as u64, keys.len() as u64)) {
                o.viol.push(("ctor-threshold".into(), format!("Threshold::<_, 20>::new({}, {} keys) refused although 1 <= k <= n <= 20", k, keys.len()), jstr(&inner)));
            }
            return;
        }
    };
    if !threshold_ok((20, k as u64, keys.len() as u64)) {
        o.viol.push(("ctor-threshold".into(), format!("Threshold::<_, 20>::new({}, {} keys) accepted", k, keys.len()), jstr(&inner)));
    }
    let g = G::multi(if sorted { K::SortedMulti } else { K::Multi }, k as u64, keys.to_vec());
    let mut ids = BTreeMap::new();
    // (name, entry code of coq/Tables/ValidateCasesDefs.v, group, verdict)
    let mut calls: Vec<(String, u32, &'static str, u32)> = vec![];
    let um = format!("Miniscript::{}(thresh)", name);
    let fa = format!("Miniscript::from_ast(Terminal::{}(thresh))?", if sorted { "SortedMulti" } else { "Multi" });
    let (facts, printed, texts): (_, String, Vec<(u32, String)>) = match cx {
        Cx::Segwitv0 => {
            let ms = unchecked::<Segwitv0>(sorted, &th);
            if sorted {
                calls.push(("Wsh::new_sortedmulti(thresh)".into(), 28, "new_sortedmulti", code(|| Wsh::new_sortedmulti(th.clone()))));
                calls.push(("Descriptor::new_wsh_sortedmulti(thresh)".into(), 28, "new_sortedmulti", code(|| Descriptor::new_wsh_sortedmulti(th.clone()))));
                calls.push(("Sh::new_wsh_sortedmulti(thresh)".into(), 29, "new_sortedmulti", code(|| Sh::new_wsh_sortedmulti(th.clone()))));
                calls.push(("Descriptor::new_sh_wsh_sortedmulti(thresh)".into(), 29, "new_sortedmulti", code(|| Descriptor::new_sh_wsh_sortedmulti(th.clone()))));
            }
            calls.push((format!("Wsh::new({})", um), 21, "unchecked-fragment", code(|| Wsh::new(ms.clone()))));
            calls.push((format!("Sh::new_wsh({})", um), 27, "unchecked-fragment", code(|| Sh::new_wsh(ms.clone()))));
            calls.push((format!("Descriptor::new_wsh({})", um), 26, "unchecked-fragment", code(|| Descriptor::new_wsh(ms.clone()))));
            calls.push((format!("Wsh::new({})", fa), 36, "from_ast", code(|| Wsh::new(via_from_ast::<Segwitv0>(sorted, &th)?))));
            (facts_of(&ms, &g, &mut ids), format!("wsh({})", inner), vec![(20, format!("wsh({})", inner)), (24, format!("sh(wsh({}))", inner))])
        }
        Cx::Legacy => {
            let ms = unchecked::<Legacy>(sorted, &th);
            if sorted {
                calls.push(("Sh::new_sortedmulti(thresh)".into(), 28, "new_sortedmulti", code(|| Sh::new_sortedmulti(th.clone()))));
                calls.push(("Descriptor::new_sh_sortedmulti(thresh)".into(), 28, "new_sortedmulti", code(|| Descriptor::new_sh_sortedmulti(th.clone()))));
            }
            calls.push((format!("Sh::new({})", um), 21, "unchecked-fragment", code(|| Sh::new(ms.clone()))));
            calls.push((format!("Descriptor::new_sh({})", um), 26, "unchecked-fragment", code(|| Descriptor::new_sh(ms.clone()))));
            calls.push((format!("Sh::new({})", fa), 36, "from_ast", code(|| Sh::new(via_from_ast::<Legacy>(sorted, &th)?))));
            (facts_of(&ms, &g, &mut ids), format!("sh({})", inner), vec![(20, format!("sh({})", inner))])
        }
        _ => {
            let ms = unchecked::<BareCtx>(sorted, &th);
            calls.push((format!("Bare::new({})", um), 21, "unchecked-fragment", code(|| Bare::new(ms.clone()))));
            calls.push((format!("Descriptor::new_bare({})", um), 26, "unchecked-fragment", code(|| Descriptor::new_bare(ms.clone()))));
            calls.push((format!("Bare::new({})", fa), 36, "from_ast", code(|| Bare::new(via_from_ast::<BareCtx>(sorted, &th)?))));
            (facts_of(&ms, &g, &mut ids), inner.clone(), vec![(20, inner.clone())])
        }
    };
    let mut entries: Vec<(bool, u32, usize, u32)> = calls.iter().map(|c| (false, c.1, 0usize, c.3)).collect();
    let mut text_code = 0u32;
    for (i, (e, s)) in texts.iter().enumerate() {
        let c = code(|| Descriptor::<DPk>::from_str(s));
        if i == 0 { text_code = c; }
        entries.push((false, *e, 0, c));
    }
    o.lits.push(coq_rcase(o.id, cx, 2, true, true, &[(20, k as u64, keys.len() as u64)], &[], &[], &facts, &[], &[], &entries));
    o.calls += entries.len() as u64;
    // ---- specification side: the harness's own figures of sortedmulti(k, keys) in this context
    let size = script_size(cx, &g);
    let rule = context_rule_broken(cx, &g, size, facts.sat);
    for (cname, _e, group, c) in &calls {
        *o.hist.entry(format!("{} | {} | n={} | keys {} | {}", cx.name(), cname, keys.len(), tag, if *c == 0 { "Ok".to_string() } else { format!("Err:{}", code_name(*c)) })).or_default() += 1;
        if *c != 0 { continue; }
        let inp = format!("{{\"constructor\":{},\"context\":{},\"k\":{},\"keys\":[{}],\"key_kinds\":{},\"printed\":{},\"script_size\":{},\"Descriptor::from_str(printed)\":{}}}",
            jstr(cname), jstr(cx.name()), k, keys.iter().map(|k| jstr(&k.s)).collect::<Vec<_>>().join(","), jstr(&kinds_of(keys)), jstr(&printed), size, jstr(code_name(text_code)));
        if let Some(r) = &rule {
            o.viol.push((format!("ctor-accepts:{}:{}", r, group),
                format!("{} with thresh = Threshold::new({}, [{} keys: {}]) returned Ok although `{}` breaks the {} rule `{}` (script {} bytes); Descriptor::from_str of the printed form: {}",
                    cname, k, keys.len(), kinds_of(keys), if printed.len() > 300 { format!("{}...", &printed[..300]) } else { printed.clone() }, cx.name(), r, size,
                    if text_code == 0 { "Ok".to_string() } else { format!("Err({})", code_name(text_code)) }), inp));
        } else if text_code != 0 {
            o.viol.push((format!("ctor-not-text:{}", group),
                format!("{} (k = {}, keys {}) returned Ok but Descriptor::from_str(`{}`) fails with {}", cname, k, kinds_of(keys), printed, code_name(text_code)), inp));
        }
    }
    if o.samples.len() < 12 && o.id % 17 == 1 { o.samples.push(format!("{} {} -> {}", cx.name(), printed.chars().take(90).collect::<String>(), calls.iter().map(|c| code_name(c.3)).collect::<Vec<_>>().join("/"))); }
}

/// one key through every single-key constructor
fn key_case(o: &mut Out, key: &Key, tag: &str) {
    let dpk = DPk::from_str(&key.s).expect("key");
    for (cx, entry, wrapper) in [(Cx::Legacy, 33u32, "pkh"), (Cx::Segwitv0, 34, "wpkh"), (Cx::Segwitv0, 34, "sh(wpkh"), (Cx::Tap, 35, "tr"), (Cx::Bare, 0, "pk")] {
        o.id += 1;
        let printed = if wrapper == "sh(wpkh" { format!("sh(wpkh({}))", key.s) } else { format!("{}({})", wrapper, key.s) };
        let mut calls: Vec<(&'static str, u32)> = vec![];
        match wrapper {
            "pkh" => { calls.push(("Pkh::new(key)", code(|| Pkh::new(dpk.clone()).map_err(MsError::from)))); calls.push(("Descriptor::new_pkh(key)", code(|| Descriptor::new_pkh(dpk.clone())))); }
            "wpkh" => { calls.push(("Wpkh::new(key)", code(|| Wpkh::new(dpk.clone()).map_err(MsError::from)))); calls.push(("Descriptor::new_wpkh(key)", code(|| Descriptor::new_wpkh(dpk.clone())))); }
            "sh(wpkh" => { calls.push(("Sh::new_wpkh(key)", code(|| Sh::new_wpkh(dpk.clone())))); calls.push(("Descriptor::new_sh_wpkh(key)", code(|| Descriptor::new_sh_wpkh(dpk.clone())))); }
            "tr" => { calls.push(("Tr::new(key, None)", code(|| Tr::new(dpk.clone(), None)))); calls.push(("Descriptor::new_tr(key, None)", code(|| Descriptor::new_tr(dpk.clone(), None)))); }
            _ => { calls.push(("Descriptor::new_pk(key)", code(|| Ok(Descriptor::new_pk(dpk.clone()))))); }
        }
        let text_code = code(|| Descriptor::<DPk>::from_str(&printed));
        if entry != 0 {
            let g = G::key(K::PkK, key.clone());
            let mut ids = BTreeMap::new();
            let f = facts_indep(cx, &g, &mut ids);
            let entries: Vec<(bool, u32, usize, u32)> = calls.iter().map(|c| (true, entry, 0usize, c.1)).collect();
            o.calls += entries.len() as u64;
            o.lits.push(coq_rcase(o.id, cx, 3, true, true, &[], &[], &[], &f, &[], &[], &entries));
        }
        for (cname, c) in &calls {
            *o.hist.entry(format!("{} | {} | key {} | {}", cx.name(), cname, tag, if *c == 0 { "Ok".to_string() } else { format!("Err:{}", code_name(*c)) })).or_default() += 1;
            if *c != 0 { continue; }
            let inp = format!("{{\"constructor\":{},\"context\":{},\"key\":{},\"key_kind\":{},\"printed\":{},\"Descriptor::from_str(printed)\":{}}}",
                jstr(cname), jstr(cx.name()), jstr(&key.s), jstr(tag), jstr(&printed), jstr(code_name(text_code)));
            if !key_legal(cx, key) {
                o.viol.push((format!("ctor-accepts:keykind-{}:key-constructor", wrapper.replace("sh(wpkh", "sh-wpkh")),
                    format!("{} returned Ok for a {} key although {} forbids it: `{}`; Descriptor::from_str of the printed form: {}", cname, tag, cx.name(), printed, code_name(text_code)), inp));
            } else if text_code != 0 {
                o.viol.push(("ctor-not-text:key-constructor".into(), format!("{} returned Ok for a {} key but Descriptor::from_str(`{}`) fails with {}", cname, tag, printed, code_name(text_code)), inp));
            }
        }
    }
}

pub fn run(args: &[String]) {
    let seed: u64 = args.first().and_then(|s| s.parse().ok()).unwrap_or(1);
    let kt = crate::validate::key_table();
    let mut o = Out::default();
    // ---- directed: n x k x key pattern x context x flavour
    for cx in [Cx::Segwitv0, Cx::Legacy, Cx::Bare] {
        for sorted in [true, false] {
            for n in [1usize, 2, 3, 15, 16, 20, 21] {
                if cx == Cx::Bare && n > 4 { continue; }
                let comp: Vec<Key> = kt.comp[..n].to_vec();
                let mut pats: Vec<(&str, Vec<Key>)> = vec![("all-compressed", comp.clone())];
                let mut v = comp.clone(); v[0] = kt.unc[0].clone(); pats.push(("uncompressed-first", v));
                let mut v = comp.clone(); v[n - 1] = kt.unc[n - 1].clone(); pats.push(("uncompressed-last", v));
                pats.push(("all-uncompressed", kt.unc[..n].to_vec()));
                let mut v = comp.clone(); v[0] = kt.xo[0].clone(); pats.push(("xonly-first", v));
                let mut v = comp.clone(); v[n - 1] = kt.xo[n - 1].clone(); pats.push(("xonly-last", v));
                if n >= 2 { let mut v = comp.clone(); v[1] = v[0].clone(); pats.push(("duplicate", v)); }
                if n <= 3 { let mut v = comp.clone(); v[0] = Key::classify(&format!("{}/0/*", kt.xpub[0])); pats.push(("xpub", v)); }
                for (tag, keys) in pats {
                    let mut ks = vec![1usize, n];
                    if n > 2 { ks.push(n / 2 + 1); }
                    if tag == "all-compressed" { ks.push(0); ks.push(n + 1); }
                    ks.dedup();
                    for k in ks { multi_case(&mut o, cx, sorted, k, &keys, tag); }
                }
            }
        }
    }
    // ---- generated: random n, k, key kinds (splitmix64 of the seed)
    let mut rng = Rng(seed ^ 0xC12C_7012);
    for _ in 0..96 {
        let cx = *rng.pick(&[Cx::Segwitv0, Cx::Legacy, Cx::Bare]);
        let n = if cx == Cx::Bare { 1 + rng.below(4) } else { 1 + rng.below(20) } as usize;
        let k = 1 + rng.below(n as u64) as usize;
        let clean = rng.chance(1, 3);
        let keys: Vec<Key> = (0..n).map(|i| {
            let j = rng.below(40) as usize;
            if clean { kt.comp[40 * i + j].clone() } else {
                match rng.below(10) { 0 => kt.unc[j].clone(), 1 => kt.xo[40 * i + j].clone(), _ => kt.comp[40 * i + j].clone() }
            }
        }).collect();
        let sorted = rng.chance(2, 3);
        multi_case(&mut o, cx, sorted, k, &keys, "generated");
    }
    // ---- single-key constructors
    for i in 0..3 {
        key_case(&mut o, &kt.comp[i], "compressed");
        key_case(&mut o, &kt.unc[i], "uncompressed");
        key_case(&mut o, &kt.xo[i], "x-only");
        key_case(&mut o, &Key::classify(&format!("{}/{}/*", kt.xpub[i], i)), "xpub");
    }
    // ---- Coq file
    if let Some(vout) = args.get(1) {
        let mut v = String::new();
        v.push_str("(* GENERATED by `verif-harness validate ctors`: the constructor stream. *)\nFrom Coq Require Import Uint63 List NArith.\nImport ListNotations.\nFrom Verif Require Import ValidateModel ValidateCasesDefs.\nLocal Open Scope N_scope.\nDefinition g_ps : list vparams := [].\nLocal Open Scope uint63_scope.\n");
        let mut names = vec![];
        for (ci, ch) in o.lits.chunks(150).enumerate() {
            let _ = writeln!(v, "Definition g_cases_{} : list rcase := [\n  {}].", ci, ch.join(";\n  "));
            names.push(format!("g_cases_{}", ci));
        }
        let _ = writeln!(v, "Definition g_cases : list (list rcase) := [{}].", names.join("; "));
        let _ = writeln!(v, "Definition g_ncases : N := {}%N.", o.lits.len());
        std::fs::write(vout, v).expect("write ctor cases .v");
    }
    println!("{{\"mode\":\"ctors\",\"inputs\":{},\"calls\":{},\"violations\":[{}],\"hist\":{{{}}},\"samples\":[{}]}}", o.id, o.calls,
        o.viol.iter().map(|(k, w, i)| format!("[{},{},{}]", jstr(k), jstr(w), i)).collect::<Vec<_>>().join(","),
        o.hist.iter().map(|(k, n)| format!("{}:{}", jstr(k), n)).collect::<Vec<_>>().join(","),
        o.samples.iter().map(|s| jstr(s)).collect::<Vec<_>>().join(","));
}
