//! Driver of the `desc` engine: runs all cases, writes coq/Tables/DescCasesGen.v, prints records.
use std::collections::BTreeMap;
use std::fmt::Write as _;

use super::{battery, gen, make_world};

/// Byte strings are written once, packed 7 bytes per primitive 63-bit integer, and referred
/// to by number: `"hex"` tokens of the collected terms become `(b n)`.
#[derive(Default)]
struct Pool {
    idx: BTreeMap<String, usize>,
    items: Vec<String>,
}
impl Pool {
    fn get(&mut self, hexs: &str) -> usize {
        if let Some(i) = self.idx.get(hexs) {
            return *i;
        }
        let bytes: Vec<u8> = (0..hexs.len() / 2).map(|i| u8::from_str_radix(&hexs[2 * i..2 * i + 2], 16).unwrap()).collect();
        let words: Vec<String> = bytes
            .chunks(7)
            .map(|c| {
                let mut w: u64 = 0;
                for (k, x) in c.iter().enumerate() {
                    w |= (*x as u64) << (8 * k);
                }
                w.to_string()
            })
            .collect();
        let i = self.items.len();
        let mut flat = vec![bytes.len().to_string()];
        flat.extend(words);
        self.items.push(flat.join("; "));
        self.idx.insert(hexs.to_string(), i);
        i
    }
    fn poolify(&mut self, term: &str) -> String {
        let mut out = String::with_capacity(term.len());
        let mut rest = term;
        while let Some(a) = rest.find('"') {
            out.push_str(&rest[..a]);
            let after = &rest[a + 1..];
            let e = after.find('"').expect("balanced quotes");
            let i = self.get(&after[..e]);
            out.push_str(&format!("(b {})", i));
            rest = &after[e + 1..];
        }
        out.push_str(rest);
        out
    }
}

fn chunked(out: &mut String, name: &str, ty: &str, items: &[String], per: usize, tparam: bool) {
    let (par, arg, pre) = if tparam { (" (T : tables)", " T", "let tmpl := tmpl_h (h160 T) in ") } else { ("", "", "") };
    let mut names = Vec::new();
    for (c, chunk) in items.chunks(per).enumerate() {
        let n = format!("{}_p{}", name, c);
        writeln!(out, "Definition {}{} : list ({}) := {}[", n, par, ty, pre).unwrap();
        for (i, it) in chunk.iter().enumerate() {
            writeln!(out, "  {}{}", it, if i + 1 < chunk.len() { ";" } else { "" }).unwrap();
        }
        writeln!(out, "].").unwrap();
        names.push(format!("{}{}", n, arg));
    }
    if names.is_empty() {
        writeln!(out, "Definition {}{} : list ({}) := [].", name, par, ty).unwrap();
    } else {
        writeln!(out, "Definition {}{} : list ({}) := {}.", name, par, ty, names.join(" ++ ")).unwrap();
    }
}

pub fn run(args: &[String]) {
    if args.len() < 2 {
        eprintln!("usage: verif-harness desc <seed> <outdir> [--only <case id>]");
        std::process::exit(2);
    }
    let seed: u64 = args[0].parse().unwrap_or(1);
    let outdir = &args[1];
    let only: Option<u64> =
        args.iter().position(|a| a == "--only").and_then(|i| args.get(i + 1)).and_then(|x| x.parse().ok());
    let thorough = std::env::var("VERIF_TIER").map(|t| t == "thorough").unwrap_or(false);
    let n_cases: u64 = std::env::var("VERIF_DESC_CASES")
        .ok()
        .and_then(|x| x.parse().ok())
        .unwrap_or(if thorough { 6000 } else { 1200 });
    let w = make_world(seed);
    let mut out = battery::Out::default();
    let ids: Vec<u64> = match only {
        // a shared-origin case is judged together with what was derived before it in its block
        Some(i) if i >= gen::N_CORPUS && (i / 8) % 10 == 7 => ((i - i % 8)..=i).collect(),
        Some(i) => vec![i],
        None => (0..n_cases).collect(),
    };
    // panics inside the library are caught per call; keep the default hook quiet
    std::panic::set_hook(Box::new(|_| {}));
    for id in ids {
        let case = gen::gen_case(&w, seed, id);
        battery::run_case(&w, &case, seed, &mut out);
    }
    let _ = std::panic::take_hook();
    // ---- Coq file
    let mut pool = Pool::default();
    let pairs = |m: &BTreeMap<Vec<u8>, Vec<u8>>| -> Vec<String> {
        m.iter().map(|(k, x)| format!("\"{}\"; \"{}\"", battery::hex(k), battery::hex(x))).collect()
    };
    let mut sections: Vec<(&str, &str, Vec<String>, usize)> = vec![
        ("h160_tbl", "bytes", pairs(&out.h160), 1000),
        ("sha_tbl", "bytes", pairs(&out.sha), 1000),
        ("comp_tbl", "bytes", pairs(&out.comp), 1000),
        ("tap_tbl", "bytes * list (N * bytes) * bytes", out.tap.iter().cloned().collect(), 500),
        ("ckd_tbl", "N * list step * bytes", out.ckd.iter().cloned().collect(), 1000),
        ("scases", "scase", out.scases.clone(), 300),
        ("kcases", "kcase", out.kcases.clone(), 300),
        ("splitcases", "splitcase", out.splitcases.clone(), 300),
        ("findcases", "findcase", out.findcases.clone(), 300),
        ("parsecases", "pcase", out.parsecases.clone(), 300),
    ];
    for sec in sections.iter_mut() {
        sec.2 = sec.2.iter().map(|t| pool.poolify(t)).collect();
    }
    let head = |imports: &str| -> String {
        format!(
            "(* GENERATED by `verif-harness desc {}`: byte-level facts of this run. *)\nFrom Coq Require Import List NArith Uint63.\nImport ListNotations.\nFrom Verif Require Import DescWrapModel DescCasesDefs{}.\n",
            seed, imports
        )
    };
    std::fs::create_dir_all(outdir).unwrap();
    // pool: a flat stream  len, words..., len, words...
    let mut v = head("");
    writeln!(v, "Local Open Scope uint63_scope.").unwrap();
    chunked(&mut v, "pool", "int", &pool.items, 2000, false);
    writeln!(v, "Local Close Scope uint63_scope.\nLocal Open Scope N_scope.").unwrap();
    writeln!(v, "Definition PoolT := pool_build pool.\nDefinition b (i : N) : bytes := pool_get PoolT i.").unwrap();
    std::fs::write(format!("{}/DescPoolGen.v", outdir), v).unwrap();
    let mut v = head(" DescPoolGen");
    writeln!(v, "Local Open Scope N_scope.").unwrap();
    for (name, ty, items, per) in &sections[..5] {
        chunked(&mut v, name, ty, items, *per, false);
    }
    writeln!(
        v,
        "Definition T : tables := mkTables (bt_build h160_tbl) (bt_build sha_tbl) (bt_build comp_tbl) (tap_build tap_tbl) (ckd_build ckd_tbl)."
    )
    .unwrap();
    std::fs::write(format!("{}/DescTablesGen.v", outdir), v).unwrap();
    for (file, range) in [("DescScriptCasesGen", 5..6), ("DescKeyCasesGen", 6..7), ("DescSplitCasesGen", 7..10)] {
        let mut v = head(" DescPoolGen");
        writeln!(v, "Local Open Scope N_scope.").unwrap();
        for (name, ty, items, per) in &sections[range] {
            chunked(&mut v, name, ty, items, *per, true);
        }
        std::fs::write(format!("{}/{}.v", outdir, file), v).unwrap();
    }
    // ---- records
    let n = [
        ("coq_script_cases", out.scases.len()),
        ("coq_key_cases", out.kcases.len()),
        ("coq_split_cases", out.splitcases.len()),
        ("coq_find_cases", out.findcases.len()),
        ("coq_parse_cases", out.parsecases.len()),
        ("hash160_table", out.h160.len()),
        ("ckd_table", out.ckd.len()),
    ];
    for (k, x) in n {
        out.add(k, x as u64);
    }
    for (k, j) in &out.violations {
        println!("V\t{}\t{}", k, j);
    }
    for (k, n) in &out.counters {
        println!("N\t{}\t{}", k, n);
    }
    for ((name, b), n) in &out.hist {
        println!("H\t{}\t{}\t{}", name, b, n);
    }
    for s in &out.samples {
        println!("S\t{}", s);
    }
    for (id, d) in &out.descs {
        println!("C\t{}\t{}", id, d);
    }
}
