//! Descriptor shapes of the `desc` engine and the ORACLE's own script assembly
//! (bitcoin's Builder / ScriptBuf::new_p2* / TaprootBuilder only — never miniscript).
use bitcoin::hashes::{hash160, Hash};
use bitcoin::key::CompressedPublicKey;
use bitcoin::opcodes::all as op;
use bitcoin::script::{Builder, PushBytesBuf};
use bitcoin::taproot::TaprootBuilder;
use bitcoin::{PublicKey, ScriptBuf, XOnlyPublicKey};

use super::World;

/// key arguments are indices into the case's key list
#[derive(Clone, Debug)]
pub enum Ms {
    Pk(usize),
    Pkh(usize),
    Multi(usize, Vec<usize>),
    SortedMulti(usize, Vec<usize>),
    MultiA(usize, Vec<usize>),
    SortedMultiA(usize, Vec<usize>),
    /// and_v(v:pk(A),pk(B))
    AndV(usize, usize),
    /// or_d(pk(A),pkh(B))
    OrD(usize, usize),
    /// and_v(v:pk(A),older(n))
    AndOlder(usize, u32),
}
#[derive(Clone, Debug)]
pub enum Shape {
    Bare(Ms),
    Pkh(usize),
    Wpkh(usize),
    Sh(Ms),
    ShWsh(Ms),
    ShWpkh(usize),
    Wsh(Ms),
    /// internal key, leaves with depths (depth-first order)
    Tr(usize, Vec<(u8, Ms)>),
}

impl Ms {
    pub fn name(&self) -> &'static str {
        match self {
            Ms::Pk(_) => "pk",
            Ms::Pkh(_) => "pkh",
            Ms::Multi(..) => "multi",
            Ms::SortedMulti(..) => "sortedmulti",
            Ms::MultiA(..) => "multi_a",
            Ms::SortedMultiA(..) => "sortedmulti_a",
            Ms::AndV(..) => "and_v",
            Ms::OrD(..) => "or_d",
            Ms::AndOlder(..) => "and_v+older",
        }
    }
    pub fn keys(&self) -> Vec<usize> {
        match self {
            Ms::Pk(a) | Ms::Pkh(a) | Ms::AndOlder(a, _) => vec![*a],
            Ms::Multi(_, v) | Ms::SortedMulti(_, v) | Ms::MultiA(_, v) | Ms::SortedMultiA(_, v) => v.clone(),
            Ms::AndV(a, b) | Ms::OrD(a, b) => vec![*a, *b],
        }
    }
    pub fn render(&self, ks: &[String]) -> String {
        let list = |k: &usize, v: &Vec<usize>, name: &str| {
            let mut s = format!("{}({}", name, k);
            for i in v {
                s.push(',');
                s.push_str(&ks[*i]);
            }
            s.push(')');
            s
        };
        match self {
            Ms::Pk(a) => format!("pk({})", ks[*a]),
            Ms::Pkh(a) => format!("pkh({})", ks[*a]),
            Ms::Multi(k, v) => list(k, v, "multi"),
            Ms::SortedMulti(k, v) => list(k, v, "sortedmulti"),
            Ms::MultiA(k, v) => list(k, v, "multi_a"),
            Ms::SortedMultiA(k, v) => list(k, v, "sortedmulti_a"),
            Ms::AndV(a, b) => format!("and_v(v:pk({}),pk({}))", ks[*a], ks[*b]),
            Ms::OrD(a, b) => format!("or_d(pk({}),pkh({}))", ks[*a], ks[*b]),
            Ms::AndOlder(a, n) => format!("and_v(v:pk({}),older({}))", ks[*a], n),
        }
    }
    pub fn permuted(&self, perm: &[usize]) -> Ms {
        match self {
            Ms::SortedMulti(k, v) => Ms::SortedMulti(*k, perm.iter().map(|i| v[*i]).collect()),
            Ms::SortedMultiA(k, v) => Ms::SortedMultiA(*k, perm.iter().map(|i| v[*i]).collect()),
            m => m.clone(),
        }
    }
    /// ORACLE: the script of this fragment, assembled here with bitcoin's Builder.
    /// BIP67 for sortedmulti: keys ordered by the bytes that are pushed.
    pub fn script(&self, pks: &[PublicKey], tap: bool) -> ScriptBuf {
        let push_key = |b: Builder, i: usize| -> Builder {
            if tap {
                b.push_slice(XOnlyPublicKey::from(pks[i].inner).serialize())
            } else {
                b.push_slice(PushBytesBuf::try_from(pks[i].to_bytes()).unwrap())
            }
        };
        let key_hash = |i: usize| -> [u8; 20] {
            if tap {
                hash160::Hash::hash(&XOnlyPublicKey::from(pks[i].inner).serialize()).to_byte_array()
            } else {
                hash160::Hash::hash(&pks[i].to_bytes()).to_byte_array()
            }
        };
        let b = Builder::new();
        match self {
            Ms::Pk(a) => push_key(b, *a).push_opcode(op::OP_CHECKSIG),
            Ms::Pkh(a) => b
                .push_opcode(op::OP_DUP)
                .push_opcode(op::OP_HASH160)
                .push_slice(key_hash(*a))
                .push_opcode(op::OP_EQUALVERIFY)
                .push_opcode(op::OP_CHECKSIG),
            Ms::Multi(k, v) | Ms::SortedMulti(k, v) => {
                let mut order = v.clone();
                if let Ms::SortedMulti(..) = self {
                    order.sort_by_key(|i| pks[*i].to_bytes());
                }
                let mut b = b.push_int(*k as i64);
                for i in order {
                    b = push_key(b, i);
                }
                b.push_int(v.len() as i64).push_opcode(op::OP_CHECKMULTISIG)
            }
            Ms::MultiA(k, v) | Ms::SortedMultiA(k, v) => {
                let mut order = v.clone();
                if let Ms::SortedMultiA(..) = self {
                    order.sort_by_key(|i| XOnlyPublicKey::from(pks[*i].inner).serialize());
                }
                let mut b = push_key(b, order[0]).push_opcode(op::OP_CHECKSIG);
                for i in &order[1..] {
                    b = push_key(b, *i).push_opcode(op::OP_CHECKSIGADD);
                }
                b.push_int(*k as i64).push_opcode(op::OP_NUMEQUAL)
            }
            Ms::AndV(x, y) => {
                let b = push_key(b, *x).push_opcode(op::OP_CHECKSIGVERIFY);
                push_key(b, *y).push_opcode(op::OP_CHECKSIG)
            }
            Ms::OrD(x, y) => push_key(b, *x)
                .push_opcode(op::OP_CHECKSIG)
                .push_opcode(op::OP_IFDUP)
                .push_opcode(op::OP_NOTIF)
                .push_opcode(op::OP_DUP)
                .push_opcode(op::OP_HASH160)
                .push_slice(key_hash(*y))
                .push_opcode(op::OP_EQUALVERIFY)
                .push_opcode(op::OP_CHECKSIG)
                .push_opcode(op::OP_ENDIF),
            Ms::AndOlder(x, n) => push_key(b, *x)
                .push_opcode(op::OP_CHECKSIGVERIFY)
                .push_int(*n as i64)
                .push_opcode(op::OP_CSV),
        }
        .into_script()
    }
}

impl Shape {
    pub fn kind(&self) -> &'static str {
        match self {
            Shape::Bare(_) => "bare",
            Shape::Pkh(_) => "pkh",
            Shape::Wpkh(_) => "wpkh",
            Shape::Sh(_) => "sh",
            Shape::ShWsh(_) => "sh-wsh",
            Shape::ShWpkh(_) => "sh-wpkh",
            Shape::Wsh(_) => "wsh",
            Shape::Tr(..) => "tr",
        }
    }
    pub fn inner_name(&self) -> String {
        match self {
            Shape::Bare(m) | Shape::Sh(m) | Shape::ShWsh(m) | Shape::Wsh(m) => m.name().to_string(),
            Shape::Tr(_, l) => format!("{}-leaves", l.len()),
            _ => "key".to_string(),
        }
    }
    /// keys in the implementation's for_each_key order (leaves first, internal key last)
    pub fn key_order(&self) -> Vec<usize> {
        match self {
            Shape::Bare(m) | Shape::Sh(m) | Shape::ShWsh(m) | Shape::Wsh(m) => m.keys(),
            Shape::Pkh(k) | Shape::Wpkh(k) | Shape::ShWpkh(k) => vec![*k],
            Shape::Tr(ik, leaves) => {
                let mut v: Vec<usize> = leaves.iter().flat_map(|(_, m)| m.keys()).collect();
                v.push(*ik);
                v
            }
        }
    }
    pub fn render(&self, ks: &[String]) -> String {
        match self {
            Shape::Bare(m) => m.render(ks),
            Shape::Pkh(k) => format!("pkh({})", ks[*k]),
            Shape::Wpkh(k) => format!("wpkh({})", ks[*k]),
            Shape::Sh(m) => format!("sh({})", m.render(ks)),
            Shape::ShWsh(m) => format!("sh(wsh({}))", m.render(ks)),
            Shape::ShWpkh(k) => format!("sh(wpkh({}))", ks[*k]),
            Shape::Wsh(m) => format!("wsh({})", m.render(ks)),
            Shape::Tr(ik, leaves) => {
                let l: Vec<String> = leaves.iter().map(|(_, m)| m.render(ks)).collect();
                match l.len() {
                    0 => format!("tr({})", ks[*ik]),
                    1 => format!("tr({},{})", ks[*ik], l[0]),
                    2 => format!("tr({},{{{},{}}})", ks[*ik], l[0], l[1]),
                    3 => format!("tr({},{{{},{{{},{}}}}})", ks[*ik], l[0], l[1], l[2]),
                    _ => format!("tr({},{{{{{},{}}},{{{},{}}}}})", ks[*ik], l[0], l[1], l[2], l[3]),
                }
            }
        }
    }
    pub fn sorted_len(&self) -> Option<usize> {
        let pick = |m: &Ms| match m {
            Ms::SortedMulti(_, v) | Ms::SortedMultiA(_, v) => Some(v.len()),
            _ => None,
        };
        match self {
            Shape::Bare(m) | Shape::Sh(m) | Shape::ShWsh(m) | Shape::Wsh(m) => pick(m),
            Shape::Tr(_, leaves) => leaves.iter().find_map(|(_, m)| pick(m)),
            _ => None,
        }
    }
    /// the same descriptor with the keys of its (first) sortedmulti listed in another order
    pub fn with_permuted_sorted(&self, perm: &[usize]) -> Shape {
        match self {
            Shape::Bare(m) => Shape::Bare(m.permuted(perm)),
            Shape::Sh(m) => Shape::Sh(m.permuted(perm)),
            Shape::ShWsh(m) => Shape::ShWsh(m.permuted(perm)),
            Shape::Wsh(m) => Shape::Wsh(m.permuted(perm)),
            Shape::Tr(ik, leaves) => {
                let mut done = false;
                let l = leaves
                    .iter()
                    .map(|(d, m)| {
                        if !done && matches!(m, Ms::SortedMulti(..) | Ms::SortedMultiA(..)) {
                            done = true;
                            (*d, m.permuted(perm))
                        } else {
                            (*d, m.clone())
                        }
                    })
                    .collect();
                Shape::Tr(*ik, l)
            }
            s => s.clone(),
        }
    }
}

/// What the oracle expects of a definite descriptor (all computed with `bitcoin` only).
pub struct Expect {
    pub explicit: Option<ScriptBuf>,
    pub spk: ScriptBuf,
    pub script_sig: ScriptBuf,
    pub script_code: Option<ScriptBuf>,
    /// taproot only: (x-only internal key, leaf scripts with depth, output key)
    pub tap: Option<([u8; 32], Vec<(u8, ScriptBuf)>, [u8; 32])>,
}

fn push_script(s: &ScriptBuf) -> ScriptBuf {
    Builder::new().push_slice(PushBytesBuf::try_from(s.to_bytes()).unwrap()).into_script()
}

pub fn expect_for(w: &World, shape: &Shape, pks: &[PublicKey]) -> Expect {
    let none = ScriptBuf::new();
    match shape {
        Shape::Bare(m) => {
            let s = m.script(pks, false);
            Expect { explicit: Some(s.clone()), spk: s.clone(), script_sig: none, script_code: Some(s), tap: None }
        }
        Shape::Pkh(k) => {
            let s = ScriptBuf::new_p2pkh(&pks[*k].pubkey_hash());
            Expect { explicit: Some(s.clone()), spk: s.clone(), script_sig: none, script_code: Some(s), tap: None }
        }
        Shape::Wpkh(k) => {
            let c = CompressedPublicKey::try_from(pks[*k]).expect("generator: compressed");
            let s = ScriptBuf::new_p2wpkh(&c.wpubkey_hash());
            Expect {
                explicit: Some(s.clone()),
                spk: s,
                script_sig: none,
                script_code: Some(ScriptBuf::new_p2pkh(&pks[*k].pubkey_hash())),
                tap: None,
            }
        }
        Shape::Sh(m) => {
            let s = m.script(pks, false);
            Expect {
                explicit: Some(s.clone()),
                spk: ScriptBuf::new_p2sh(&s.script_hash()),
                script_sig: none,
                script_code: Some(s),
                tap: None,
            }
        }
        Shape::Wsh(m) => {
            let s = m.script(pks, false);
            Expect {
                explicit: Some(s.clone()),
                spk: ScriptBuf::new_p2wsh(&s.wscript_hash()),
                script_sig: none,
                script_code: Some(s),
                tap: None,
            }
        }
        Shape::ShWsh(m) => {
            let s = m.script(pks, false);
            let redeem = ScriptBuf::new_p2wsh(&s.wscript_hash());
            Expect {
                explicit: Some(s.clone()),
                spk: ScriptBuf::new_p2sh(&redeem.script_hash()),
                script_sig: push_script(&redeem),
                script_code: Some(s),
                tap: None,
            }
        }
        Shape::ShWpkh(k) => {
            let c = CompressedPublicKey::try_from(pks[*k]).expect("generator: compressed");
            let redeem = ScriptBuf::new_p2wpkh(&c.wpubkey_hash());
            Expect {
                explicit: Some(redeem.clone()),
                spk: ScriptBuf::new_p2sh(&redeem.script_hash()),
                script_sig: push_script(&redeem),
                script_code: Some(ScriptBuf::new_p2pkh(&pks[*k].pubkey_hash())),
                tap: None,
            }
        }
        Shape::Tr(ik, leaves) => {
            let internal = XOnlyPublicKey::from(pks[*ik].inner);
            let scripts: Vec<(u8, ScriptBuf)> = leaves.iter().map(|(d, m)| (*d, m.script(pks, true))).collect();
            let mut tb = TaprootBuilder::new();
            for (d, s) in &scripts {
                tb = tb.add_leaf(*d, s.clone()).expect("generator: valid tree");
            }
            let root = if scripts.is_empty() {
                None
            } else {
                tb.finalize(&w.secp, internal).expect("complete tree").merkle_root()
            };
            let spk = ScriptBuf::new_p2tr(&w.secp, internal, root);
            let mut out = [0u8; 32];
            out.copy_from_slice(&spk.as_bytes()[2..34]);
            Expect {
                explicit: None,
                spk,
                script_sig: none,
                script_code: None,
                tap: Some((internal.serialize(), scripts, out)),
            }
        }
    }
}
