//! Per-case battery: implementation vs the harness's independent oracle, and collection of
//! the byte-level facts that are re-checked against the Gallina model inside Coq.
use std::collections::{BTreeMap, BTreeSet};
use std::panic::{catch_unwind, AssertUnwindSafe};
use std::str::FromStr;

use bitcoin::bip32::ChildNumber;
use bitcoin::hashes::{hash160, sha256, Hash};
use bitcoin::{Address, Network, PublicKey, ScriptBuf, XOnlyPublicKey};
use miniscript::descriptor::{DescriptorPublicKey, SinglePubKey, Wildcard};
use miniscript::{Descriptor, ForEachKey};

use super::gen::Case;
use super::shape::{expect_for, Expect, Ms, Shape};
use super::{GKey, Mode, Rng, World};

pub const NETWORKS: [Network; 5] =
    [Network::Bitcoin, Network::Testnet, Network::Testnet4, Network::Signet, Network::Regtest];

pub fn hex(b: &[u8]) -> String {
    let mut s = String::with_capacity(b.len() * 2);
    for x in b {
        s.push_str(&format!("{:02x}", x));
    }
    s
}
pub fn jstr(s: &str) -> String {
    let mut o = String::from("\"");
    for c in s.chars() {
        match c {
            '"' => o.push_str("\\\""),
            '\\' => o.push_str("\\\\"),
            '\n' => o.push_str("\\n"),
            c if (c as u32) < 0x20 => o.push_str(&format!("\\u{:04x}", c as u32)),
            c => o.push(c),
        }
    }
    o.push('"');
    o
}

#[derive(Default)]
pub struct Out {
    pub violations: Vec<(String, String)>, // key, json replay object
    pub counters: BTreeMap<String, u64>,
    pub hist: BTreeMap<(String, String), u64>,
    pub samples: Vec<String>,
    // Coq tables
    pub h160: BTreeMap<Vec<u8>, Vec<u8>>,
    pub sha: BTreeMap<Vec<u8>, Vec<u8>>,
    pub tap: BTreeSet<String>,
    pub ckd: BTreeSet<String>,
    pub comp: BTreeMap<Vec<u8>, Vec<u8>>,
    pub scases: Vec<String>,
    pub kcases: Vec<String>,
    pub splitcases: Vec<String>,
    pub findcases: Vec<String>,
    pub parsecases: Vec<String>,
    pub descs: Vec<(u64, String)>,
    /// derivations done earlier in this process: (case, descriptor, index, the oracle's script)
    pub history: Vec<(u64, String, u32, ScriptBuf)>,
}
impl Out {
    pub fn count(&mut self, k: &str) { *self.counters.entry(k.to_string()).or_insert(0) += 1; }
    pub fn add(&mut self, k: &str, n: u64) { *self.counters.entry(k.to_string()).or_insert(0) += n; }
    pub fn h(&mut self, name: &str, bucket: &str) {
        *self.hist.entry((name.to_string(), bucket.to_string())).or_insert(0) += 1;
    }
    fn violation(&mut self, key: &str, case: &Case, desc: &str, index: Option<u32>, what: &str, extra: &str) {
        let idx = match index {
            Some(i) => i.to_string(),
            None => "null".to_string(),
        };
        let j = format!(
            "{{\"property\":\"C16\",\"case_id\":{},\"stream\":{},\"descriptor\":{},\"index\":{},\"what\":{}{}}}",
            case.id,
            jstr(case.stream),
            jstr(desc),
            idx,
            jstr(what),
            extra
        );
        self.violations.push((key.to_string(), j));
    }
    fn note_h160(&mut self, data: &[u8]) {
        self.h160.insert(data.to_vec(), hash160::Hash::hash(data).to_byte_array().to_vec());
    }
    fn note_sha(&mut self, data: &[u8]) {
        self.sha.insert(data.to_vec(), sha256::Hash::hash(data).to_byte_array().to_vec());
    }
    /// Table entries (computed with bitcoin_hashes / TaprootBuilder) that the model needs to
    /// rebuild the scripts of one definite descriptor.
    fn note_instance(&mut self, shape: &Shape, pks: &[PublicKey], exp: &Expect, also: Option<&ScriptBuf>) {
        let tap = matches!(shape, Shape::Tr(..));
        for pk in pks {
            coq_pk(self, pk);
            if tap {
                self.note_h160(&XOnlyPublicKey::from(pk.inner).serialize());
            } else {
                self.note_h160(&pk.to_bytes());
            }
        }
        let mut scripts: Vec<&ScriptBuf> = exp.explicit.iter().collect();
        scripts.extend(also);
        for s in scripts {
            match shape {
                Shape::Sh(_) | Shape::ShWpkh(_) => self.note_h160(s.as_bytes()),
                Shape::Wsh(_) => self.note_sha(s.as_bytes()),
                Shape::ShWsh(_) => {
                    self.note_sha(s.as_bytes());
                    self.note_h160(ScriptBuf::new_p2wsh(&s.wscript_hash()).as_bytes());
                }
                _ => {}
            }
        }
        if let Some((ik, leaves, okey)) = &exp.tap {
            let l: Vec<String> = leaves.iter().map(|(d, s)| format!("({}, \"{}\")", d, hex(s.as_bytes()))).collect();
            self.tap.insert(format!("(\"{}\", [{}], \"{}\")", hex(ik), l.join("; "), hex(okey)));
        }
    }
}

fn err_class<E: std::fmt::Debug>(e: &E) -> String {
    let s = format!("{:?}", e);
    s.split(|c: char| !c.is_alphanumeric()).next().unwrap_or("").to_string()
}

// ------------------------------------------------------------------------------ Coq terms
fn coq_steps(p: &[ChildNumber]) -> String {
    let v: Vec<String> = p
        .iter()
        .map(|c| match c {
            ChildNumber::Normal { index } => format!("St false {}", index),
            ChildNumber::Hardened { index } => format!("St true {}", index),
        })
        .collect();
    format!("[{}]", v.join("; "))
}
fn coq_origin(o: &Option<(bitcoin::bip32::Fingerprint, Vec<ChildNumber>)>) -> String {
    match o {
        None => "None".to_string(),
        Some((fp, p)) => format!("(Og \"{}\" {})", hex(fp.as_bytes()), coq_steps(p)),
    }
}
fn coq_wild(w: u8) -> &'static str {
    match w {
        0 => "WNone",
        1 => "WUnhardened",
        _ => "WHardened",
    }
}
/// the generator's key as a model `dkey` (independent of the implementation's parser)
fn coq_gkey(w: &World, k: &GKey) -> String {
    match k {
        GKey::Single { sk, form, origin } => {
            let pk = w.sks[*sk].public_key(&w.secp);
            let o = coq_origin(&origin.as_ref().map(|(xk, p)| (w.xks[*xk].master_fp, p.clone())));
            match form {
                0 => format!("(KSingle {} (Sf \"{}\" true))", o, hex(&pk.serialize())),
                1 => format!("(KSingle {} (Sf \"{}\" false))", o, hex(&pk.serialize_uncompressed())),
                _ => format!("(KSingle {} (Sx \"{}\"))", o, hex(&pk.x_only_public_key().0.serialize())),
            }
        }
        GKey::Raw { .. } => "(KSingle None (Sx \"\"))".to_string(),
        GKey::X { xk, origin, alts, wild, .. } => {
            let o = coq_origin(origin);
            let paths = k.paths();
            if alts.is_empty() {
                format!("(KXpub {} {} {} {})", o, xk, coq_steps(&paths[0]), coq_wild(*wild))
            } else {
                let ps: Vec<String> = paths.iter().map(|p| coq_steps(p)).collect();
                format!("(KMulti {} {} [{}] {})", o, xk, ps.join("; "), coq_wild(*wild))
            }
        }
    }
}
/// the implementation's key as a model `dkey`
fn coq_implkey(w: &World, k: &DescriptorPublicKey) -> String {
    let wild = |x: Wildcard| match x {
        Wildcard::None => "WNone",
        Wildcard::Unhardened => "WUnhardened",
        Wildcard::Hardened => "WHardened",
    };
    let path = |p: &bitcoin::bip32::DerivationPath| -> Vec<ChildNumber> { p.into_iter().cloned().collect() };
    let orig = |o: &Option<(bitcoin::bip32::Fingerprint, bitcoin::bip32::DerivationPath)>| {
        coq_origin(&o.as_ref().map(|(f, p)| (*f, path(p))))
    };
    let xid = |x: &bitcoin::bip32::Xpub| w.xks.iter().position(|k| &k.xpub == x).map(|i| i as i64).unwrap_or(999);
    match k {
        DescriptorPublicKey::Single(s) => match s.key {
            SinglePubKey::FullKey(pk) => {
                format!("(KSingle {} (Sf \"{}\" {}))", orig(&s.origin), hex(&pk.to_bytes()), pk.compressed)
            }
            SinglePubKey::XOnly(x) => format!("(KSingle {} (Sx \"{}\"))", orig(&s.origin), hex(&x.serialize())),
        },
        DescriptorPublicKey::XPub(x) => format!(
            "(KXpub {} {} {} {})",
            orig(&x.origin),
            xid(&x.xkey),
            coq_steps(&path(&x.derivation_path)),
            wild(x.wildcard)
        ),
        DescriptorPublicKey::MultiXPub(x) => {
            let ps: Vec<String> = x.derivation_paths.paths().iter().map(|p| coq_steps(&path(p))).collect();
            format!("(KMulti {} {} [{}] {})", orig(&x.origin), xid(&x.xkey), ps.join("; "), wild(x.wildcard))
        }
    }
}
/// error kinds of the key-path parser and their names in the model
const PARSE_KINDS: [(&str, &str); 4] = [
    ("InvalidMultiIndexStep", "PInvalidMultiIndexStep"),
    ("MultipleDerivationPathIndexSteps", "PMultipleSteps"),
    ("InvalidWildcardInDerivationPath", "PInvalidWildcard"),
    ("DerivationPathTooLong", "PTooLong"),
];
/// the generator's key text as input of the model's parser: origin, xpub number, xpub depth, tokens
fn coq_parse_input(w: &World, k: &GKey) -> Option<String> {
    let tstep = |c: &ChildNumber| match c {
        ChildNumber::Normal { index } => format!("TStep (St false {})", index),
        ChildNumber::Hardened { index } => format!("TStep (St true {})", index),
    };
    match k {
        GKey::Raw { xk, toks, .. } => Some(format!("None, {}, {}, {}", xk, w.xks[*xk].xpub.depth, toks)),
        GKey::X { xk, origin, pre, alts, post, wild, xprv: false } => {
            let o = coq_origin(origin);
            let mut t: Vec<String> = pre.iter().map(tstep).collect();
            if !alts.is_empty() {
                let inner = coq_steps(alts);
                t.push(format!("TAlts {}", inner));
            }
            t.extend(post.iter().map(tstep));
            match wild {
                0 => {}
                1 => t.push("TWild WUnhardened".into()),
                _ => t.push("TWild WHardened".into()),
            }
            Some(format!("{}, {}, {}, [{}]", o, xk, w.xks[*xk].xpub.depth, t.join("; ")))
        }
        _ => None,
    }
}
fn impl_keys(d: &Descriptor<DescriptorPublicKey>) -> Vec<DescriptorPublicKey> {
    let mut v = Vec::new();
    d.for_each_key(|k| {
        v.push(k.clone());
        true
    });
    v
}
fn coq_pk(out: &mut Out, pk: &PublicKey) -> String {
    let ser = pk.to_bytes();
    let comp = pk.inner.serialize().to_vec();
    out.comp.insert(ser.clone(), comp.clone());
    format!("(Pk \"{}\" \"{}\")", hex(&ser), hex(&comp))
}
fn coq_ms(m: &Ms, keys: &[String], tap: bool) -> String {
    let list = |v: &Vec<usize>| -> String {
        let l: Vec<&str> = v.iter().map(|i| keys[*i].as_str()).collect();
        format!("[{}]", l.join("; "))
    };
    let ctx = if tap { "Schnorr" } else { "Ecdsa" };
    match m {
        Ms::Pk(a) => format!("(MsPk {})", keys[*a]),
        Ms::Pkh(a) => format!("(MsPkh {})", keys[*a]),
        Ms::Multi(k, v) => format!("(MsMulti {} {})", k, list(v)),
        Ms::SortedMulti(k, v) => format!("(MsSortedMulti {} {})", k, list(v)),
        Ms::MultiA(k, v) => format!("(MsMultiA {} {})", k, list(v)),
        Ms::SortedMultiA(k, v) => format!("(MsSortedMultiA {} {})", k, list(v)),
        Ms::AndV(a, b) => format!(
            "(MsOther [{}; {}] (tmpl {} [PKey 0; PB \"ad\"; PKey 1; PB \"ac\"]))",
            keys[*a], keys[*b], ctx
        ),
        Ms::OrD(a, b) => format!(
            "(MsOther [{}; {}] (tmpl {} [PKey 0; PB \"ac736476a9\"; PKeyHash 1; PB \"88ac68\"]))",
            keys[*a], keys[*b], ctx
        ),
        Ms::AndOlder(a, n) => {
            let num = bitcoin::script::Builder::new().push_int(*n as i64).into_script();
            format!("(MsOther [{}] (tmpl {} [PKey 0; PB \"ad{}b2\"]))", keys[*a], ctx, hex(num.as_bytes()))
        }
    }
}
fn coq_desc(shape: &Shape, keys: &[String]) -> String {
    match shape {
        Shape::Bare(m) => format!("(DBare {})", coq_ms(m, keys, false)),
        Shape::Pkh(k) => format!("(DPkh {})", keys[*k]),
        Shape::Wpkh(k) => format!("(DWpkh {})", keys[*k]),
        Shape::Sh(m) => format!("(DSh {})", coq_ms(m, keys, false)),
        Shape::ShWsh(m) => format!("(DShWsh {})", coq_ms(m, keys, false)),
        Shape::ShWpkh(k) => format!("(DShWpkh {})", keys[*k]),
        Shape::Wsh(m) => format!("(DWsh {})", coq_ms(m, keys, false)),
        Shape::Tr(ik, leaves) => {
            let l: Vec<String> = leaves.iter().map(|(d, m)| format!("({}, {})", d, coq_ms(m, keys, true))).collect();
            format!("(DTr [{}] {})", l.join("; "), keys[*ik])
        }
    }
}
fn opt_hex(s: &Option<ScriptBuf>) -> String {
    match s {
        Some(s) => format!("(Some \"{}\")", hex(s.as_bytes())),
        None => "None".to_string(),
    }
}

// ------------------------------------------------------------------------------ the battery
struct Obs {
    spk: ScriptBuf,
    explicit: Option<ScriptBuf>,
    script_sig: ScriptBuf,
    script_code: Option<ScriptBuf>,
    addrs: Vec<Result<Address, String>>,
}
fn observe(dd: &Descriptor<PublicKey>) -> Result<Obs, String> {
    catch_unwind(AssertUnwindSafe(|| Obs {
        spk: dd.script_pubkey(),
        explicit: dd.explicit_script().ok(),
        script_sig: dd.unsigned_script_sig(),
        script_code: dd.script_code().ok(),
        addrs: NETWORKS.iter().map(|n| dd.address(*n).map_err(|e| err_class(&e))).collect(),
    }))
    .map_err(|_| "panic".to_string())
}

/// the uncompressed-key order of sortedmulti as the implementation has it (sort by the
/// compressed form): used only to recognise the known finding precisely
fn impl_like_order_spk(w: &World, shape: &Shape, pks: &[PublicKey]) -> Option<ScriptBuf> {
    let m = match shape {
        Shape::Sh(m @ Ms::SortedMulti(..)) | Shape::Bare(m @ Ms::SortedMulti(..)) => m,
        _ => return None,
    };
    if let Ms::SortedMulti(k, v) = m {
        if !v.iter().any(|i| !pks[*i].compressed) {
            return None;
        }
        let mut order = v.clone();
        order.sort_by_key(|i| pks[*i].inner.serialize());
        let as_multi = Ms::Multi(*k, order);
        let sh = match shape {
            Shape::Sh(_) => Shape::Sh(as_multi),
            _ => Shape::Bare(as_multi),
        };
        return Some(expect_for(w, &sh, pks).spk);
    }
    None
}

#[allow(clippy::too_many_arguments)]
fn script_battery(
    w: &World,
    out: &mut Out,
    case: &Case,
    desc_str: &str,
    index: u32,
    shape: &Shape,
    pks: &[PublicKey],
    dd: &Descriptor<PublicKey>,
    export: bool,
) -> Option<ScriptBuf> {
    let exp: Expect = expect_for(w, shape, pks);
    let obs = match observe(dd) {
        Ok(o) => o,
        Err(e) => {
            out.violation("script-panic", case, desc_str, Some(index), &format!("script functions: {}", e), "");
            return None;
        }
    };
    out.count("definite_descriptors_judged");
    let known_order = impl_like_order_spk(w, shape, pks);
    let bad = |out: &mut Out, field: &str, got: String, want: String| {
        let key = match &known_order {
            Some(k) if *k == obs.spk && exp.spk != obs.spk => "sortedmulti-uncompressed-order".to_string(),
            _ => field.to_string(),
        };
        out.violation(
            &key,
            case,
            desc_str,
            Some(index),
            &format!("{} of the derived descriptor {:#} differs from the standard encoding", field, dd),
            &format!(",\"field\":{},\"implementation\":{},\"oracle\":{}", jstr(field), jstr(&got), jstr(&want)),
        );
    };
    if obs.spk != exp.spk {
        bad(out, "script_pubkey", hex(obs.spk.as_bytes()), hex(exp.spk.as_bytes()));
    }
    if obs.explicit != exp.explicit {
        bad(out, "explicit_script", opt_hex(&obs.explicit), opt_hex(&exp.explicit));
    }
    if obs.script_sig != exp.script_sig {
        bad(out, "unsigned_script_sig", hex(obs.script_sig.as_bytes()), hex(exp.script_sig.as_bytes()));
    }
    if obs.script_code != exp.script_code {
        bad(out, "script_code", opt_hex(&obs.script_code), opt_hex(&exp.script_code));
    }
    for (n, a) in NETWORKS.iter().zip(obs.addrs.iter()) {
        out.count("address_evaluations");
        let want = Address::from_script(&exp.spk, *n).map_err(|_| "NoAddress".to_string());
        let same = match (a, &want) {
            (Ok(x), Ok(y)) => {
                x == y
                    && x.script_pubkey() == exp.spk
                    && Address::from_str(&x.to_string()).ok().and_then(|u| u.require_network(*n).ok()).as_ref()
                        == Some(x)
            }
            (Err(_), Err(_)) => matches!(shape, Shape::Bare(_)),
            _ => false,
        };
        if !same {
            let f = format!("address:{}", n);
            bad(
                out,
                &f,
                a.as_ref().map(|x| x.to_string()).unwrap_or_else(|e| e.clone()),
                want.as_ref().map(|x| x.to_string()).unwrap_or_else(|e| e.clone()),
            );
        }
    }
    if export {
        // byte-level facts for the model check inside Coq
        let keyterms: Vec<String> = pks.iter().map(|pk| coq_pk(out, pk)).collect();
        out.note_instance(shape, pks, &exp, obs.explicit.as_ref());
        out.scases.push(format!(
            "({}, {}, (\"{}\", {}, \"{}\", {}))",
            case.id * 1000 + (out.scases.len() as u64 % 1000),
            coq_desc(shape, &keyterms),
            hex(obs.spk.as_bytes()),
            opt_hex(&obs.explicit),
            hex(obs.script_sig.as_bytes()),
            opt_hex(&obs.script_code)
        ));
    }
    Some(obs.spk)
}

fn permutations(n: usize) -> Vec<Vec<usize>> {
    fn go(cur: &mut Vec<usize>, used: &mut Vec<bool>, n: usize, acc: &mut Vec<Vec<usize>>) {
        if cur.len() == n {
            acc.push(cur.clone());
            return;
        }
        for i in 0..n {
            if !used[i] {
                used[i] = true;
                cur.push(i);
                go(cur, used, n, acc);
                cur.pop();
                used[i] = false;
            }
        }
    }
    let mut acc = Vec::new();
    go(&mut Vec::new(), &mut vec![false; n], n, &mut acc);
    acc
}

fn hexkeys(pks: &[PublicKey]) -> Vec<String> { pks.iter().map(|p| p.to_string()).collect() }

#[allow(deprecated)]
pub fn run_case(w: &World, case: &Case, seed: u64, out: &mut Out) {
    let secp = &w.secp;
    let mut r = Rng::new(seed ^ case.id.wrapping_mul(0xD1B54A32D192ED03) ^ 0x5151);
    let input_keys: Vec<String> = case.keys.iter().map(|k| k.render(w, Mode::Input)).collect();
    let s = case.shape.render(&input_keys);
    out.count("cases");
    out.h("stream", case.stream);
    out.descs.push((case.id, s.clone()));
    let xprv = case.stream == "xprv";
    let parsed = catch_unwind(AssertUnwindSafe(|| {
        if xprv {
            Descriptor::parse_descriptor(secp, &s).map(|(d, _)| d).map_err(|e| (err_class(&e), format!("{:?}", e)))
        } else {
            Descriptor::<DescriptorPublicKey>::from_str(&s).map_err(|e| (err_class(&e), format!("{:?}", e)))
        }
    }));
    let d = match parsed {
        Err(_) => {
            out.violation("parse-panic", case, &s, None, "parsing the descriptor panicked", "");
            return;
        }
        Ok(Err((e, full))) => {
            if case.reject.is_some() {
                // malformed key expression: rejection is the expected outcome; the error KIND is
                // compared with the model's parser inside Coq
                let kind = PARSE_KINDS.iter().find(|(k, _)| full.contains(k));
                out.h("malformed-key-outcome", &format!("rejected:{}", kind.map(|k| k.0).unwrap_or("other")));
                if let (Some(term), Some((_, coq))) = (coq_parse_input(w, &case.keys[0]), kind) {
                    out.parsecases.push(format!("({}, {}, (PErr {}))", case.id, term, coq));
                }
            } else if case.mismatch {
                out.h("mismatch-outcome", &format!("rejected-at-parse:{}", e));
            } else {
                out.violation("parse-reject", case, &s, None, &format!("a valid descriptor is rejected: {}", e), "");
            }
            return;
        }
        Ok(Ok(d)) => d,
    };
    if let Some(kind) = case.reject {
        // accepted although malformed: show what it turns into
        let printed = format!("{:#}", d);
        let reparsed = Descriptor::<DescriptorPublicKey>::from_str(&printed).ok();
        let n_split = d.clone().into_single_descriptors().map(|v| v.len()).unwrap_or(0);
        let n_split2 = reparsed.map(|x| x.into_single_descriptors().map(|v| v.len()).unwrap_or(0)).unwrap_or(0);
        out.h("malformed-key-outcome", "accepted");
        out.violation(
            "malformed-key-accepted",
            case,
            &s,
            None,
            &format!(
                "a malformed key expression (expected {}) is accepted; it prints as {} ; the descriptor splits into {} \
                 single descriptors, its printed form into {}",
                kind, printed, n_split, n_split2
            ),
            &format!(",\"printed\":{}", jstr(&printed)),
        );
        return;
    }
    // model tie for the key parser: the implementation's parsed keys
    if !xprv {
        let ik = impl_keys(&d);
        let order = case.shape.key_order();
        for (pos, kidx) in order.iter().enumerate() {
            let g = &case.keys[*kidx];
            let multi = g.n_alts() > 0;
            if !(multi || case.id % 3 == 0 || case.id < super::gen::N_CORPUS) {
                continue;
            }
            if let (Some(term), Some(k)) = (coq_parse_input(w, g), ik.get(pos)) {
                out.parsecases.push(format!("({}, {}, (POk {}))", case.id, term, coq_implkey(w, k)));
            }
        }
    }
    let n_alts = case.keys.iter().map(|k| k.n_alts()).max().unwrap_or(0);
    let forms: BTreeSet<&str> = case.keys.iter().map(|k| k.form_name()).collect();
    for f in &forms {
        out.h("key_form", f);
        out.h("type_x_keyform", &format!("{} x {}", case.shape.kind(), f));
    }
    out.h("output_type", case.shape.kind());
    out.h("inner", &format!("{}({})", case.shape.kind(), case.shape.inner_name()));
    out.h("multipath_alternatives", &n_alts.to_string());

    // ---------------- multipath split
    let gen_desc_term = |keys: &[GKey]| -> String {
        let kt: Vec<String> = keys.iter().map(|k| coq_gkey(w, k)).collect();
        coq_desc(&case.shape, &kt)
    };
    let split = catch_unwind(AssertUnwindSafe(|| d.clone().into_single_descriptors().map_err(|e| err_class(&e))));
    let singles: Vec<(Descriptor<DescriptorPublicKey>, Vec<GKey>)> = match split {
        Err(_) => {
            out.violation("split-panic", case, &s, None, "into_single_descriptors panicked", "");
            return;
        }
        Ok(res) => {
            if !xprv {
                // model tie: the implementation's result as key lists
                let impl_term = match &res {
                    Ok(v) => {
                        let l: Vec<String> = v
                            .iter()
                            .map(|x| {
                                let ks: Vec<String> = impl_keys(x).iter().map(|k| coq_implkey(w, k)).collect();
                                format!("[{}]", ks.join("; "))
                            })
                            .collect();
                        format!("(KOk [{}])", l.join("; "))
                    }
                    Err(e) => format!("(KErr {})", if e == "MultipathDescLenMismatch" { "ELenMismatch" } else { "EMultipath" }),
                };
                out.splitcases.push(format!("({}, {}, {})", case.id, gen_desc_term(&case.keys), impl_term));
            }
            match res {
                Err(e) => {
                    if case.mismatch {
                        out.h("mismatch-outcome", &format!("rejected-at-split:{}", e));
                    } else {
                        out.violation("multipath-split", case, &s, None, &format!("into_single_descriptors fails: {}", e), "");
                    }
                    return;
                }
                Ok(v) => {
                    if case.mismatch {
                        out.h("mismatch-outcome", "accepted");
                        let lens: Vec<String> = case.keys.iter().map(|k| k.n_alts().to_string()).collect();
                        out.violation(
                            "multipath-len-mismatch-accepted",
                            case,
                            &s,
                            None,
                            &format!(
                                "multipath tuples of different lengths ({}) are accepted and into_single_descriptors \
                                 silently returns {} descriptors, dropping alternatives",
                                lens.join(","),
                                v.len()
                            ),
                            "",
                        );
                        return;
                    }
                    let want_n = if n_alts == 0 { 1 } else { n_alts };
                    if xprv {
                        vec![(d.clone(), case.keys.clone())]
                    } else if v.len() != want_n {
                        out.violation(
                            "multipath-split",
                            case,
                            &s,
                            None,
                            &format!("into_single_descriptors returns {} descriptors for {} alternatives", v.len(), want_n),
                            "",
                        );
                        return;
                    } else {
                        let mut acc = Vec::new();
                        for (j, got) in v.into_iter().enumerate() {
                            let sel: Vec<GKey> = case.keys.iter().map(|k| k.select(j)).collect();
                            let sel_s = case.shape.render(&sel.iter().map(|k| k.render(w, Mode::Input)).collect::<Vec<_>>());
                            out.count("split_alternatives_compared");
                            match Descriptor::<DescriptorPublicKey>::from_str(&sel_s) {
                                Ok(want) if want == got && format!("{:#}", want) == format!("{:#}", got) => {}
                                _ => {
                                    out.violation(
                                        "multipath-split",
                                        case,
                                        &s,
                                        None,
                                        &format!("alternative {} of the split is {:#}, textual selection gives {}", j, got, sel_s),
                                        &format!(",\"alternative\":{}", j),
                                    );
                                }
                            }
                            acc.push((got, sel));
                        }
                        acc
                    }
                }
            }
        }
    };

    // ---------------- a multipath descriptor itself is not derivable
    if n_alts > 0 && !xprv {
        let at = catch_unwind(AssertUnwindSafe(|| d.at_derivation_index(7).map(|_| ()).map_err(|e| err_class(&e))));
        out.count("derivations");
        match at {
            Ok(Err(e)) => {
                out.h("derivation_error_class", &e);
                let cls = match e.as_str() {
                    "Wildcard" => "EWildcard",
                    "Multipath" => "EMultipath",
                    "HardenedStep" => "EHardenedStep",
                    _ => "ENoWildcard",
                };
                out.kcases.push(format!("({}, 7, {}, (KErr {}), None)", case.id, gen_desc_term(&case.keys), cls));
            }
            Ok(Ok(())) => out.violation(
                "derive-accepted-underivable",
                case,
                &s,
                Some(7),
                "at_derivation_index succeeds on a descriptor that still has multipath keys",
                "",
            ),
            Err(_) => out.violation("derive-panic", case, &s, Some(7), "derivation panicked", ""),
        }
    }

    // ---------------- derivation at indices, scripts of every derived descriptor
    let has_wild = case.keys.iter().any(|k| k.has_wildcard());
    let mut first_definite: Option<(Vec<PublicKey>, u32)> = None;
    let mut new_history: Vec<(u64, String, u32, ScriptBuf)> = Vec::new();
    for (j, (dj, keys_j)) in singles.iter().enumerate() {
        let sj = format!("{:#}", dj);
        let mut indices: Vec<u32> = if has_wild {
            vec![0, 1, 0x7fff_ffff, r.below(1 << 31) as u32]
        } else {
            vec![0, r.below(1 << 31) as u32]
        };
        if case.id % 4 == 0 {
            indices.push(0x8000_0000 + r.below(5) as u32);
        }
        for (ii, &i) in indices.iter().enumerate() {
            out.count("derivations");
            out.h(
                "index",
                match i {
                    0 => "0",
                    1 => "1",
                    0x7fff_ffff => "2^31-1",
                    x if x >= 0x8000_0000 => ">=2^31 (invalid)",
                    _ => "random",
                },
            );
            let oracle: Option<Vec<PublicKey>> = keys_j.iter().map(|k| k.oracle_pk(w, i)).collect();
            let got = catch_unwind(AssertUnwindSafe(|| dj.derived_descriptor(secp, i).map_err(|e| err_class(&e))));
            let at = catch_unwind(AssertUnwindSafe(|| dj.at_derivation_index(i).map_err(|e| err_class(&e))));
            let (got, at) = match (got, at) {
                (Ok(g), Ok(a)) => (g, a),
                _ => {
                    let deep = keys_j.iter().any(|k| k.total_depth(w) > 255);
                    let key = if deep { "derive-depth-overflow-panic" } else { "derive-panic" };
                    out.violation(
                        key,
                        case,
                        &sj,
                        Some(i),
                        if deep {
                            "derivation panics: the key expression needs BIP32 depth 256 but was accepted by the parser"
                        } else {
                            "derivation panicked"
                        },
                        "",
                    );
                    continue;
                }
            };
            // model tie for at_derivation_index (keys + error class)
            if !xprv && ((j == 0 && ii != 1) || (j == 1 && ii == 0)) {
                let impl_term = match &at {
                    Ok(a) => {
                        let mut v = Vec::new();
                        a.for_each_key(|k| {
                            v.push(coq_implkey(w, k.as_descriptor_public_key()));
                            true
                        });
                        format!("(KOk [{}])", v.join("; "))
                    }
                    Err(e) => format!(
                        "(KErr {})",
                        match e.as_str() {
                            "Wildcard" => "EWildcard",
                            "Multipath" => "EMultipath",
                            "HardenedStep" => "EHardenedStep",
                            _ => "ENoWildcard",
                        }
                    ),
                };
                let spk_term = match &got {
                    Ok(dd) => format!("(Some \"{}\")", hex(dd.script_pubkey().as_bytes())),
                    Err(_) => "None".to_string(),
                };
                out.kcases.push(format!(
                    "({}, {}, {}, {}, {})",
                    case.id,
                    i,
                    gen_desc_term(keys_j),
                    impl_term,
                    spk_term
                ));
                // independent BIP32 derivations for the model's abstract ckd
                for k in keys_j {
                    if let (GKey::X { xk, wild, .. }, Some(pk)) = (k, k.oracle_pk(w, i)) {
                        let mut p = k.paths().remove(0);
                        if *wild == 1 {
                            p.push(ChildNumber::from_normal_idx(i).unwrap());
                        }
                        out.ckd.insert(format!("({}, {}, \"{}\")", xk, coq_steps(&p), hex(&pk.to_bytes())));
                    }
                }
                if let Some(pks) = &oracle {
                    let e = expect_for(w, &case.shape, pks);
                    let impl_expl = got.as_ref().ok().and_then(|dd| dd.explicit_script().ok());
                    out.note_instance(&case.shape, pks, &e, impl_expl.as_ref());
                }
            }
            match (&oracle, &got) {
                (Some(pks), Ok(dd)) => {
                    let want_s = case.shape.render(&hexkeys(pks));
                    match Descriptor::<PublicKey>::from_str(&want_s) {
                        Ok(want) if &want == dd => {}
                        _ => out.violation(
                            "derive-mismatch",
                            case,
                            &sj,
                            Some(i),
                            &format!(
                                "derived_descriptor gives {:#}; independent BIP32 derivation and textual substitution give {}",
                                dd, want_s
                            ),
                            "",
                        ),
                    }
                    let export = (ii < 1 && j < 2) || (ii == 1 && j == 0 && case.id % 2 == 0);
                    script_battery(w, out, case, &sj, i, &case.shape, pks, dd, export);
                    if first_definite.is_none() {
                        first_definite = Some((pks.clone(), i));
                    }
                    if case.stream == "shared-origin" && ii == 1 {
                        new_history.push((case.id, sj.clone(), i, expect_for(w, &case.shape, pks).spk));
                    }
                    if !xprv {
                        match &at {
                            Ok(a) => {
                                let at_s =
                                    case.shape.render(&keys_j.iter().map(|k| k.render(w, Mode::AtIndex(i))).collect::<Vec<_>>());
                                let ok = Descriptor::<DescriptorPublicKey>::from_str(&at_s)
                                    .map(|x| format!("{:#}", x) == format!("{:#}", a))
                                    .unwrap_or(false);
                                // the definite descriptor computes its scripts through
                                // `DefiniteDescriptorKey: ToPublicKey`; they must be those of the derived
                                // descriptor (judged against the oracle above).  Seeded change C16-9.
                                let def_obs = catch_unwind(AssertUnwindSafe(|| {
                                    (
                                        a.script_pubkey(),
                                        a.explicit_script().ok(),
                                        a.script_code().ok(),
                                        a.unsigned_script_sig(),
                                        a.address(bitcoin::Network::Bitcoin).ok().map(|x| x.to_string()),
                                    )
                                }));
                                let der_obs = catch_unwind(AssertUnwindSafe(|| {
                                    (
                                        dd.script_pubkey(),
                                        dd.explicit_script().ok(),
                                        dd.script_code().ok(),
                                        dd.unsigned_script_sig(),
                                        dd.address(bitcoin::Network::Bitcoin).ok().map(|x| x.to_string()),
                                    )
                                }));
                                match (def_obs, der_obs) {
                                    (Ok(x), Ok(y)) if x == y => {}
                                    (Ok(x), Ok(y)) => out.violation(
                                        "definite-script-differs",
                                        case,
                                        &sj,
                                        Some(i),
                                        &format!(
                                            "the definite descriptor {:#} has script_pubkey {} / explicit script {:?}; its derived descriptor {:#} has {} / {:?}",
                                            a,
                                            hex(x.0.as_bytes()),
                                            x.1.as_ref().map(|s| hex(s.as_bytes())),
                                            dd,
                                            hex(y.0.as_bytes()),
                                            y.1.as_ref().map(|s| hex(s.as_bytes()))
                                        ),
                                        "",
                                    ),
                                    _ => out.violation("script-panic", case, &sj, Some(i), "script functions of the definite descriptor panic", ""),
                                }
                                if !ok {
                                    out.violation(
                                        "at-index-text",
                                        case,
                                        &sj,
                                        Some(i),
                                        &format!("at_derivation_index gives {:#}; replacing each wildcard by the index gives {}", a, at_s),
                                        "",
                                    );
                                }
                            }
                            Err(e) => out.violation("derive-rejected", case, &sj, Some(i), &format!("at_derivation_index fails: {}", e), ""),
                        }
                    }
                }
                (Some(_), Err(e)) => out.violation(
                    "derive-rejected",
                    case,
                    &sj,
                    Some(i),
                    &format!("derivation fails ({}) although every key is derivable from public data", e),
                    "",
                ),
                (None, Ok(dd)) => out.violation(
                    "derive-accepted-underivable",
                    case,
                    &sj,
                    Some(i),
                    &format!("derivation succeeds ({:#}) although a key is not derivable at this index", dd),
                    "",
                ),
                (None, Err(e)) => out.h("derivation_error_class", e),
            }
            // derive_at_index / into_definite agree with the same classification
            let dai = catch_unwind(AssertUnwindSafe(|| match dj.derive_at_index(i) {
                miniscript::descriptor::DerivationResult::Ok(_) => "ok",
                miniscript::descriptor::DerivationResult::WithoutWildcard(_) => "without-wildcard",
                miniscript::descriptor::DerivationResult::Error(_) => "error",
            }))
            .unwrap_or("panic");
            let impl_wild = dj.has_wildcard();
            let want_dai = if !impl_wild {
                "without-wildcard"
            } else if oracle.is_some() {
                "ok"
            } else {
                "error"
            };
            let idef = catch_unwind(AssertUnwindSafe(|| dj.into_definite().is_ok())).unwrap_or(false);
            if dai != want_dai || idef != (!impl_wild && oracle.is_some()) || (!xprv && impl_wild != has_wild) {
                out.violation(
                    "derive-entry-points",
                    case,
                    &sj,
                    Some(i),
                    &format!(
                        "derive_at_index is {} (expected {}), into_definite ok={} has_wildcard={}",
                        dai, want_dai, idef, impl_wild
                    ),
                    "",
                );
            }
        }
        // ---------------- find_derivation_index_for_spk is the inverse of derivation
        let t = r.below(6) as u32;
        if let Some(pks) = keys_j.iter().map(|k| k.oracle_pk(w, t)).collect::<Option<Vec<PublicKey>>>() {
            let target = expect_for(w, &case.shape, &pks).spk;
            let known = impl_like_order_spk(w, &case.shape, &pks).is_some();
            let found = catch_unwind(AssertUnwindSafe(|| {
                dj.find_derivation_index_for_spk(secp, &target, 0..8)
                    .map(|o| o.map(|(i, dd)| (i, dd.script_pubkey())))
                    .map_err(|e| err_class(&e))
            }));
            out.count("find_index_queries");
            let want_i = if has_wild || xprv { t } else { 0 };
            let ok = matches!(&found, Ok(Ok(Some((i, spk)))) if *i == want_i && *spk == target);
            if !ok && !known {
                out.violation(
                    "find-index",
                    case,
                    &sj,
                    Some(t),
                    &format!(
                        "find_derivation_index_for_spk over 0..8 for the script of index {} returns {:?}",
                        t,
                        found.as_ref().map(|x| x.as_ref().map(|o| o.as_ref().map(|(i, _)| *i)))
                    ),
                    "",
                );
            }
            if has_wild && t > 0 && !xprv {
                let below = catch_unwind(AssertUnwindSafe(|| {
                    dj.find_derivation_index_for_spk(secp, &target, 0..t).map(|o| o.is_none()).unwrap_or(false)
                }))
                .unwrap_or(false);
                if !below && !known {
                    out.violation("find-index", case, &sj, Some(t), "a range that excludes the index still reports a match", "");
                }
            }
            if !xprv && j == 0 && case.id % 3 == 0 {
                let res = match &found {
                    Ok(Ok(Some((i, _)))) => format!("(Some {})", i),
                    _ => "None".to_string(),
                };
                out.findcases.push(format!(
                    "({}, {}, \"{}\", 0, 8, {})",
                    case.id,
                    gen_desc_term(keys_j),
                    hex(target.as_bytes()),
                    res
                ));
                for i in 0..8u32 {
                    for k in keys_j {
                        if let (GKey::X { xk, wild, .. }, Some(pk)) = (k, k.oracle_pk(w, i)) {
                            let mut p = k.paths().remove(0);
                            if *wild == 1 {
                                p.push(ChildNumber::from_normal_idx(i).unwrap());
                            }
                            out.ckd.insert(format!("({}, {}, \"{}\")", xk, coq_steps(&p), hex(&pk.to_bytes())));
                        }
                    }
                    // hashes the model will need for the scripts at every index of the range
                    if let Some(pks) = keys_j.iter().map(|k| k.oracle_pk(w, i)).collect::<Option<Vec<PublicKey>>>() {
                        let e = expect_for(w, &case.shape, &pks);
                        out.note_instance(&case.shape, &pks, &e, None);
                    }
                }
            }
        }
        // ---------------- ... also on ranges that do not start at 0: the reported index is the
        // derivation index (not the offset in the range), lies in the range, derives the returned
        // descriptor, and is the one an independent scan with bitcoin::bip32 finds
        if !xprv {
            const STARTS: [u32; 4] = [1, 3, 50, 0x7fff_fffb];
            let n_q = if j == 0 { 3 } else { 1 };
            for q in 0..n_q {
                let start = STARTS[(case.id as usize + q + j) % 4];
                let len = [1u32, 4, 9][r.below(3) as usize];
                let end = start + len;
                // target at the start / at the last index / inside / just below / just above the range
                let pos = r.below(5);
                let t = match pos {
                    0 => start,
                    1 => end - 1,
                    2 => start + r.below(len as u64) as u32,
                    3 => start - 1,
                    _ => end,
                };
                let spk_at = |i: u32| -> Option<ScriptBuf> {
                    keys_j
                        .iter()
                        .map(|k| k.oracle_pk(w, i))
                        .collect::<Option<Vec<PublicKey>>>()
                        .map(|pks| expect_for(w, &case.shape, &pks).spk)
                };
                if keys_j.iter().map(|k| k.oracle_pk(w, 0)).collect::<Option<Vec<PublicKey>>>()
                    .map(|pks| impl_like_order_spk(w, &case.shape, &pks).is_some())
                    .unwrap_or(false)
                {
                    break; // sortedmulti with uncompressed keys: the known finding, judged elsewhere
                }
                // a script nobody derives when the chosen index is not derivable
                let target = spk_at(t).unwrap_or_else(|| ScriptBuf::from_bytes(vec![0x6a, 0x01, 0x16]));
                // ORACLE: scan the range with independent derivation
                let expected: Result<Option<u32>, ()> = if !has_wild {
                    match spk_at(0) {
                        None => Err(()),
                        Some(s0) => Ok(if s0 == target { Some(0) } else { None }),
                    }
                } else {
                    let mut e = Ok(None);
                    for i in start..end {
                        match spk_at(i) {
                            None => {
                                e = Err(());
                                break;
                            }
                            Some(si) if si == target => {
                                e = Ok(Some(i));
                                break;
                            }
                            _ => {}
                        }
                    }
                    e
                };
                let found = catch_unwind(AssertUnwindSafe(|| {
                    dj.find_derivation_index_for_spk(secp, &target, start..end).map_err(|e| err_class(&e))
                }));
                out.count("find_index_range_queries");
                out.h("find_range", &format!("start={} len={} target={}", start, len, ["first", "last", "inside", "below", "above"][pos as usize]));
                let (ok, got_s) = match &found {
                    Err(_) => (false, "panic".to_string()),
                    Ok(Err(e)) => (expected.is_err(), format!("Err({})", e)),
                    Ok(Ok(None)) => (expected == Ok(None), "None".to_string()),
                    Ok(Ok(Some((i, dd)))) => {
                        let in_range = !has_wild || (start <= *i && *i < end);
                        let same_desc = catch_unwind(AssertUnwindSafe(|| dj.derived_descriptor(secp, *i).ok().as_ref() == Some(dd)))
                            .unwrap_or(false);
                        (
                            in_range && same_desc && dd.script_pubkey() == target && expected == Ok(Some(*i)),
                            format!("Some(index {}, {:#})", i, dd),
                        )
                    }
                };
                if !ok {
                    out.violation(
                        "find-index-range",
                        case,
                        &sj,
                        Some(t),
                        &format!(
                            "find_derivation_index_for_spk over {}..{} for the script of index {} returns {}; an independent scan \
                             of the range gives {:?} (the reported index must lie in the range, derive the returned descriptor \
                             and the searched script)",
                            start, end, t, got_s, expected
                        ),
                        &format!(",\"range\":[{},{}],\"reported\":{}", start, end, jstr(&got_s)),
                    );
                }
                // model tie on the same range
                if j == 0 && q == 0 && case.id % 3 == 0 {
                    let res = match &found {
                        Ok(Ok(Some((i, _)))) => format!("(Some {})", i),
                        _ => "None".to_string(),
                    };
                    out.findcases.push(format!(
                        "({}, {}, \"{}\", {}, {}, {})",
                        case.id,
                        gen_desc_term(keys_j),
                        hex(target.as_bytes()),
                        start,
                        len,
                        res
                    ));
                    let idxs: Vec<u32> = if has_wild { (start..end).collect() } else { vec![0] };
                    for i in idxs {
                        for k in keys_j {
                            if let (GKey::X { xk, wild, .. }, Some(pk)) = (k, k.oracle_pk(w, i)) {
                                let mut p = k.paths().remove(0);
                                if *wild == 1 {
                                    p.push(ChildNumber::from_normal_idx(i).unwrap());
                                }
                                out.ckd.insert(format!("({}, {}, \"{}\")", xk, coq_steps(&p), hex(&pk.to_bytes())));
                            }
                        }
                        if let Some(pks) = keys_j.iter().map(|k| k.oracle_pk(w, i)).collect::<Option<Vec<PublicKey>>>() {
                            let e = expect_for(w, &case.shape, &pks);
                            out.note_instance(&case.shape, &pks, &e, None);
                        }
                    }
                }
            }
        }
    }

    // ---------------- sorted multisig: every listing order gives the same output
    if let (Some(n), Some((pks, i))) = (case.shape.sorted_len(), first_definite.as_ref()) {
        if n <= 5 {
            let base = expect_for(w, &case.shape, pks);
            let base_s = case.shape.render(&hexkeys(pks));
            let uncompressed = pks.iter().any(|p| !p.compressed);
            for perm in permutations(n) {
                out.count("sortedmulti_orderings");
                let sp = case.shape.with_permuted_sorted(&perm);
                let ps = sp.render(&hexkeys(pks));
                let got = catch_unwind(AssertUnwindSafe(|| {
                    Descriptor::<PublicKey>::from_str(&ps).ok().map(|x| (x.script_pubkey(), x.explicit_script().ok()))
                }));
                let ok = matches!(&got, Ok(Some((spk, ex))) if *spk == base.spk && *ex == base.explicit);
                if !ok {
                    let key = if uncompressed { "sortedmulti-uncompressed-order" } else { "sortedmulti-order" };
                    out.violation(
                        key,
                        case,
                        &ps,
                        Some(*i),
                        &format!(
                            "listing the keys in the order {:?} changes the output: {} vs the BIP67 script of {}",
                            perm,
                            got.as_ref()
                                .ok()
                                .and_then(|o| o.as_ref().map(|(s, _)| hex(s.as_bytes())))
                                .unwrap_or_else(|| "rejected".into()),
                            base_s
                        ),
                        &format!(",\"oracle_spk\":{}", jstr(&hex(base.spk.as_bytes()))),
                    );
                    break;
                }
            }
        }
    }
    // ---------------- history independence: what was derived before this descriptor derives to
    // the same scripts after it (and vice versa: this descriptor was judged above after them)
    if case.stream == "shared-origin" {
        let old: Vec<(u64, String, u32, ScriptBuf)> = out.history.clone();
        for (hid, hdesc, hidx, hspk) in old.iter().filter(|h| h.0 != case.id) {
            out.count("history_rederivations");
            let again = catch_unwind(AssertUnwindSafe(|| {
                Descriptor::<DescriptorPublicKey>::from_str(hdesc)
                    .ok()
                    .and_then(|x| x.derived_descriptor(secp, *hidx).ok())
                    .map(|x| x.script_pubkey())
            }));
            if !matches!(&again, Ok(Some(spk)) if spk == hspk) {
                out.violation(
                    "history-dependence",
                    case,
                    hdesc,
                    Some(*hidx),
                    &format!(
                        "after deriving {} the descriptor of case {} derives at index {} to {} instead of the script {} \
                         of independent BIP32 derivation (it did before)",
                        s,
                        hid,
                        hidx,
                        again.as_ref().ok().and_then(|o| o.as_ref().map(|x| hex(x.as_bytes()))).unwrap_or_else(|| "an error".into()),
                        hex(hspk.as_bytes())
                    ),
                    &format!(",\"derived_before\":{}", jstr(&s)),
                );
            }
        }
        out.history.extend(new_history);
        let n = out.history.len();
        if n > 8 {
            out.history.drain(0..n - 8);
        }
    }
    if out.samples.len() < 40 && case.id % 7 == 3 {
        out.samples.push(format!(
            "{{\"case_id\":{},\"stream\":{},\"descriptor\":{},\"singles\":{}}}",
            case.id,
            jstr(case.stream),
            jstr(&s),
            singles.len()
        ));
    }
}
