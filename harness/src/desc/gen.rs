//! Seeded generation of descriptor cases: all output types x key forms, plus a fixed corpus
//! of corner cases, a stream with mismatching multipath tuple lengths and an xprv stream.
use bitcoin::bip32::ChildNumber;
use bitcoin::PublicKey;

use super::shape::{Ms, Shape};
use super::{cn, GKey, Rng, World, NSK, NXK};

pub struct Case {
    pub id: u64,
    pub stream: &'static str,
    pub keys: Vec<GKey>,
    pub shape: Shape,
    /// multipath tuples of different lengths: must be rejected (at parse or at split)
    pub mismatch: bool,
    /// a malformed key expression: must be rejected at parse (expected error kind)
    pub reject: Option<&'static str>,
}

pub const N_CORPUS: u64 = 16;

fn xkey(xk: usize, pre: Vec<ChildNumber>, alts: Vec<ChildNumber>, post: Vec<ChildNumber>, wild: u8) -> GKey {
    GKey::X { xk, origin: None, pre, alts, post, wild, xprv: false }
}
fn single(sk: usize, form: u8) -> GKey { GKey::Single { sk, form, origin: None } }

/// Fixed corner cases (ids 0..N_CORPUS), independent of the seed's random stream.
fn corpus(w: &World, id: u64) -> Case {
    let n = |i| cn(false, i);
    match id {
        // the same point listed compressed and uncompressed in a sorted multisig
        0 => Case {
            id,
            stream: "corpus",
            keys: vec![single(0, 0), single(0, 1)],
            shape: Shape::Sh(Ms::SortedMulti(1, vec![0, 1])),
            mismatch: false,
            reject: None,
        },
        // an uncompressed key whose compressed form sorts before a compressed key
        1 => {
            let comp = |i: usize| PublicKey::new(w.sks[i].public_key(&w.secp)).to_bytes();
            let mut pick = (0, 1);
            'o: for a in 0..NSK {
                for b in 0..NSK {
                    if a != b && comp(a) < comp(b) {
                        pick = (a, b);
                        break 'o;
                    }
                }
            }
            Case {
                id,
                stream: "corpus",
                keys: vec![single(pick.0, 1), single(pick.1, 0)],
                shape: Shape::Sh(Ms::SortedMulti(2, vec![0, 1])),
                mismatch: false,
            reject: None,
            }
        }
        // tuple lengths differ between the internal key (3) and a leaf key (2)
        2 => Case {
            id,
            stream: "corpus",
            keys: vec![
                xkey(0, vec![], vec![n(0), n(1), n(2)], vec![], 1),
                xkey(1, vec![], vec![n(2), n(3)], vec![], 1),
            ],
            shape: Shape::Tr(0, vec![(0, Ms::Pk(1))]),
            mismatch: true,
            reject: None,
        },
        3 => Case {
            id,
            stream: "corpus",
            keys: vec![
                xkey(0, vec![], vec![n(0), n(1)], vec![], 1),
                xkey(1, vec![], vec![n(2), n(3), n(4)], vec![], 1),
            ],
            shape: Shape::Tr(0, vec![(0, Ms::Pk(1))]),
            mismatch: true,
            reject: None,
        },
        // a tuple whose first two alternatives coincide
        4 => Case {
            id,
            stream: "corpus",
            keys: vec![xkey(2, vec![n(5)], vec![n(0), n(0), n(1)], vec![], 1)],
            shape: Shape::Wpkh(0),
            mismatch: false,
            reject: None,
        },
        5 => Case {
            id,
            stream: "corpus",
            keys: vec![
                xkey(0, vec![], vec![n(0), n(1)], vec![], 1),
                xkey(1, vec![], vec![n(2), n(3), n(4)], vec![], 1),
            ],
            shape: Shape::Wsh(Ms::Multi(2, vec![0, 1])),
            mismatch: true,
            reject: None,
        },
        // two leaves with different tuple lengths, single internal key
        6 => Case {
            id,
            stream: "corpus",
            keys: vec![
                single(3, 2),
                xkey(3, vec![], vec![n(0), n(1)], vec![n(9)], 1),
                xkey(4, vec![n(1)], vec![n(2), n(3), n(4)], vec![], 0),
            ],
            shape: Shape::Tr(0, vec![(1, Ms::Pk(1)), (1, Ms::Pk(2))]),
            mismatch: true,
            reject: None,
        },
        // a repeated index in other positions of the tuple
        8 | 9 | 10 => {
            let alts = match id {
                8 => vec![n(0), n(0)],
                9 => vec![n(0), n(1), n(0)],
                _ => vec![n(0), n(1), n(1)],
            };
            Case {
                id,
                stream: "corpus",
                keys: vec![xkey(1, vec![n(3)], alts, vec![], 1)],
                shape: if id == 9 { Shape::Pkh(0) } else { Shape::Wpkh(0) },
                mismatch: false,
                reject: None,
            }
        }
        // two tuples
        11 => Case {
            id,
            stream: "corpus",
            keys: vec![GKey::Raw {
                xk: 0,
                text: "/<0;1>/<2;3>/*",
                toks: "[TAlts [St false 0; St false 1]; TAlts [St false 2; St false 3]; TWild WUnhardened]",
            }],
            shape: Shape::Wpkh(0),
            mismatch: false,
            reject: None,
        },
        // a step after the wildcard
        12 => Case {
            id,
            stream: "corpus",
            keys: vec![GKey::Raw { xk: 0, text: "/7/*/1", toks: "[TStep (St false 7); TWild WUnhardened; TStep (St false 1)]" }],
            shape: Shape::Wpkh(0),
            mismatch: false,
            reject: None,
        },
        // BIP32 depth: 255 steps and a wildcard below a depth-0 xpub is one too many, 254 is not
        13 | 14 => Case {
            id,
            stream: "corpus",
            keys: vec![xkey(0, (0..(if id == 13 { 255 } else { 254 })).map(|i| n(i % 3)).collect(), vec![], vec![], 1)],
            shape: Shape::Wpkh(0),
            mismatch: false,
            reject: None,
        },
        // an xpub that is already at depth 255, with nothing but a wildcard after it
        15 => Case {
            id,
            stream: "corpus",
            keys: vec![xkey(NXK, vec![], vec![], vec![], 1)],
            shape: Shape::Wpkh(0),
            mismatch: false,
            reject: None,
        },
        // sortedmulti_a over x-only keys and a full key
        _ => Case {
            id,
            stream: "corpus",
            keys: vec![single(5, 2), single(6, 2), single(7, 0), single(8, 2)],
            shape: Shape::Tr(0, vec![(0, Ms::SortedMultiA(2, vec![1, 2, 3]))]),
            mismatch: false,
            reject: None,
        },
    }
}

fn rand_path(r: &mut Rng, maxlen: u64, hardened: bool) -> Vec<ChildNumber> {
    let len = r.below(maxlen + 1);
    (0..len)
        .map(|_| {
            let i = match r.below(4) {
                0 => r.below(3) as u32,
                1 => 0x7fff_ffff,
                _ => r.below(1 << 20) as u32,
            };
            cn(hardened && r.chance(1, 2), i)
        })
        .collect()
}

struct KeyPlan {
    class: u64,
    n_alts: usize,
    tap: bool,
    uncompressed_ok: bool,
    xprv: bool,
}

fn gen_key(w: &World, r: &mut Rng, j: usize, plan: &KeyPlan, used_sk: &mut Vec<usize>, have: &[GKey]) -> GKey {
    let mut sk = r.below(NSK as u64) as usize;
    while used_sk.contains(&sk) {
        sk = (sk + 1) % NSK;
    }
    let single_form = |r: &mut Rng| -> u8 {
        if plan.tap && r.chance(1, 2) {
            2
        } else if plan.uncompressed_ok && r.chance(1, 3) {
            1
        } else {
            0
        }
    };
    let as_single = match plan.class {
        0 => true,
        3 => r.chance(1, 2),
        4 => r.chance(1, 4),
        _ => false,
    };
    if as_single && !plan.xprv {
        used_sk.push(sk);
        let form = single_form(r);
        let origin = if form != 1 && r.chance(1, 4) {
            Some((r.below(NXK as u64) as usize, rand_path(r, 3, true)))
        } else {
            None
        };
        return GKey::Single { sk, form, origin };
    }
    let xk = r.below(NXK as u64) as usize;
    let (hard_steps, wild) = match plan.class {
        1 => (false, 0),
        2 | 3 => (false, 1),
        4 => (false, if r.chance(2, 3) { 1 } else { 0 }),
        _ => {
            // hardened material after the xpub: a hardened step, a hardened wildcard, or both
            match r.below(3) {
                0 => (true, r.below(2) as u8),
                1 => (false, 2),
                _ => (true, 2),
            }
        }
    };
    let mut pre = rand_path(r, 2, false);
    let mut post = if plan.n_alts > 0 { rand_path(r, 1, false) } else { vec![] };
    if hard_steps {
        pre.insert(r.below(pre.len() as u64 + 1) as usize, cn(true, r.below(50) as u32));
    }
    if plan.xprv {
        // hardened prefix that the secret key can apply, sometimes a late hardened step
        let mut p = vec![cn(true, r.below(100) as u32)];
        if r.chance(1, 2) {
            p.push(cn(true, r.below(3) as u32));
        }
        p.extend(pre.iter().cloned());
        if r.chance(1, 8) {
            p.push(cn(true, 7));
        }
        pre = p;
        post = vec![];
    }
    let mut alts: Vec<ChildNumber> = Vec::new();
    if plan.n_alts > 0 {
        let base = r.below(1000) as u32;
        for a in 0..plan.n_alts {
            // distinct alternatives; occasionally a hardened one
            alts.push(cn(plan.class == 5 && a == 0, base + 2 * a as u32 + r.below(2) as u32));
        }
    }
    let mut k = GKey::X {
        xk,
        origin: if r.chance(1, 3) && !w.xks[xk].opath.is_empty() {
            Some((w.xks[xk].master_fp, w.xks[xk].opath.clone()))
        } else {
            None
        },
        pre,
        alts,
        post,
        wild: if plan.xprv && wild == 0 { 1 } else { wild },
        xprv: plan.xprv,
    };
    // keep the keys of one descriptor pairwise different
    let same = |a: &GKey, b: &GKey| match (a, b) {
        (GKey::X { xk: x1, .. }, GKey::X { xk: x2, .. }) => x1 == x2 && a.paths() == b.paths(),
        _ => false,
    };
    if have.iter().any(|h| same(h, &k)) {
        if let GKey::X { pre, .. } = &mut k {
            pre.push(cn(false, 1000 + j as u32));
        }
    }
    k
}

fn gen_ms(r: &mut Rng, kind: u64, nk: &mut usize) -> Ms {
    let mut take = |n: usize| -> Vec<usize> {
        let v: Vec<usize> = (*nk..*nk + n).collect();
        *nk += n;
        v
    };
    match kind {
        // bare: pk, multi / sortedmulti with at most 3 keys
        0 => match r.below(3) {
            0 => Ms::Pk(take(1)[0]),
            1 => {
                let n = 1 + r.below(3) as usize;
                Ms::Multi(1 + r.below(n as u64) as usize, take(n))
            }
            _ => {
                let n = 1 + r.below(3) as usize;
                Ms::SortedMulti(1 + r.below(n as u64) as usize, take(n))
            }
        },
        // tap leaves
        7 => match r.below(6) {
            0 => Ms::Pk(take(1)[0]),
            1 => {
                let n = 1 + r.below(3) as usize;
                Ms::MultiA(1 + r.below(n as u64) as usize, take(n))
            }
            2 | 3 => {
                let n = 1 + r.below(4) as usize;
                Ms::SortedMultiA(1 + r.below(n as u64) as usize, take(n))
            }
            4 => {
                let v = take(2);
                Ms::AndV(v[0], v[1])
            }
            _ => Ms::AndOlder(take(1)[0], 1 + r.below(65535) as u32),
        },
        _ => match r.below(9) {
            0 => Ms::Pk(take(1)[0]),
            1 => Ms::Pkh(take(1)[0]),
            2 | 3 => {
                let n = 1 + r.below(5) as usize;
                Ms::Multi(1 + r.below(n as u64) as usize, take(n))
            }
            4 | 5 => {
                let n = 1 + r.below(5) as usize;
                Ms::SortedMulti(1 + r.below(n as u64) as usize, take(n))
            }
            6 => {
                let v = take(2);
                Ms::AndV(v[0], v[1])
            }
            7 => {
                let v = take(2);
                Ms::OrD(v[0], v[1])
            }
            _ => Ms::AndOlder(take(1)[0], 1 + r.below(65535) as u32),
        },
    }
}

pub fn gen_case(w: &World, seed: u64, id: u64) -> Case {
    if id < N_CORPUS {
        let mut c = corpus(w, id);
        c.reject = match id {
            4 | 8 | 9 | 10 => Some("InvalidMultiIndexStep"),
            11 => Some("MultipleDerivationPathIndexSteps"),
            12 => Some("InvalidWildcardInDerivationPath"),
            13 | 15 => Some("DerivationPathTooLong"),
            _ => None,
        };
        return c;
    }
    let mut r = Rng::new(seed.wrapping_mul(0x2545F4914F6CDD1D) ^ id.wrapping_mul(0x9E3779B97F4A7C15));
    r.next();
    let kind = id % 8;
    let stream = match (id / 8) % 10 {
        7 => "shared-origin",
        8 => "mismatch",
        9 => "xprv",
        _ => "main",
    };
    // shape first (decides how many keys are needed)
    let mut nk = 0usize;
    let shape = match kind {
        0 => Shape::Bare(gen_ms(&mut r, 0, &mut nk)),
        1 => {
            nk = 1;
            Shape::Pkh(0)
        }
        2 => {
            nk = 1;
            Shape::Wpkh(0)
        }
        3 => Shape::Sh(gen_ms(&mut r, 3, &mut nk)),
        4 => Shape::ShWsh(gen_ms(&mut r, 4, &mut nk)),
        5 => {
            nk = 1;
            Shape::ShWpkh(0)
        }
        6 => Shape::Wsh(gen_ms(&mut r, 6, &mut nk)),
        _ => {
            nk = 1;
            let depths: &[u8] = match r.below(5) {
                0 => &[],
                1 => &[0],
                2 => &[1, 1],
                3 => &[1, 2, 2],
                _ => &[2, 2, 2, 2],
            };
            let leaves = depths.iter().map(|d| (*d, gen_ms(&mut r, 7, &mut nk))).collect();
            Shape::Tr(0, leaves)
        }
    };
    let class = match stream {
        "mismatch" => 4,
        "xprv" | "shared-origin" => 2,
        _ => r.below(6),
    };
    let n_alts = if class == 4 || (class == 5 && r.chance(1, 4)) { 2 + r.below(3) as usize } else { 0 };
    let plan = KeyPlan {
        class,
        n_alts,
        tap: kind == 7,
        uncompressed_ok: matches!(kind, 0 | 1 | 3),
        xprv: stream == "xprv",
    };
    let mut keys: Vec<GKey> = Vec::new();
    let mut used_sk = Vec::new();
    for j in 0..nk {
        let k = gen_key(w, &mut r, j, &plan, &mut used_sk, &keys);
        keys.push(k);
    }
    if stream == "shared-origin" {
        // DIFFERENT xpubs that carry the SAME origin text (fingerprint + path, often the all-zero
        // placeholder of watch-only setups) and the same path after the xpub, within one
        // descriptor and - the combinations are few - across consecutive descriptors
        let fp = if r.chance(1, 2) {
            bitcoin::bip32::Fingerprint::from([0u8; 4])
        } else {
            w.xks[r.below(NXK as u64) as usize].master_fp
        };
        let opath = vec![cn(true, 48), cn(true, 0), cn(true, 0), cn(true, 2)];
        let pre: Vec<ChildNumber> = if r.chance(2, 3) { vec![cn(false, 0)] } else { rand_path(&mut r, 2, false) };
        let alts: Vec<ChildNumber> = if r.chance(1, 3) { vec![cn(false, 0), cn(false, 1)] } else { vec![] };
        let base = r.below(NXK as u64) as usize;
        for (j, k) in keys.iter_mut().enumerate() {
            let mut p = pre.clone();
            if j >= NXK {
                p.push(cn(false, 1000 + j as u32));
            }
            *k = GKey::X {
                xk: (base + j) % NXK,
                origin: Some((fp, opath.clone())),
                pre: p,
                alts: alts.clone(),
                post: vec![],
                wild: 1,
                xprv: false,
            };
        }
    }
    let mut mismatch = false;
    if stream == "mismatch" && nk >= 2 {
        // change the tuple length of one key
        let j = r.below(nk as u64) as usize;
        if let GKey::X { alts, .. } = &mut keys[j] {
            if alts.len() > 2 && r.chance(1, 2) {
                alts.pop();
            } else {
                let last = *alts.last().unwrap();
                alts.push(last.increment().unwrap());
            }
        }
        let lens: std::collections::BTreeSet<usize> = keys.iter().map(|k| k.n_alts()).filter(|n| *n > 0).collect();
        mismatch = lens.len() > 1;
    }
    let stream = if stream == "mismatch" && !mismatch { "main" } else { stream };
    Case { id, stream, keys, shape, mismatch, reject: None }
}
